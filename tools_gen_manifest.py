"""Regenerate MANIFEST.json from the property modules that exist (python tools_gen_manifest.py)."""
import importlib, json, os, sys, warnings
warnings.simplefilter("ignore")
sys.path.insert(0, os.path.dirname(os.path.abspath(__file__)))
sys.path.insert(0, "/repo")
import ufv.opq  # noqa

NA_REASONS = json.load(open(os.path.join(os.path.dirname(os.path.abspath(__file__)), "not_applicable.json")))
props = [json.loads(l) for l in open("properties.jsonl")]
checks, na = [], []
for p in props:
    pid = p["id"]
    path = f"ufv/props/{pid.lower()}.py"
    if os.path.exists(path) and pid not in NA_REASONS.get("force", {}):
        m = importlib.import_module(f"ufv.props.{pid.lower()}")
        checks.append({
            "property_id": pid,
            "quick_cmd": f"./check {pid} --tier quick",
            "thorough_cmd": f"./check {pid} --tier thorough",
            "evidence_file": f"/verif/evidence/{pid}.json",
            "replay_cmd_template": f"./check {pid} --replay {{path}}",
            "engine": "ufv",
            "level_claimed": {"category": m.LEVEL, "text": m.LEVEL_TEXT, "design_ref": f"DESIGN.md §6 {pid}"},
            "level_note": m.LEVEL_NOTE,
            "technique": m.TECHNIQUE,
        })
    else:
        na.append({"property_id": pid, "reason": NA_REASONS.get("force", {}).get(pid) or NA_REASONS["pending"].get(pid, "check not built yet")})
man = {
    "version": 1,
    "setup_cmd": "./setup.sh",
    "hooks": {"guard": "UFL_VERIF", "enable": "no source hooks: contracts are sidecar (ufv/props/*.py), /repo is imported unmodified",
              "baseline_off_cmd": "cd /repo && /venv/bin/python -m pytest -ra -q -p no:cacheprovider --timeout=900 --continue-on-collection-errors",
              "source_commits": [], "add_only": True},
    "engines": [{"name": "ufv", "path": "/verif/ufv", "serves_properties": [c["property_id"] for c in checks],
                 "kind_free_text": "contract obligations on the real functions of /repo: real handlers/constructors executed on opaque "
                 "operands (symbolic execution in the term algebra), VCs against an independent denotational spec discharged by z3/cvc5; "
                 "path-exhaustive symbolic execution of integer code with z3 proxies; AST-derived obligations; bounded stand-ins labelled bounded"}],
    "checks": checks,
    "not_applicable": na,
    "notes": "see DESIGN.md; known_findings.json lists genuine defects recorded rather than repaired",
}
json.dump(man, open("MANIFEST.json", "w"), indent=1)
print("claimed", [c["property_id"] for c in checks], "na", len(na))
