#!/bin/bash
# Build the checker's interpreter offline: CPython 3.12 (the interpreter the test-suite uses)
# + z3-solver, cvc5, sympy, jsonschema from the local wheelhouse, and a .pth that makes /venv's
# packages (numpy) visible. ufl itself is always imported from /repo (PYTHONPATH set by ./check).
set -e
cd "$(dirname "$0")"
export PIP_NO_INDEX=1
if [ ! -x .venv/bin/python ] || ! .venv/bin/python -c "import z3, sympy, jsonschema" 2>/dev/null; then
  rm -rf .venv
  /venv/bin/python -m venv .venv
  .venv/bin/python -m pip install -q --no-index --find-links /opt/veriftools/wheels z3-solver cvc5 sympy mpmath jsonschema >/dev/null
  SP=$(.venv/bin/python -c "import site; print(site.getsitepackages()[0])")
  echo "import site; site.addsitedir('/venv/lib/python3.12/site-packages')" > "$SP/zz_venv_overlay.pth"
fi
.venv/bin/python -c "import z3, sympy, jsonschema, numpy; print('venv ok', z3.get_version_string())"
