"""Obligation runner: collects named obligations over real functions of /repo, discharges them in
a process pool, applies known-findings, writes evidence and replay files, sets the exit code.

Exit codes: 0 held (KNOWN-FINDING lines may be printed) / 1 violation (VIOLATION line printed)
/ 3 checker crash or vacuity guard.  'undecided' never maps to 1.
"""
from __future__ import annotations

import hashlib
import inspect
import json
import multiprocessing as mp
import os
import re
import signal
import sys
import time
import traceback

ROOT = os.path.dirname(os.path.dirname(os.path.abspath(__file__)))


class Result:
    def __init__(self, status, backend="", detail="", vcs=1, seconds=0.0, sample=None, replay=None,
                 reproduced=None, bound=None):
        self.status = status    # proved | violated | undecided | bounded_ok
        self.backend = backend
        self.detail = detail
        self.vcs = vcs
        self.seconds = seconds
        self.sample = sample
        self.replay = replay
        self.reproduced = reproduced
        self.bound = bound

    def to_dict(self):
        return dict(self.__dict__)


def deliberate(ex):
    """True iff the exception was raised by a `raise` statement (a refusal the code decided on), False if it escaped from an
    operation that failed (unpacking, indexing, arithmetic, a failed assert ...): that is a crash, never a refusal.
    Decided from the innermost traceback frame's source line."""
    import linecache
    tb = ex.__traceback__
    if tb is None:
        return True
    while tb.tb_next is not None:
        tb = tb.tb_next
    line = linecache.getline(tb.tb_frame.f_code.co_filename, tb.tb_lineno).strip()
    return line.startswith("raise ") or line == "raise"


def crash_text(ex):
    import traceback
    tb = traceback.extract_tb(ex.__traceback__)
    last = tb[-1] if tb else None
    where = f"{last.filename.split('/ufl/')[-1]}:{last.lineno}: {last.line}" if last else "?"
    return f"{type(ex).__name__}: {ex} (not raised by a raise statement: at {where})"


def proved(backend, vcs=1, seconds=0.0, sample=None, detail=""):
    return Result("proved", backend, detail, vcs, seconds, sample)


def violated(detail, replay=None, reproduced=False, backend="", sample=None, seconds=0.0):
    return Result("violated", backend, detail, 1, seconds, sample, replay, reproduced)


def undecided(reason, backend="", sample=None, seconds=0.0):
    return Result("undecided", backend, reason, 1, seconds, sample)


def bounded_ok(cases, bound, sample=None, seconds=0.0, detail=""):
    return Result("bounded_ok", "exhaustive-small-scope", detail, cases, seconds, sample, bound=bound)


class _Timeout(Exception):
    pass


def _alarm(signum, frame):
    raise _Timeout()


_OBS = []          # (name, thunk, kind) ; populated before fork


def _work(i):
    name, thunk, kind, budget = _OBS[i]
    t0 = time.time()
    signal.signal(signal.SIGALRM, _alarm)
    signal.alarm(int(budget))
    try:
        r = thunk()
        if not isinstance(r, Result):
            r = undecided(f"obligation returned {type(r).__name__}")
    except _Timeout:
        r = undecided(f"wall-clock budget {budget}s exhausted")
    except Exception as ex:  # a crash of the *checker* is undecided, not a violation
        tb = traceback.format_exc(limit=6)
        r = undecided(f"checker exception {type(ex).__name__}: {ex}\n{tb}")
    finally:
        signal.alarm(0)
    if not r.seconds:
        r.seconds = time.time() - t0
    d = r.to_dict()
    d["name"] = name
    d["kind"] = kind
    d["wall"] = time.time() - t0
    return d


def src_hash(fn):
    try:
        src = inspect.getsource(fn)
    except Exception:
        return "?"
    return hashlib.sha256(src.encode()).hexdigest()[:16]


def qualname(fn):
    fn = getattr(fn, "__func__", fn)
    fn = inspect.unwrap(fn) if callable(fn) else fn
    return f"{getattr(fn, '__module__', '?')}.{getattr(fn, '__qualname__', repr(fn))}"


class Run:
    def __init__(self, pid, tier="quick", seed=0, level="other"):
        self.pid = pid
        self.tier = tier
        self.seed = seed
        self.level = level
        self.obs = []
        self.functions = {}
        self.trusted = []
        self.assumptions = []
        self.explanation = ""
        self.rule = ""
        self.notes = []
        self.extra = {}
        self.budget = 120 if tier == "quick" else 900
        self.only = None

    # ---- registration
    def function(self, fn, name=None):
        """Declare a real function of /repo as under contract (records source hash)."""
        try:
            self.functions[name or qualname(fn)] = src_hash(getattr(fn, "__func__", fn))
        except Exception:
            self.functions[name or repr(fn)] = "?"
        return fn

    def add(self, name, thunk, kind="proof", budget=None):
        """kind: 'proof' (symbolic / exhaustive-finite) | 'values' (all values, enumerated shapes)
        | 'bounded' (small-scope stand-in) | 'canary' (must be refuted)."""
        self.obs.append((f"{self.pid}/{name}", thunk, kind, budget or self.budget))

    # ---- execution
    def execute(self, jobs=None):
        t0 = time.time()
        obs = self.obs
        if self.only:
            rx = re.compile(self.only)
            obs = [o for o in obs if rx.search(o[0]) or o[2] == "canary"]
        global _OBS
        _OBS = obs
        names = [o[0] for o in obs]
        if len(set(names)) != len(names):
            dup = sorted({n for n in names if names.count(n) > 1})
            print(f"CHECKER-ERROR: duplicate obligation names {dup[:5]}")
            return 3
        jobs = jobs or int(os.environ.get("VERIF_JOBS", "16"))
        results = self._run_pool(obs, jobs)
        return self._finish(results, time.time() - t0)

    def _run_pool(self, obs, jobs):
        """Forked worker processes, at most `jobs` at a time; each takes a batch of obligations and reports them one by
        one.  A worker that exceeds the wall budget of its current obligation (e.g. inside a solver call that ignores its
        timeout) is killed: that obligation is reported undecided and the rest of its batch is re-queued."""
        ctx = mp.get_context("fork")
        results = [None] * len(obs)
        n = len(obs)
        bsize = max(1, min(16, n // (jobs * 6) if jobs else 1))
        queue = [list(range(i, min(i + bsize, n))) for i in range(0, n, bsize)]
        running = {}   # wid -> [proc, conn, batch, pos, t_start_of_current]
        wid = 0

        def dead(i, why, ts):
            return {"status": "undecided", "backend": "", "detail": why, "vcs": 1, "seconds": time.time() - ts, "sample": None,
                    "replay": None, "reproduced": None, "bound": None, "name": obs[i][0], "kind": obs[i][2],
                    "wall": time.time() - ts}

        def child(batch, conn):
            for i in batch:
                try:
                    conn.send((i, _work(i)))
                except Exception as ex:  # noqa: BLE001
                    conn.send((i, dead(i, f"result not transferable: {ex}", time.time())))
            conn.close()
        while queue or running:
            while queue and len(running) < jobs:
                batch = queue.pop(0)
                pc, cc = ctx.Pipe(duplex=False)
                p = ctx.Process(target=child, args=(batch, cc), daemon=True)
                p.start()
                cc.close()
                running[wid] = [p, pc, batch, 0, time.time()]
                wid += 1
            progressed = False
            for k in list(running):
                p, pc, batch, pos, ts = running[k]
                try:
                    while pc.poll(0):
                        i, r = pc.recv()
                        results[i] = r
                        pos += 1
                        ts = time.time()
                        progressed = True
                except EOFError:
                    pass
                running[k][3], running[k][4] = pos, ts
                if pos >= len(batch):
                    p.join(timeout=2)
                    pc.close()
                    del running[k]
                    progressed = True
                    continue
                cur = batch[pos]
                if not p.is_alive():
                    # the worker may have sent its last results and exited between the poll above and this test: drain the pipe before
                    # declaring it dead (a worker that exits normally with everything delivered is finished, not dead)
                    try:
                        while pc.poll(0.2):
                            i, r = pc.recv()
                            results[i] = r
                            pos += 1
                    except (EOFError, OSError):
                        pass
                    running[k][3] = pos
                    if pos >= len(batch):
                        p.join(timeout=2)
                        pc.close()
                        del running[k]
                        progressed = True
                        continue
                    cur = batch[pos]
                    results[cur] = dead(cur, f"worker died (exit code {p.exitcode})", ts)
                    rest = batch[pos + 1:]
                    if rest:
                        queue.insert(0, rest)
                    pc.close()
                    del running[k]
                    progressed = True
                elif time.time() - ts > obs[cur][3] + 10:
                    p.kill()
                    p.join(timeout=2)
                    results[cur] = dead(cur, f"killed: wall-clock budget {obs[cur][3]}s exhausted (a solver call did not return)", ts)
                    rest = batch[pos + 1:]
                    if rest:
                        queue.insert(0, rest)
                    pc.close()
                    del running[k]
                    progressed = True
            if not progressed:
                time.sleep(0.005)
        for i in range(n):
            if results[i] is None:
                results[i] = dead(i, "no result received", time.time())
        return results

    def _finish(self, results, wall):
        pid = self.pid
        known = load_known(pid)
        real = [r for r in results if r["kind"] != "canary"]
        canaries = [r for r in results if r["kind"] == "canary"]
        bad_canaries = [r for r in canaries if r["status"] != "violated"]
        viol = [r for r in real if r["status"] == "violated"]
        new_viol, known_hits = [], []
        for r in viol:
            k = match_known(known, r["name"])
            (known_hits if k else new_viol).append((r, k))
        rdir = os.path.join(os.environ.get("VERIF_OUT_DIR") or ROOT, "replays", pid)
        os.makedirs(rdir, exist_ok=True)
        if not self.only:
            for old in os.listdir(rdir):        # a full run replaces the replay files of earlier runs
                if old.endswith(".json"):
                    os.unlink(os.path.join(rdir, old))
        lines = []
        for r, k in known_hits:
            lines.append(f"KNOWN-FINDING: property={pid} {k['what']} [{r['name']}]")
        for r, _ in new_viol:
            path = self._write_replay(r)
            tail = "" if r.get("reproduced") else " no-failing-input-found"
            lines.append(f"VIOLATION property={pid} replay={path}{tail}")
        status = 0
        if new_viol:
            status = 1
        if not real:
            lines.append(f"CHECKER-ERROR: property={pid} generated zero obligations (vacuity guard)")
            status = 3
        if bad_canaries:
            for r in bad_canaries:
                lines.append(f"CHECKER-ERROR: canary {r['name']} was not refuted ({r['status']}: {r['detail'][:200]})")
            status = 3
        self._write_evidence(results, real, canaries, new_viol, known_hits, wall, status)
        for ln in lines:
            print(ln)
        und = [r for r in real if r["status"] == "undecided"]
        print(f"[{pid}] tier={self.tier} obligations={len(real)} proved={sum(r['status']=='proved' for r in real)} "
              f"bounded_ok={sum(r['status']=='bounded_ok' for r in real)} undecided={len(und)} "
              f"violations={len(new_viol)} known_findings={len(known_hits)} canaries={len(canaries)-len(bad_canaries)}/{len(canaries)} "
              f"wall={wall:.1f}s")
        if os.environ.get("VERIF_VERBOSE"):
            for r in real:
                if r["status"] in ("undecided", "violated"):
                    print("  ", r["status"], r["name"], "::", r["detail"][:600])
        if os.environ.get("VERIF_VERBOSE") == "2":
            for r in real:
                print("  ", r["status"], f"{r.get('seconds', 0):.1f}s", r.get("backend", ""), r["name"], "::", str(r.get("sample") or r.get("detail"))[:200])
        return status

    def _write_replay(self, r):
        safe = re.sub(r"[^A-Za-z0-9_.=,\[\]()-]+", "_", r["name"].split("/", 1)[1])[:150]
        path = os.path.join(os.environ.get("VERIF_OUT_DIR") or ROOT, "replays", self.pid, safe + ".json")
        with open(path, "w") as f:
            json.dump({"property": self.pid, "obligation": r["name"], "reproduced_natively": bool(r.get("reproduced")),
                       "backend": r["backend"], "detail": r["detail"], "replay": r.get("replay"),
                       "functions": self.functions,
                       "how_to_replay": f"./check {self.pid} --replay {path}"}, f, indent=1, default=str)
        return path

    def _write_evidence(self, results, real, canaries, new_viol, known_hits, wall, status):
        by_backend = {}
        for r in real:
            if r["status"] in ("proved", "bounded_ok"):
                by_backend[r["backend"]] = by_backend.get(r["backend"], 0) + 1
        proof_obs = [r for r in real if r["kind"] in ("proof", "values")]
        bounded = [r for r in real if r["kind"] == "bounded"]
        discharged = [r for r in proof_obs if r["status"] == "proved"]
        samples = []
        for r in real:
            if r.get("sample") and len(samples) < 6:
                samples.append({"obligation": r["name"], "status": r["status"], "backend": r["backend"],
                                "vc": str(r["sample"])[:1500]})
        if not samples:
            samples = [{"obligation": r["name"], "status": r["status"]} for r in real[:5]]
        undec = [{"obligation": r["name"], "reason": r["detail"][:400]} for r in real if r["status"] == "undecided"]
        lvl = self.level
        n_ob = len(proof_obs)
        n_dis = len(discharged)
        if lvl == "proof" and (n_dis != n_ob or not n_ob):
            lvl = "other"   # never claim proof for a run that did not discharge everything
        cov = {
            "obligations": n_ob,
            "discharged": n_dis,
            "checker_cmd": f"./check {self.pid} --tier {self.tier}",
            "trusted_base": self.trusted,
            "explanation": self.explanation,
            "evaluations": len(real),
            "distinct_nontrivial": len({r["name"] for r in real if r["status"] in ("proved", "bounded_ok", "violated")}),
            "rule": self.rule or "one evaluation = one named obligation (contract clause x partition cell x shape); "
                                 "distinct by name; non-trivial = it was decided (proved / bounded_ok / violated), not undecided",
            "samples": samples,
            "exhaustive": False,
            "functions_under_contract": self.functions,
            "n_functions_under_contract": len(self.functions),
            "vcs_total": sum(r.get("vcs", 1) for r in real if r["status"] in ("proved", "bounded_ok")),
            "discharged_by_backend": by_backend,
            "solver_seconds": round(sum(r.get("seconds", 0) for r in real), 3),
            "proved_all_values_bounded_shape": sum(1 for r in discharged if r["kind"] == "values"),
            "proved_unbounded_or_finite_exhaustive": sum(1 for r in discharged if r["kind"] == "proof"),
            "bounded_standins": [{"obligation": r["name"], "status": r["status"], "cases": r.get("vcs"), "bound": r.get("bound")}
                                 for r in bounded],
            "undecided": undec,
            "known_findings": [{"obligation": r["name"], "what": k["what"]} for r, k in known_hits],
            "violations": [{"obligation": r["name"], "detail": r["detail"][:600]} for r, _ in new_viol],
            "canaries_refuted": sum(1 for r in canaries if r["status"] == "violated"),
            "canaries": len(canaries),
            "notes": self.notes,
        }
        cov.update(self.extra)
        ev = {
            "property_id": self.pid, "tier": self.tier, "seed": self.seed, "level": lvl,
            "coverage": cov, "assumptions": self.assumptions, "wall_s": round(wall, 2),
            "violations": len(new_viol),
        }
        # VERIF_OUT_DIR redirects evidence and replay files (used when the checks are run against a deliberately broken tree, so that the
        # committed evidence is only ever written by runs on /repo as it is)
        edir = os.path.join(os.environ.get("VERIF_OUT_DIR") or ROOT, "evidence")
        os.makedirs(edir, exist_ok=True)
        with open(os.path.join(edir, f"{self.pid}.json"), "w") as f:
            json.dump(ev, f, indent=1, default=str)


def load_known(pid):
    path = os.path.join(ROOT, "known_findings.json")
    if not os.path.exists(path):
        return []
    data = json.load(open(path))
    return [k for k in data.get("findings", []) if k.get("property") == pid]


def match_known(known, name):
    for k in known:
        if k["key"] == name:
            return k
    return None
