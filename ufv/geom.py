"""Symbolic affine simplex cell: the spec side of everything geometric.

Reference-cell data (UFC / basix numbering) is a TRUSTED TABLE: vertex coordinates, facet -> vertices
(facet i is opposite vertex i), edge -> vertices, outward reference normals, reference volumes.
Physical quantities are defined from the symbolic vertex coordinates vtx[v][i] only, by elementary
geometry — never by UFL's lowering formulas.

CellModel(cellname, gdim, facet=f, ridge=r).hook is a World.terminal_hook giving the denotation of geometric
terminals (both the low-level ones that remain after lowering and, for the spec side, nothing else: the
high-level quantities are specified by predicates in ufv/props/c07.py).
"""
from __future__ import annotations

import itertools
import math
from fractions import Fraction

import ufl.classes as C

from ufv import num as N
from ufv.den import leibniz_det, _cofactor

REF_VERTICES = {
    "interval": [(0,), (1,)],
    "triangle": [(0, 0), (1, 0), (0, 1)],
    "tetrahedron": [(0, 0, 0), (1, 0, 0), (0, 1, 0), (0, 0, 1)],
}
# UFC edge numbering: edge -> (vertex a, vertex b)
REF_EDGES = {
    "interval": [(0, 1)],
    "triangle": [(1, 2), (0, 2), (0, 1)],
    "tetrahedron": [(2, 3), (1, 3), (1, 2), (0, 3), (0, 2), (0, 1)],
}
REF_VOLUME = {"vertex": Fraction(1), "interval": Fraction(1), "triangle": Fraction(1, 2), "tetrahedron": Fraction(1, 6)}
TDIM = {"interval": 1, "triangle": 2, "tetrahedron": 3}
FACET_CELL = {"interval": "vertex", "triangle": "interval", "tetrahedron": "triangle"}


def facet_vertices(cellname, f):
    """Facet f is the sub-simplex opposite vertex f; vertices in increasing order."""
    n = TDIM[cellname] + 1
    return [v for v in range(n) if v != f]


def ref_normal(cellname, f):
    """Outward unit normal of reference facet f as exact data: (direction vector of Fractions, squared length)."""
    t = TDIM[cellname]
    if f == 0:
        d = tuple(Fraction(1) for _ in range(t))       # the slanted facet x_1+...+x_t = 1
    else:
        d = tuple(Fraction(-1) if k == f - 1 else Fraction(0) for k in range(t))
    return d, sum(x * x for x in d)


class CellModel:
    def __init__(self, cellname, gdim=None, facet=None, ridge=None):
        self.cellname = cellname
        self.tdim = TDIM[cellname]
        self.gdim = gdim or self.tdim
        self.facet = facet
        self.ridge = ridge
        self.nv = self.tdim + 1

    # ---- symbols
    def vtx(self, w, v, i):
        return w.symbol("vtx", (v, i), real=True, side_dependent=True)

    def X(self, w, j):
        return w.symbol("X", (j,), real=True)

    def J(self, w, i, j):
        return N.sub(self.vtx(w, j + 1, i), self.vtx(w, 0, i))

    def x(self, w, i):
        v = self.vtx(w, 0, i)
        for j in range(self.tdim):
            v = N.add(v, N.mul(self.J(w, i, j), self.X(w, j)))
        return v

    def gram(self, w, cols):
        """Gram matrix of a list of column getters col(i)->value."""
        def G(r, c):
            t = 0
            for i in range(self.gdim):
                t = N.add(t, N.mul(cols[r](i), cols[c](i)))
            return t
        return G

    def Jcols(self, w):
        return [(lambda i, j=j: self.J(w, i, j)) for j in range(self.tdim)]

    def edge_vec(self, w, a, b):
        return lambda i: N.sub(self.vtx(w, b, i), self.vtx(w, a, i))

    def len2(self, vec):
        t = 0
        for i in range(self.gdim):
            t = N.add(t, N.mul(vec(i), vec(i)))
        return t

    def nondegenerate(self, w):
        """det(J^T J) > 0 : the cell is non-degenerate (full rank Jacobian)."""
        G = self.gram(w, self.Jcols(w))
        return N.cmp(">", leibniz_det(G, self.tdim), 0)

    def install(self, w):
        w.terminal_hook = self.hook
        w.spatial_const |= {"vtx", "co"}
        w.real_names |= {"vtx", "co", "X"}
        return w

    # ---- denotation of the geometric terminals that remain after lowering
    def hook(self, w, e, comp, env):
        cn, t, g = self.cellname, self.tdim, self.gdim
        if isinstance(e, C.SpatialCoordinate):
            return self.x(w, comp[0])
        if isinstance(e, C.CellCoordinate):
            return self.X(w, comp[0])
        if isinstance(e, C.CellOrigin):
            return self.vtx(w, 0, comp[0])
        if isinstance(e, C.CellVertices):
            return self.vtx(w, comp[0], comp[1])
        if isinstance(e, C.CellEdgeVectors):
            a, b = REF_EDGES[cn][comp[0]]
            return self.edge_vec(w, a, b)(comp[1])
        if isinstance(e, C.FacetEdgeVectors):
            fv = facet_vertices(cn, self.facet)
            fe = REF_EDGES[FACET_CELL[cn]]
            a, b = fe[comp[0]]
            return self.edge_vec(w, fv[a], fv[b])(comp[1])
        if isinstance(e, C.Jacobian):
            return self.J(w, comp[0], comp[1])
        if isinstance(e, C.CellOrientation):
            co = w.symbol("co", real=True)
            if w.symbolic:
                c0 = N.base_value(co)
                w.extra_axioms.append(c0 * c0 == 1)
            return co
        if isinstance(e, C.ReferenceCellVolume):
            return w.const(REF_VOLUME[cn])
        if isinstance(e, C.ReferenceFacetVolume):
            return w.const(REF_VOLUME[FACET_CELL[cn]])
        if isinstance(e, C.CellFacetJacobian):
            fv = facet_vertices(cn, self.facet)
            rv = REF_VERTICES[cn]
            return w.const(rv[fv[comp[1] + 1]][comp[0]] - rv[fv[0]][comp[0]])
        if isinstance(e, C.CellRidgeJacobian):
            a, b = REF_EDGES[cn][self.ridge]
            rv = REF_VERTICES[cn]
            return w.const(rv[b][comp[0]] - rv[a][comp[0]])
        if isinstance(e, C.ReferenceNormal):
            d, l2 = ref_normal(cn, self.facet)
            if l2 == 1:
                return w.const(d[comp[0]])
            s = w.funcs.apply("sqrt", w.const(l2))
            return N.div(w.const(d[comp[0]]), s)
        return NotImplemented


def fact(n):
    return math.factorial(n)
