"""Exact polynomial normaliser with algebraic atoms — a decision procedure for identities between
rational functions with square roots / absolute values (edge lengths, pseudo-determinants, normalised
normals, circumradius).

Each sqrt(q) (and |x|) occurring in a z3 term becomes an atom s with the relation s^2 = q (resp. x^2).
The term is written as a quotient of polynomials with rational coefficients (Python dict arithmetic),
powers of atoms are reduced (outermost atoms first), leaving  SUM_S c_S * prod(S)  over square-free
products S of atoms; the term is identically zero if every c_S is the zero polynomial.  'zero' answers
are sound for every sign choice of the atoms; a non-zero remainder is reported as 'unknown' (the atoms
might be algebraically dependent), never as a refutation.
"""
from __future__ import annotations

from fractions import Fraction

import z3


class Unsupported(Exception):
    pass


# ---------------------------------------------------------------- polynomials: {monomial: coeff}; monomial = tuple of (var, exp) sorted
def p_const(c):
    c = Fraction(c)
    return {(): c} if c else {}


def p_var(v):
    return {((v, 1),): Fraction(1)}


def p_add(a, b):
    r = dict(a)
    for m, c in b.items():
        x = r.get(m, 0) + c
        if x:
            r[m] = x
        else:
            r.pop(m, None)
    return r


def p_neg(a):
    return {m: -c for m, c in a.items()}


def p_sub(a, b):
    return p_add(a, p_neg(b))


def m_mul(m1, m2):
    if not m1:
        return m2
    if not m2:
        return m1
    d = dict(m1)
    for v, e in m2:
        d[v] = d.get(v, 0) + e
    return tuple(sorted(d.items()))


def p_mul(a, b):
    if len(a) > len(b):
        a, b = b, a
    r = {}
    for m1, c1 in a.items():
        for m2, c2 in b.items():
            m = m_mul(m1, m2)
            x = r.get(m, 0) + c1 * c2
            if x:
                r[m] = x
            else:
                r.pop(m, None)
    return r


def p_pow(a, n):
    r = p_const(1)
    for _ in range(n):
        r = p_mul(r, a)
    return r


class Rat:
    """num/den with polynomial num, den (no cancellation)."""
    __slots__ = ("n", "d")

    def __init__(self, n, d=None):
        self.n = n
        self.d = d if d is not None else p_const(1)

    def __add__(self, o):
        if self.d == o.d:
            return Rat(p_add(self.n, o.n), self.d)
        return Rat(p_add(p_mul(self.n, o.d), p_mul(o.n, self.d)), p_mul(self.d, o.d))

    def __neg__(self):
        return Rat(p_neg(self.n), self.d)

    def __sub__(self, o):
        return self + (-o)

    def __mul__(self, o):
        return Rat(p_mul(self.n, o.n), p_mul(self.d, o.d))

    def __truediv__(self, o):
        return Rat(p_mul(self.n, o.d), p_mul(self.d, o.n))

    def is_zero(self):
        return not self.n


class Converter:
    def __init__(self, budget_terms=400000):
        self.vars = {}      # z3 ast id -> var index
        self.names = {}
        self.cache = {}
        self.budget = budget_terms

    def var(self, e):
        k = e.get_id()
        if k not in self.vars:
            self.vars[k] = len(self.vars)
            self.names[self.vars[k]] = str(e)
        return self.vars[k]

    def conv(self, e):
        k = e.get_id()
        if k in self.cache:
            return self.cache[k]
        r = self._conv(e)
        if len(r.n) + len(r.d) > self.budget:
            raise Unsupported("polynomial too large")
        self.cache[k] = r
        return r

    def _conv(self, e):
        if z3.is_rational_value(e):
            return Rat(p_const(Fraction(e.numerator_as_long(), e.denominator_as_long())))
        if z3.is_int_value(e):
            return Rat(p_const(e.as_long()))
        if z3.is_const(e) and e.decl().kind() == z3.Z3_OP_UNINTERPRETED:
            return Rat(p_var(self.var(e)))
        if not z3.is_app(e):
            raise Unsupported(str(e)[:60])
        kind = e.decl().kind()
        args = [e.arg(i) for i in range(e.num_args())]
        if kind == z3.Z3_OP_ADD:
            r = self.conv(args[0])
            for a in args[1:]:
                r = r + self.conv(a)
            return r
        if kind == z3.Z3_OP_SUB:
            r = self.conv(args[0])
            for a in args[1:]:
                r = r - self.conv(a)
            return r
        if kind == z3.Z3_OP_UMINUS:
            return -self.conv(args[0])
        if kind == z3.Z3_OP_MUL:
            r = self.conv(args[0])
            for a in args[1:]:
                r = r * self.conv(a)
            return r
        if kind == z3.Z3_OP_DIV:
            return self.conv(args[0]) / self.conv(args[1])
        if kind == z3.Z3_OP_POWER:
            ex = z3.simplify(args[1])
            if z3.is_rational_value(ex) and ex.denominator_as_long() == 1 and ex.numerator_as_long() >= 0:
                b = self.conv(args[0])
                n = ex.numerator_as_long()
                return Rat(p_pow(b.n, n), p_pow(b.d, n))
            raise Unsupported("non-integer power")
        if kind == z3.Z3_OP_TO_REAL:
            return self.conv(args[0])
        raise Unsupported(f"operator {e.decl().name()}")


def find_atoms(terms, extra_relations=()):
    """Collect sqrt(.) applications and abs-like ITEs (If(x>=0, x, -x)) in the given z3 terms.
    Returns list of (atom_term, square_term) ordered outermost first."""
    atoms = {}
    seen = set()

    def is_abs(e):
        if not (z3.is_app(e) and e.decl().kind() == z3.Z3_OP_ITE):
            return None
        a, b = e.arg(1), e.arg(2)
        z = z3.simplify(a + b, som=True)
        if z3.is_rational_value(z) and z.numerator_as_long() == 0:
            return a
        return None

    visited = {}

    def walk(e, depth):
        k = e.get_id()
        if visited.get(k, -1) >= depth:
            return
        visited[k] = depth
        if z3.is_app(e):
            if e.decl().kind() == z3.Z3_OP_UNINTERPRETED and e.num_args() == 1 and e.decl().name() == "sqrt":
                if k not in atoms or atoms[k][2] < depth:
                    atoms[k] = (e, e.arg(0), depth)      # keep the deepest nesting level: inner atoms are reduced last
                walk(e.arg(0), depth + 1)
                return
            x = is_abs(e)
            if x is not None:
                if k not in atoms or atoms[k][2] < depth:
                    atoms[k] = (e, x * x, depth)
                walk(x, depth + 1)
                return
            for i in range(e.num_args()):
                walk(e.arg(i), depth)
    for t in terms:
        walk(t, 0)
    out = sorted(atoms.values(), key=lambda a: a[2])
    return [(a, q) for a, q, _ in out] + list(extra_relations)


def reduce_atoms(r: Rat, atom_vars, rels, conv):
    """rels[k] = Rat for the square of atom var k (expressed with atoms of larger index only / base vars).
    Reduce numerator and denominator so that every atom var has exponent <= 1.  Processes atoms in the order given
    (outermost first)."""
    def red_poly(p, order):
        # returns Rat
        res = Rat(p)
        for v in order:
            Q = rels[v]
            n = {}
            out = Rat({})
            # group by exponent of v
            groups = {}
            for m, c in res.n.items():
                e = 0
                rest = []
                for (vv, ee) in m:
                    if vv == v:
                        e = ee
                    else:
                        rest.append((vv, ee))
                groups.setdefault(e, {})[tuple(rest)] = c
            acc = Rat({})
            for e, poly in groups.items():
                term = Rat(poly)
                qp = Rat(p_const(1))
                for _ in range(e // 2):
                    qp = qp * Q
                term = term * qp
                if e % 2:
                    term = term * Rat(p_var(v))
                acc = acc + term
            res = Rat(acc.n, p_mul(acc.d, res.d))
        return res
    num = red_poly(r.n, atom_vars)
    return num   # zero test only needs the numerator's numerator


def is_identically_zero(term, extra_relations=(), budget_terms=400000):
    """Sound 'yes' / 'unknown' test for a z3 real term being zero for all values where defined."""
    try:
        atoms = find_atoms([term], extra_relations)
        # substitute atoms by fresh constants (outermost first so inner occurrences inside q get replaced later)
        consts = []
        t = term
        qs = []
        for i, (a, q) in enumerate(atoms):
            c = z3.Real(f"__atom{i}")
            consts.append(c)
        subs = [(a, c) for (a, _), c in zip(atoms, consts)]
        t = z3.substitute(t, *subs) if subs else t
        qs = [z3.substitute(q, *subs) if subs else q for _, q in atoms]
        conv = Converter(budget_terms)
        avars = [conv.var(c) for c in consts]
        rels = {v: conv.conv(q) for v, q in zip(avars, qs)}
        r = conv.conv(t)
        red = reduce_atoms(r, avars, rels, conv)
        return (not red.n), len(r.n), len(atoms)
    except Unsupported as ex:
        return None, str(ex), 0
    except RecursionError:
        return None, "recursion", 0
