"""Form builders shared by the signature checks (C11, C12).

Every builder creates ALL its objects afresh (meshes, spaces, coefficients, constants, indices, labels), in a fixed order, so the
same builder can be run under different global-counter histories (C12) and compared with a one-change variant (C11).
"""
from __future__ import annotations

import itertools

import numpy as np

import ufl
import ufl.classes as C
from ufl import (Coefficient, Constant, FunctionSpace, Mesh, TestFunction, TrialFunction, as_tensor, as_vector, avg, conditional, derivative, diff, div, dot, dS, ds,
                 dx, exp, grad, inner, jump, lt, sin, variable, CellVolume, FacetNormal, SpatialCoordinate, Measure)
from ufl.core.multiindex import Index
from ufl.pullback import identity_pullback, contravariant_piola
from ufl.sobolevspace import H1, L2, HDiv

from ufv import elements as E


def L(cell, deg, shape=()):
    return E.FiniteElement("Lagrange", cell, deg, shape, identity_pullback, H1)


def DG(cell, deg, shape=()):
    return E.FiniteElement("Discontinuous Lagrange", cell, deg, shape, identity_pullback, L2)


def new_mesh(cell=ufl.triangle, deg=1):
    return Mesh(L(cell, deg, (cell.topological_dimension,)))


COUNTER_FAMILIES = ("Index", "Coefficient", "Constant", "Label", "Mesh", "BaseFormOperator")


def set_counters(start):
    """Set the global counters so the next object of each family gets number start[family] (a history of prior object creation)."""
    from ufl.core.base_form_operator import BaseFormOperator
    from ufl.core.multiindex import Index as I_
    from ufl.variable import Label
    for nm, cls in (("Index", I_), ("Coefficient", ufl.Coefficient), ("Constant", ufl.Constant), ("Label", Label), ("BaseFormOperator", BaseFormOperator)):
        cls._counter = itertools.count(start.get(nm, 0))
    ufl.coefficient.BaseCoefficient._counter = None
    Mesh._ufl_global_id = start.get("Mesh", 0)
    try:
        from ufl.domain import MeshView
        MeshView._ufl_global_id = start.get("Mesh", 0)
    except ImportError:
        pass


def builders():
    """[(name, builder)] — each builder() returns a Form."""
    out = []

    def add(name):
        def deco(fn):
            out.append((name, fn))
            return fn
        return deco

    @add("mass")
    def _():
        m = new_mesh()
        V = FunctionSpace(m, L(ufl.triangle, 1))
        return TrialFunction(V) * TestFunction(V) * dx

    @add("poisson with coefficient, constant and boundary term")
    def _():
        m = new_mesh()
        V = FunctionSpace(m, L(ufl.triangle, 2))
        u, v, f, c = TrialFunction(V), TestFunction(V), Coefficient(V), Constant(m)
        return c * inner(grad(u), grad(v)) * dx + f * v * ds(1) + 2.5 * u * v * dx(2)

    @add("index notation with several indices")
    def _():
        m = new_mesh()
        T = FunctionSpace(m, L(ufl.triangle, 1, (2, 2)))
        A, B = Coefficient(T), Coefficient(T)
        i, j, k = Index(), Index(), Index()
        return (A[i, j] * B[j, i] + as_tensor(A[i, k] * B[k, j], (i, j))[0, 1]) * dx

    @add("many coefficients (sorting by count)")
    def _():
        m = new_mesh()
        V = FunctionSpace(m, L(ufl.triangle, 1))
        fs = [Coefficient(V) for _ in range(4)]
        return (fs[3] * fs[0] + fs[2] * fs[1] * fs[3] + fs[1]) * TestFunction(V) * dx

    @add("many constants (sorting of constants)")
    def _():
        m = new_mesh()
        V = FunctionSpace(m, L(ufl.triangle, 1))
        cs = [Constant(m) for _ in range(4)]
        return (cs[3] * cs[0] + cs[2] * cs[1] * cs[3] + cs[1] * sin(cs[2])) * TestFunction(V) * dx

    @add("geometric quantities on two meshes")
    def _():
        m1, m2 = new_mesh(), new_mesh()
        return CellVolume(m1) * CellVolume(m2) * dx(m1) + CellVolume(m2) * dx(m2)

    @add("coefficients on two meshes")
    def _():
        m1, m2 = new_mesh(), new_mesh()
        V1, V2 = FunctionSpace(m1, L(ufl.triangle, 1)), FunctionSpace(m2, L(ufl.triangle, 1))
        f1, f2 = Coefficient(V1), Coefficient(V2)
        return f2 * f1 * dx(m1) + f2 * f2 * dx(m2)

    @add("variables and diff (labels)")
    def _():
        m = new_mesh()
        V = FunctionSpace(m, L(ufl.triangle, 1))
        f, g = Coefficient(V), Coefficient(V)
        a, b = variable(f * g), variable(f + g)
        return (diff(a * b, a) + b * a) * dx

    @add("zero with free indices kept in a conditional")
    def _():
        m = new_mesh()
        V, T = FunctionSpace(m, L(ufl.triangle, 1)), FunctionSpace(m, L(ufl.triangle, 1, (2, 2)))
        f, A = Coefficient(V), Coefficient(T)
        i, j = Index(), Index()
        z = C.Zero((), tuple(sorted((i.count(), j.count()))), (2, 2))
        return conditional(lt(f, 1), A[i, j], z) * A[i, j] * dx

    @add("coordinates, normals, restrictions")
    def _():
        m = new_mesh()
        V = FunctionSpace(m, DG(ufl.triangle, 1))
        u, v = TrialFunction(V), TestFunction(V)
        n, x = FacetNormal(m), SpatialCoordinate(m)
        return jump(u) * avg(v) * dS + dot(x, n) * u * v * ds + exp(x[0]) * u * v * dx

    @add("metadata and subdomain tuples")
    def _():
        m = new_mesh()
        V = FunctionSpace(m, L(ufl.triangle, 1))
        f = Coefficient(V)
        return f * dx(metadata={"quadrature_degree": 3}) + f * f * dx((1, 2), metadata={"quadrature_degree": 2, "rule": "default"}) + f * ds(3)

    @add("array-valued metadata")
    def _():
        m = new_mesh()
        V = FunctionSpace(m, L(ufl.triangle, 1))
        f = Coefficient(V)
        return f * dx(metadata={"quadrature_points": np.array([[0.25, 0.5], [0.5, 0.25]]), "quadrature_weights": np.array([0.25, 0.25])})

    @add("unexpanded derivative (ExprList / ExprMapping)")
    def _():
        m = new_mesh()
        V = FunctionSpace(m, L(ufl.triangle, 1))
        f, g = Coefficient(V), Coefficient(V)
        return derivative(f * f * g * dx, f)

    @add("vector-valued Piola element and mixed space")
    def _():
        m = new_mesh()
        RT = E.FiniteElement("Raviart-Thomas", ufl.triangle, 1, (2,), contravariant_piola, HDiv)
        W = FunctionSpace(m, E.MixedElement([RT, DG(ufl.triangle, 0)]))
        (s, u), (t, v) = ufl.TrialFunctions(W), ufl.TestFunctions(W)
        return (dot(s, t) + div(s) * v + div(t) * u) * dx

    @add("arguments with parts (mixed function space)")
    def _():
        m = new_mesh()
        V0, V1 = FunctionSpace(m, L(ufl.triangle, 2, (2,))), FunctionSpace(m, L(ufl.triangle, 1))
        W = ufl.MixedFunctionSpace(V0, V1)
        (v0, v1), (u0, u1) = ufl.TestFunctions(W), ufl.TrialFunctions(W)
        return inner(u0, v0) * dx + u1 * v1 * dx

    @add("external operator")
    def _():
        m = new_mesh()
        V = FunctionSpace(m, L(ufl.triangle, 1))
        f, g = Coefficient(V), Coefficient(V)
        N = C.ExternalOperator(f, g, function_space=V, derivatives=(0, 1))
        return N * TestFunction(V) * dx

    @add("two meshes that occur only inside the integrand (not integration domains)")
    def _():
        m0, m1, m2 = new_mesh(), new_mesh(), new_mesh()
        return CellVolume(m1) * ufl.Circumradius(m2) * ufl.Measure("dx", domain=m0) + ufl.Circumradius(m1) * CellVolume(m2) * CellVolume(m2) * ufl.Measure("ds", domain=m0)

    @add("shape derivatives in two directions plus a plain integral")
    def _():
        m = new_mesh()
        V, W = FunctionSpace(m, L(ufl.triangle, 1)), FunctionSpace(m, L(ufl.triangle, 1, (2,)))
        f, g = Coefficient(V), Coefficient(V)
        d1, d2 = Coefficient(W), Coefficient(W)
        x = SpatialCoordinate(m)
        return derivative(f * dx(m), x, d1) + derivative(g * g * dx(m), x, d2) + f * g * dx(m)

    @add("arguments and coefficients on a mesh sequence (mixed-domain function space)")
    def _():
        m0, m1 = new_mesh(), new_mesh()
        W = FunctionSpace(ufl.MeshSequence([m0, m1]), E.MixedElement([L(ufl.triangle, 1), L(ufl.triangle, 2)], make_cell_sequence=True))
        (u0, u1), (v0, v1) = ufl.TrialFunctions(W), ufl.TestFunctions(W)
        w0, w1 = ufl.split(Coefficient(W))
        return w0 * u0 * v0 * ufl.Measure("dx", domain=m0) + w1 * u1 * v1 * ufl.Measure("dx", domain=m1)

    @add("unexpanded derivative w.r.t. a tuple of coefficients")
    def _():
        m = new_mesh()
        V, Q = FunctionSpace(m, L(ufl.triangle, 2, (2,))), FunctionSpace(m, L(ufl.triangle, 1))
        u, p = Coefficient(V), Coefficient(Q)       # created first: their numbers are the counter's start and start + 1
        F = (inner(grad(u), grad(u)) + p * ufl.div(u) + p * p) * dx
        return ufl.derivative(F, (p, u))       # listed in reverse creation order

    @add("unexpanded derivative w.r.t. three coefficients and a constant factor")
    def _():
        m = new_mesh()
        Q = FunctionSpace(m, L(ufl.triangle, 1))
        a, b, c_ = Coefficient(Q), Coefficient(Q), Coefficient(Q)
        k = ufl.Constant(m)
        return ufl.derivative(k * a * b * c_ * dx + a * a * ds, (c_, a, b))

    @add("tetrahedron, quadratic geometry")
    def _():
        m = new_mesh(ufl.tetrahedron, 2)
        V = FunctionSpace(m, L(ufl.tetrahedron, 1, (3,)))
        u, v = TrialFunction(V), TestFunction(V)
        return inner(ufl.sym(grad(u)), grad(v)) * dx + ufl.det(ufl.Jacobian(m)) * dot(u, v) * dx
    return out


class UserCoefficient(ufl.Coefficient):
    """A downstream subclass of Coefficient (as dolfinx.fem.Function / firedrake.Function are): shares the Coefficient counter."""


class UserConstant(ufl.Constant):
    """A downstream subclass of Constant."""


def variants():
    """[(name, build_a, build_b)] — pairs of forms differing by exactly one small compile-relevant change."""
    out = []

    def pair(name, mk, a, b):
        out.append((name, lambda: mk(a), lambda: mk(b)))

    def base(kw):
        m = new_mesh(kw.get("cell", ufl.triangle), kw.get("gdeg", 1))
        cell = kw.get("cell", ufl.triangle)
        V = FunctionSpace(m, kw.get("element", L)(cell, kw.get("degree", 1)), *([kw["label"]] if "label" in kw else []))
        u, v, f, g = TrialFunction(V), TestFunction(V), Coefficient(V), (UserCoefficient(V) if kw.get("subclass") else Coefficient(V))
        c = (UserConstant if kw.get("subclass") else Constant)(m, kw.get("cshape", ()))
        cc = c if not kw.get("cshape") else c[0]
        i, j = Index(), Index()
        lit = kw.get("literal", 2)
        expr = {
            "default": lambda: lit * f * u * v + cc * g * v * u,
            "swap coefficients": lambda: lit * g * u * v + cc * f * v * u,
            "f*f": lambda: lit * f * u * v + cc * f * v * u,
            "product f*g": lambda: f * g * u * v,
            "product f*f": lambda: f * f * u * v,
            "product g*g": lambda: g * g * u * v,
            "f*g^2": lambda: f * g ** 2 * u * v + c * c * v,
            "f^2*g": lambda: f ** 2 * g * u * v + c * c * v,
            "grad index pattern a": lambda: grad(u)[i] * grad(v)[i] * grad(f)[j] * grad(g)[j],
            "grad index pattern b": lambda: grad(u)[i] * grad(v)[j] * grad(f)[i] * grad(g)[j],
            "free-then-fixed A[i,0]": lambda: dot(as_vector(grad(grad(f))[i, 0], i), grad(v)) * u,
            "fixed-then-free A[0,i]": lambda: dot(as_vector(grad(grad(f))[0, i] * (1 + 0 * g), i), grad(v)) * u if False else dot(as_vector(grad(grad(g))[0, i], i), grad(v)) * u
            if False else dot(as_vector(grad(grad(f))[0, i], i), grad(v)) * u,
            "fixed index 0": lambda: grad(u)[0] * grad(v)[0],
            "fixed index 1": lambda: grad(u)[1] * grad(v)[1],
            "restricted +": lambda: f("+") * u("+") * v("+"),
            "restricted -": lambda: f("-") * u("+") * v("+"),
            "sin": lambda: sin(f) * u * v,
            "cos": lambda: ufl.cos(f) * u * v,
            "power 2": lambda: f ** 2 * u * v,
            "power 3": lambda: f ** 3 * u * v,
            "bessel nu 1": lambda: ufl.bessel_J(1, f) * u * v,
            "bessel nu 2": lambda: ufl.bessel_J(2, f) * u * v,
            "lt": lambda: conditional(lt(f, g), u, 2 * u) * v,
            "gt": lambda: conditional(ufl.gt(f, g), u, 2 * u) * v,
            "test in first slot": lambda: grad(u)[0] * v,
            "trial in first slot": lambda: grad(v)[0] * u,
        }[kw.get("expr", "default")]()
        meas = Measure(kw.get("itype", "dx"), domain=m, subdomain_id=kw.get("sid", "everywhere"), metadata=kw.get("metadata"))
        if kw.get("expr", "").startswith("restricted"):
            meas = Measure("dS", domain=m, subdomain_id=kw.get("sid", "everywhere"), metadata=kw.get("metadata"))
        if "call_degree" in kw:          # options passed to Measure.__call__ next to a caller-owned metadata dict
            meas = Measure(kw.get("itype", "dx"), domain=m)(metadata=kw.get("metadata"), degree=kw["call_degree"])
        form = expr * meas
        for _ in range(kw.get("copies", 1) - 1):
            form = form + expr * meas            # the same integral once more (a form is the SUM of its integrals)
        if kw.get("extra"):
            form = form + g * v * Measure("ds", domain=m)
        return form

    pair("the same integral once vs twice (a vs a + a)", base, {}, {"copies": 2})
    pair("the same integral twice vs three times", base, {"copies": 2}, {"copies": 3})
    pair("k + b vs k + b + k", base, {"extra": True}, {"extra": True, "copies": 2})
    pair("literal int 2 vs 3", base, {"literal": 2}, {"literal": 3})
    pair("literal float 0.1 vs next float", base, {"literal": 0.1}, {"literal": 0.1 + 2 ** -56})
    pair("literal float 1e-30 vs 1.1e-30", base, {"literal": 1e-30}, {"literal": 1.1e-30})
    pair("literal int 2 vs float 2.5", base, {"literal": 2}, {"literal": 2.5})
    pair("literal complex", base, {"literal": 1 + 2j}, {"literal": 1 - 2j})
    pair("which coefficient multiplies which", base, {}, {"expr": "swap coefficients"})
    pair("same coefficient twice vs two coefficients", base, {}, {"expr": "f*f"})
    pair("which coefficient multiplies which (one of them of a user subclass of Coefficient)", base, {"subclass": True}, {"subclass": True, "expr": "swap coefficients"})
    pair("same coefficient twice vs two coefficients (one of a user subclass)", base, {"subclass": True}, {"subclass": True, "expr": "f*f"})
    for sub in (False, True):
        tagp = " (g of a user subclass of Coefficient)" if sub else ""
        pair("product f*g vs f*f" + tagp, base, {"subclass": sub, "expr": "product f*g"}, {"subclass": sub, "expr": "product f*f"})
        pair("product f*g vs g*g" + tagp, base, {"subclass": sub, "expr": "product f*g"}, {"subclass": sub, "expr": "product g*g"})
        pair("f*g^2 vs f^2*g" + tagp, base, {"subclass": sub, "expr": "f*g^2"}, {"subclass": sub, "expr": "f^2*g"})
    pair("index contraction pattern", base, {"expr": "grad index pattern a"}, {"expr": "grad index pattern b"})
    pair("fixed index value", base, {"expr": "fixed index 0"}, {"expr": "fixed index 1"})
    pair("first free index vs fixed index 0 swapped (A[i,0] vs A[0,i])", base, {"expr": "free-then-fixed A[i,0]", "degree": 2}, {"expr": "fixed-then-free A[0,i]", "degree": 2})
    pair("restriction side", base, {"expr": "restricted +"}, {"expr": "restricted -"})
    pair("math function", base, {"expr": "sin"}, {"expr": "cos"})
    pair("integer exponent", base, {"expr": "power 2"}, {"expr": "power 3"})
    pair("bessel order", base, {"expr": "bessel nu 1"}, {"expr": "bessel nu 2"})
    pair("condition operator", base, {"expr": "lt"}, {"expr": "gt"})
    pair("argument roles", base, {"expr": "test in first slot"}, {"expr": "trial in first slot"})
    pair("element degree", base, {"degree": 1}, {"degree": 2})
    pair("element family", base, {"element": L}, {"element": DG})
    pair("function space label", base, {}, {"label": "boundary"})
    pair("coordinate element degree", base, {"gdeg": 1}, {"gdeg": 2})
    pair("cell", base, {"cell": ufl.triangle}, {"cell": ufl.quadrilateral})
    pair("constant shape", base, {"cshape": (2,)}, {"cshape": (3,)})
    pair("integral type dx vs ds", base, {"itype": "dx"}, {"itype": "ds"})
    pair("integral type ds vs dP", base, {"itype": "ds"}, {"itype": "dP"})
    pair("subdomain id 1 vs 2", base, {"sid": 1}, {"sid": 2})
    pair("subdomain id everywhere vs 1", base, {}, {"sid": 1})
    pair("subdomain id 1 vs (1,2)", base, {"sid": 1}, {"sid": (1, 2)})
    pair("subdomain id (1,2) vs (1,3)", base, {"sid": (1, 2)}, {"sid": (1, 3)})
    pair("metadata none vs degree", base, {}, {"metadata": {"quadrature_degree": 2}})
    pair("metadata degree 2 vs 3", base, {"metadata": {"quadrature_degree": 2}}, {"metadata": {"quadrature_degree": 3}})
    pair("metadata key", base, {"metadata": {"quadrature_degree": 2}}, {"metadata": {"quadrature_rule": 2}})
    pair("metadata nested value", base, {"metadata": {"opts": {"a": [1, 2]}}}, {"metadata": {"opts": {"a": [1, 3]}}})
    _shared_opts = {"quadrature_rule": "vertex"}       # ONE options dict reused for two measures that differ in the degree= keyword
    pair("dx(metadata=opts, degree=1) vs dx(metadata=opts, degree=4) with one shared opts dict", base, {"metadata": _shared_opts, "call_degree": 1},
         {"metadata": _shared_opts, "call_degree": 4})
    pair("dx(metadata=opts) vs dx(metadata=opts, degree=2) with one shared opts dict", base, {"metadata": _shared_opts}, {"metadata": _shared_opts, "call_degree": 2})
    pair("metadata list order", base, {"metadata": {"pts": [1, 2]}}, {"metadata": {"pts": [2, 1]}})
    pair("metadata values exchanged between two keys (insertion order not sorted)", base, {"metadata": {"quadrature_degree": 4, "precision": 8}},
         {"metadata": {"precision": 4, "quadrature_degree": 8}})
    big_a = np.linspace(0.0, 1.0, 1200)
    big_b = big_a.copy()
    big_b[600] += 0.25
    pair("metadata array with >1000 entries, one interior entry changed", base, {"metadata": {"quadrature_points": big_a}}, {"metadata": {"quadrature_points": big_b}})
    pair("metadata array entry changed in the 10th significant digit", base, {"metadata": {"quadrature_weights": np.array([0.5, 0.25])}},
         {"metadata": {"quadrature_weights": np.array([0.5, 0.25 + 1e-10])}})
    pair("metadata array shape (2,3) vs (3,2)", base, {"metadata": {"p": np.arange(6.0).reshape(2, 3)}}, {"metadata": {"p": np.arange(6.0).reshape(3, 2)}})
    pair("metadata array entry changed (small array)", base, {"metadata": {"p": np.array([0.5, 0.25])}}, {"metadata": {"p": np.array([0.5, 0.75])}})

    def ext(kw):
        m = new_mesh()
        V = FunctionSpace(m, L(ufl.triangle, 1))
        V2 = FunctionSpace(m, L(ufl.triangle, kw.get("odeg", 1)))
        f, g = Coefficient(V), Coefficient(V)
        slots = ()
        if "slot" in kw:
            slots = (ufl.Argument(V2.dual(), 0), g if kw["slot"] == "g" else f)
        N = C.ExternalOperator(f, g, function_space=V2, derivatives=kw.get("derivatives", (0, 0)), argument_slots=slots)
        return N * TestFunction(V) * dx
    pair("external operator derivatives (0,0) vs (0,1)", ext, {}, {"derivatives": (0, 1)})
    pair("external operator derivatives (1,0) vs (0,1)", ext, {"derivatives": (1, 0)}, {"derivatives": (0, 1)})
    pair("external operator function space degree", ext, {}, {"odeg": 2})
    pair("external operator argument slot", ext, {"slot": "f", "derivatives": (1, 0)}, {"slot": "g", "derivatives": (1, 0)})

    def interp(kw):
        m = new_mesh()
        V = FunctionSpace(m, L(ufl.triangle, 1))
        V2 = FunctionSpace(m, L(ufl.triangle, kw.get("odeg", 2)))
        f = Coefficient(V)
        return C.Interpolate(f * f, V2) * TestFunction(V) * dx
    pair("interpolate target space degree", interp, {"odeg": 2}, {"odeg": 3})
    # a MeshSequence: the geometry of a component mesh that no measure integrates over still enters through the functions living on the sequence
    def mseq(gdeg):
        m0, m1 = new_mesh(), new_mesh(ufl.triangle, gdeg)
        W = FunctionSpace(ufl.MeshSequence([m0, m1]), E.MixedElement([L(ufl.triangle, 1), L(ufl.triangle, 1)], make_cell_sequence=True))
        _w0, w1 = ufl.split(Coefficient(W))
        v0, _v1 = ufl.TestFunctions(W)
        return inner(grad(w1), grad(v0)) * ufl.Measure("dx", domain=m0)
    pair("mesh sequence: coordinate degree of the component mesh that is not integrated over", mseq, 1, 2)

    def mseq_first(gdeg):
        m0, m1 = new_mesh(ufl.triangle, gdeg), new_mesh()
        W = FunctionSpace(ufl.MeshSequence([m0, m1]), E.MixedElement([L(ufl.triangle, 1), L(ufl.triangle, 2)], make_cell_sequence=True))
        w0, _w1 = ufl.split(Coefficient(W))
        _v0, v1 = ufl.TestFunctions(W)
        return w0 * v1 * ufl.Measure("dx", domain=m1)
    pair("mesh sequence: coordinate degree of the first component mesh, integral over the second", mseq_first, 1, 2)
    return out
