"""Back ends: discharge 'value identities' between two spec-algebra values for ALL symbol values.

Order: (1) z3.simplify(som=True) polynomial normal form; (2) z3 solver on the negation under
axioms + side conditions; (3) cvc5 (command line) on what z3 leaves unknown.
unknown / timeout is never turned into a violation.
"""
from __future__ import annotations

import subprocess
import time
from fractions import Fraction

import z3

from ufv import num as N


# printing of huge terms must never dominate the run time (samples in the evidence are truncated anyway)
z3.set_option(max_args=6, max_lines=12, max_depth=7, max_visited=300, max_width=160)


class Verdict:
    __slots__ = ("status", "backend", "model", "seconds", "detail")

    def __init__(self, status, backend="", model=None, seconds=0.0, detail=""):
        self.status = status      # 'proved' | 'refuted' | 'unknown'
        self.backend = backend
        self.model = model
        self.seconds = seconds
        self.detail = detail

    def __repr__(self):
        return f"Verdict({self.status}, {self.backend}, {self.seconds:.2f}s, {self.detail[:80]})"


def _is_zero_term(t):
    """Sound zero test: exact polynomial normaliser first (rational functions, sqrt/abs atoms), then z3's
    sum-of-monomials normal form (handles If-terms and uninterpreted functions syntactically)."""
    if not N.is_z3(t):
        return t == 0
    from ufv.alg import is_identically_zero
    z, _info, _na = is_identically_zero(t, budget_terms=200000)
    if z:
        return True
    s = z3.simplify(t, som=True, som_blowup=10 ** 5)
    return z3.is_rational_value(s) and s.numerator_as_long() == 0


def model_to_dict(m):
    out = {}
    for dcl in m.decls():
        if dcl.arity() != 0:
            continue
        v = m[dcl]
        out[dcl.name()] = z3val_to_str(v)
    return out


def z3val_to_str(v):
    if z3.is_rational_value(v):
        return f"{v.numerator_as_long()}/{v.denominator_as_long()}"
    if z3.is_algebraic_value(v):
        return v.approx(20).as_decimal(20).rstrip("?")
    if z3.is_true(v):
        return "True"
    if z3.is_false(v):
        return "False"
    return str(v)


def parse_num(s):
    try:
        return Fraction(s)
    except Exception:
        return Fraction(float(s)).limit_denominator(10 ** 12)


def cvc5_check(smt2_text, timeout_s, logic_hint=None):
    """Run /usr/bin/cvc5 on an SMT-LIB2 text. Returns 'sat'|'unsat'|'unknown'."""
    try:
        p = subprocess.run(["/usr/bin/cvc5", "--lang=smt2", f"--tlimit={int(timeout_s * 1000)}"],
                           input=smt2_text, capture_output=True, text=True, timeout=timeout_s + 5)
        out = p.stdout.strip().splitlines()
        for line in out:
            if line.strip() in ("sat", "unsat", "unknown"):
                return line.strip()
    except Exception:
        pass
    return "unknown"


def check_formula(pre, goal, timeout_ms=10000, use_cvc5=True):
    """Prove pre => goal. pre: list of z3 bools, goal: z3 bool."""
    t0 = time.time()
    s = z3.Solver()
    s.set("timeout", timeout_ms)
    s.add(*[p for p in pre if not isinstance(p, bool)])
    if any(p is False for p in pre):
        # a contradictory precondition proves nothing: never counted as a proof
        return Verdict("unknown", "vacuous-pre", None, 0.0, "precondition is literally False: the obligation is vacuous")
    s.add(z3.Not(goal) if not isinstance(goal, bool) else z3.BoolVal(not goal))
    r = s.check()
    if r == z3.unsat:
        # vacuity guard: the premises alone (axioms, side conditions, preconditions) must be satisfiable.  A separate solver is
        # used (push/pop would switch the main query to z3's weaker incremental mode); "unknown" within its budget is accepted.
        s2 = z3.Solver()
        s2.set("timeout", min(timeout_ms, 5000))
        s2.add(*[p for p in pre if not isinstance(p, bool)])
        if s2.check() == z3.unsat:
            return Verdict("unknown", "vacuous-pre", None, time.time() - t0, "the premises are unsatisfiable: the obligation is vacuous")
        return Verdict("proved", "z3", None, time.time() - t0)
    if r == z3.sat:
        return Verdict("refuted", "z3", model_to_dict(s.model()), time.time() - t0)
    if use_cvc5:
        txt = "(set-logic ALL)\n" + s.to_smt2()
        r2 = cvc5_check(txt, timeout_ms / 1000.0)
        if r2 == "unsat":
            return Verdict("proved", "cvc5", None, time.time() - t0)
        if r2 == "sat":
            return Verdict("unknown", "cvc5", None, time.time() - t0, "cvc5 says sat (no model extracted); z3 unknown")
    return Verdict("unknown", "z3", None, time.time() - t0, str(s.reason_unknown()))


def prove_equal(world, got, spec, timeout_ms=10000, pre=(), use_cvc5=True):
    """forall symbols. axioms & side & pre => got == spec  (component-wise on all dual/complex parts)."""
    t0 = time.time()
    diffs = N.flatten(N.sub(got, spec))
    rest = []
    for t in diffs:
        if N.is_z3(t):
            if not _is_zero_term(t):
                rest.append(t)
        elif t != 0:
            # a non-zero numeric constant: definitely different
            return Verdict("refuted", "const", {}, time.time() - t0, f"constant difference {t}")
    if not rest:
        return Verdict("proved", "z3-simplify", None, time.time() - t0)
    # rational functions: clear denominators structurally, compare numerators as polynomials;
    # sound because every denominator is required non-zero by the side conditions (den.py adds
    # `b != 0` for each Division it evaluates).
    rest2 = []
    for t in rest:
        try:
            n, d = ratnorm(t)
        except RecursionError:
            rest2.append(t)
            continue
        if d is not None and _is_zero_term(n):
            continue
        rest2.append(t)
    if not rest2:
        return Verdict("proved", "z3-simplify(cleared-denominators)", None, time.time() - t0)
    # exact polynomial normaliser with algebraic atoms (own dict arithmetic; sqrt/abs atoms reduced by s^2 = q)
    from ufv.alg import is_identically_zero
    rest3 = []
    natoms = 0
    for t in rest2:
        z, _info, na = is_identically_zero(t)
        if z:
            natoms = max(natoms, na)
            continue
        rest3.append(t)
    if not rest3:
        return Verdict("proved", f"poly-normaliser({natoms} algebraic atoms)", None, time.time() - t0)
    rest = rest3
    goal = z3.And(*[t == 0 for t in rest])
    v = check_formula(list(world.axioms) + list(world.side) + list(pre), goal, timeout_ms, use_cvc5)
    v.seconds = time.time() - t0
    return v


def cover(world, pre=(), timeout_ms=5000):
    """Vacuity guard: axioms & side & pre must be satisfiable."""
    s = z3.Solver()
    s.set("timeout", timeout_ms)
    s.add(*[p for p in list(world.axioms) + list(world.side) + list(pre) if not isinstance(p, bool)])
    if any(p is False for p in list(world.side) + list(pre)):
        return False
    return s.check() != z3.unsat


def ratnorm(t):
    """Write a z3 real term as (numerator, denominator) by structural recursion over + - * / ;
    anything else is an atom. denominator None means 'no division inside' (term returned as is)."""
    cache = {}

    def go(e):
        k = e.get_id()
        if k in cache:
            return cache[k]
        r = _go(e)
        cache[k] = r
        return r

    def _go(e):
        if not z3.is_app(e) or e.num_args() == 0:
            return e, None
        kind = e.decl().kind()
        if kind == z3.Z3_OP_DIV:
            (an, ad), (bn, bd) = go(e.arg(0)), go(e.arg(1))
            # (an/ad) / (bn/bd) = an*bd / (ad*bn)
            num = an if bd is None else an * bd
            den = bn if ad is None else ad * bn
            return num, den
        if kind in (z3.Z3_OP_ADD, z3.Z3_OP_SUB, z3.Z3_OP_MUL, z3.Z3_OP_UMINUS):
            parts = [go(e.arg(i)) for i in range(e.num_args())]
            if all(d is None for _, d in parts):
                return e, None
            if kind == z3.Z3_OP_UMINUS:
                return -parts[0][0], parts[0][1]
            if kind == z3.Z3_OP_MUL:
                num, den = None, None
                for n, d in parts:
                    num = n if num is None else num * n
                    if d is not None:
                        den = d if den is None else den * d
                return num, den
            # add / sub: common denominator = product of all denominators
            dens = [d for _, d in parts if d is not None]
            cd = dens[0]
            for d in dens[1:]:
                cd = cd * d
            terms = []
            for idx, (n, d) in enumerate(parts):
                f = n
                for jdx, (_, d2) in enumerate(parts):
                    if jdx != idx and d2 is not None:
                        f = f * d2
                terms.append(f)
            num = terms[0]
            for tt in terms[1:]:
                num = num + tt if kind == z3.Z3_OP_ADD else num - tt
            return num, cd
        return e, None
    return go(t)
