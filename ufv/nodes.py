"""Catalogue of node templates: for (almost) every concrete UFL operator class, a way to build
a node of that class over caller-supplied operands.  Used by the per-handler obligations of
several properties so that 'every registered type' can be enumerated from the live registry.

A template is (name, cls, operand specs, build).  An operand spec is (opname, shape, fi, fid)
where fi are Index objects.  build(ops) returns the node constructed through the class
(`cls.__new__`/__init__`), i.e. the real constructor, so eager simplification may return a node of
another class; callers that need the class exactly check type(node).
"""
from __future__ import annotations

import ufl.classes as C
from ufl.core.multiindex import FixedIndex, Index, MultiIndex
from ufl.variable import Label

I, J, K = Index(), Index(), Index()


class Template:
    def __init__(self, name, cls, specs, build, needs_dom=False, scalar_only=False):
        self.name = name
        self.cls = cls
        self.specs = specs
        self.build = build
        self.needs_dom = needs_dom

    def __repr__(self):
        return f"Template({self.name})"


def S(name, shape=(), fi=(), fid=()):
    return (name, tuple(shape), tuple(fi), tuple(fid))


def templates():
    T = []

    def add(name, cls, specs, build, **kw):
        T.append(Template(name, cls, specs, build, **kw))
    # algebra
    add("Sum", C.Sum, [S("a"), S("b")], lambda o: C.Sum(o[0], o[1]))
    add("Sum[vec]", C.Sum, [S("a", (2,)), S("b", (2,))], lambda o: C.Sum(o[0], o[1]))
    add("Sum[fi]", C.Sum, [S("a", (), (I,), (2,)), S("b", (), (I,), (2,))], lambda o: C.Sum(o[0], o[1]))
    add("Product", C.Product, [S("a"), S("b")], lambda o: C.Product(o[0], o[1]))
    add("Product[fi]", C.Product, [S("a", (), (I,), (2,)), S("b", (), (J,), (3,))], lambda o: C.Product(o[0], o[1]))
    add("Division", C.Division, [S("a"), S("b")], lambda o: C.Division(o[0], o[1]))
    add("Division[fi]", C.Division, [S("a", (), (I,), (2,)), S("b")], lambda o: C.Division(o[0], o[1]))
    add("Power[2]", C.Power, [S("a")], lambda o: C.Power(o[0], C.IntValue(2)))
    add("Power[0.5]", C.Power, [S("a")], lambda o: C.Power(o[0], C.FloatValue(0.5)))
    add("Power[a,b]", C.Power, [S("a"), S("b")], lambda o: C.Power(o[0], o[1]))
    add("Abs", C.Abs, [S("a")], lambda o: C.Abs(o[0]))
    add("Conj", C.Conj, [S("a")], lambda o: C.Conj(o[0]))
    add("Conj[vec]", C.Conj, [S("a", (2,))], lambda o: C.Conj(o[0]))
    add("Real", C.Real, [S("a")], lambda o: C.Real(o[0]))
    add("Imag", C.Imag, [S("a")], lambda o: C.Imag(o[0]))
    # index notation
    add("Indexed[i,1]", C.Indexed, [S("A", (2, 3))], lambda o: C.Indexed(o[0], MultiIndex((I, FixedIndex(1)))))
    add("Indexed[0]", C.Indexed, [S("A", (2,))], lambda o: C.Indexed(o[0], MultiIndex((FixedIndex(0),))))
    add("IndexSum", C.IndexSum, [S("a", (), (I,), (3,))], lambda o: C.IndexSum(o[0], MultiIndex((I,))))
    add("IndexSum[vec,fi]", C.IndexSum, [S("a", (2,), (I, J), (3, 2))], lambda o: C.IndexSum(o[0], MultiIndex((I,))))
    add("ComponentTensor", C.ComponentTensor, [S("a", (), (I, J), (2, 3))], lambda o: C.ComponentTensor(o[0], MultiIndex((J, I))))
    add("ComponentTensor[fi]", C.ComponentTensor, [S("a", (), (I, J), (2, 3))], lambda o: C.ComponentTensor(o[0], MultiIndex((I,))))
    add("ListTensor", C.ListTensor, [S("a"), S("b")], lambda o: C.ListTensor(o[0], o[1]))
    add("ListTensor[vec]", C.ListTensor, [S("a", (2,)), S("b", (2,)), S("c", (2,))], lambda o: C.ListTensor(*o))
    add("ListTensor[a,0,b]", C.ListTensor, [S("a"), S("b")], lambda o: C.ListTensor(o[0], C.Zero(), o[1]))
    add("Variable", C.Variable, [S("a")], lambda o: C.Variable(o[0], Label(7001)))
    add("Variable[vec]", C.Variable, [S("a", (2,))], lambda o: C.Variable(o[0], Label(7002)))
    # conditionals
    add("Conditional[LT]", C.Conditional, [S("p"), S("q"), S("a"), S("b")], lambda o: C.Conditional(C.LT(o[0], o[1]), o[2], o[3]))
    add("Conditional[vec]", C.Conditional, [S("p"), S("q"), S("a", (2,)), S("b", (2,))],
        lambda o: C.Conditional(C.GE(o[0], o[1]), o[2], o[3]))
    add("Conditional[and,not,eq]", C.Conditional, [S("p"), S("q"), S("a"), S("b")],
        lambda o: C.Conditional(C.AndCondition(C.NotCondition(C.EQ(o[0], o[1])), C.OrCondition(C.LE(o[0], o[1]), C.NE(o[0], o[1]))), o[2], o[3]))
    add("Conditional[t,0]", C.Conditional, [S("p"), S("q"), S("a")], lambda o: C.Conditional(C.GT(o[0], o[1]), o[2], C.Zero()))
    add("Conditional[0,f]", C.Conditional, [S("p"), S("q"), S("a")], lambda o: C.Conditional(C.GT(o[0], o[1]), C.Zero(), o[2]))
    add("MinValue", C.MinValue, [S("a"), S("b")], lambda o: C.MinValue(o[0], o[1]))
    add("MaxValue", C.MaxValue, [S("a"), S("b")], lambda o: C.MaxValue(o[0], o[1]))
    for cls in (C.Sqrt, C.Exp, C.Ln, C.Cos, C.Sin, C.Tan, C.Cosh, C.Sinh, C.Tanh, C.Acos, C.Asin, C.Atan, C.Erf):
        add(cls.__name__, cls, [S("a")], (lambda cls: lambda o: cls(o[0]))(cls))
    add("Atan2", C.Atan2, [S("a"), S("b")], lambda o: C.Atan2(o[0], o[1]))
    for cls in (C.BesselJ, C.BesselY, C.BesselI, C.BesselK):
        add(cls.__name__, cls, [S("a")], (lambda cls: lambda o: cls(C.IntValue(1), o[0]))(cls))
        # order zero (its own case in the differentiation rules) and a higher order
        add(cls.__name__ + "[nu=0]", cls, [S("a")], (lambda cls: lambda o: cls(C.Zero(), o[0]))(cls))
        add(cls.__name__ + "[nu=2]", cls, [S("a")], (lambda cls: lambda o: cls(C.IntValue(2), o[0]))(cls))
    # restrictions
    add("PositiveRestricted", C.PositiveRestricted, [S("a")], lambda o: C.PositiveRestricted(o[0]))
    add("NegativeRestricted", C.NegativeRestricted, [S("a", (2,))], lambda o: C.NegativeRestricted(o[0]))
    # derivatives (operands must know a domain)
    add("Grad", C.Grad, [S("a")], lambda o: C.Grad(o[0]), needs_dom=True)
    add("Grad[vec]", C.Grad, [S("a", (2,))], lambda o: C.Grad(o[0]), needs_dom=True)
    add("ReferenceGrad", C.ReferenceGrad, [S("a", (2,))], lambda o: C.ReferenceGrad(o[0]), needs_dom=True)
    add("Div", C.Div, [S("a", (2,))], lambda o: C.Div(o[0]), needs_dom=True)
    add("NablaGrad", C.NablaGrad, [S("a", (2,))], lambda o: C.NablaGrad(o[0]), needs_dom=True)
    add("NablaDiv", C.NablaDiv, [S("a", (2, 2))], lambda o: C.NablaDiv(o[0]), needs_dom=True)
    add("Curl", C.Curl, [S("a", (2,))], lambda o: C.Curl(o[0]), needs_dom=True)
    # operand shapes that differ from the geometric dimension (the derivative axis can be told from the value axes)
    add("Grad[vec3]", C.Grad, [S("a", (3,))], lambda o: C.Grad(o[0]), needs_dom=True)
    add("NablaGrad[vec3]", C.NablaGrad, [S("a", (3,))], lambda o: C.NablaGrad(o[0]), needs_dom=True)
    add("NablaGrad[mat3x2]", C.NablaGrad, [S("a", (3, 2))], lambda o: C.NablaGrad(o[0]), needs_dom=True)
    add("Div[mat3x2]", C.Div, [S("a", (3, 2))], lambda o: C.Div(o[0]), needs_dom=True)
    add("NablaDiv[mat2x3]", C.NablaDiv, [S("a", (2, 3))], lambda o: C.NablaDiv(o[0]), needs_dom=True)
    # compound tensor algebra
    add("Transposed", C.Transposed, [S("A", (2, 3))], lambda o: C.Transposed(o[0]))
    add("Outer", C.Outer, [S("a", (2,)), S("b", (3,))], lambda o: C.Outer(o[0], o[1]))
    add("Inner", C.Inner, [S("a", (2,)), S("b", (2,))], lambda o: C.Inner(o[0], o[1]))
    add("Dot", C.Dot, [S("A", (2, 3)), S("b", (3,))], lambda o: C.Dot(o[0], o[1]))
    # both operands carry a free index of their own, with different extents, listed in either creation order (I was created before J)
    add("Outer[fi I,J]", C.Outer, [S("a", (2,), (I,), (2,)), S("b", (3,), (J,), (3,))], lambda o: C.Outer(o[0], o[1]))
    add("Outer[fi J,I]", C.Outer, [S("a", (2,), (J,), (3,)), S("b", (3,), (I,), (2,))], lambda o: C.Outer(o[0], o[1]))
    add("Inner[fi J,I]", C.Inner, [S("a", (2,), (J,), (3,)), S("b", (2,), (I,), (2,))], lambda o: C.Inner(o[0], o[1]))
    add("Inner[fi I,J]", C.Inner, [S("a", (2,), (I,), (2,)), S("b", (2,), (J,), (3,))], lambda o: C.Inner(o[0], o[1]))
    add("Dot[fi J,I]", C.Dot, [S("A", (2, 3), (J,), (3,)), S("b", (3,), (I,), (2,))], lambda o: C.Dot(o[0], o[1]))
    add("Cross[fi J,I]", C.Cross, [S("a", (3,), (J,), (3,)), S("b", (3,), (I,), (2,))], lambda o: C.Cross(o[0], o[1]))
    add("Perp", C.Perp, [S("a", (2,))], lambda o: C.Perp(o[0]))
    add("Cross", C.Cross, [S("a", (3,)), S("b", (3,))], lambda o: C.Cross(o[0], o[1]))
    add("Trace", C.Trace, [S("A", (2, 2))], lambda o: C.Trace(o[0]))
    add("Determinant", C.Determinant, [S("A", (2, 2))], lambda o: C.Determinant(o[0]))
    add("Inverse", C.Inverse, [S("A", (2, 2))], lambda o: C.Inverse(o[0]))
    add("Cofactor", C.Cofactor, [S("A", (2, 2))], lambda o: C.Cofactor(o[0]))
    add("Deviatoric", C.Deviatoric, [S("A", (2, 2))], lambda o: C.Deviatoric(o[0]))
    add("Skew", C.Skew, [S("A", (2, 2))], lambda o: C.Skew(o[0]))
    add("Sym", C.Sym, [S("A", (2, 2))], lambda o: C.Sym(o[0]))
    add("CellAvg", C.CellAvg, [S("a")], lambda o: C.CellAvg(o[0]))
    add("FacetAvg", C.FacetAvg, [S("a")], lambda o: C.FacetAvg(o[0]))
    return T


def covered_classes(ts):
    return {t.cls for t in ts}


def all_concrete_operator_classes():
    from ufl.core.expr import Expr
    out = []
    for c in Expr._ufl_all_classes_:
        if not isinstance(c, type) or not issubclass(c, Expr):
            continue
        if c._ufl_is_abstract_ or c._ufl_is_terminal_:
            continue
        if c.__module__.startswith("ufv."):
            continue
        out.append(c)
    return out
