"""Number algebra used by the spec function: reals (z3 terms or exact Python numbers),
truncated dual numbers layered over them (derivative specs) and complex pairs.

Nothing in here knows about UFL.  The derivative of an elementary operation is *defined*
here by dual-number arithmetic; no rule from ufl/algorithms/apply_derivatives.py is used.
"""
from __future__ import annotations

import math
from fractions import Fraction

import z3


class Unsupported(Exception):
    """The spec cannot express this case; the obligation becomes 'undecided', never a pass."""


# ----------------------------------------------------------------------------- base level
def is_z3(x):
    return isinstance(x, z3.ExprRef)


def is_base(x):
    return not isinstance(x, (Dual, Cx))


def bconst(q, symbolic):
    """Exact rational constant at base level."""
    if symbolic:
        if isinstance(q, int):
            return z3.RealVal(q)
        q = Fraction(q)
        return z3.RealVal(f"{q.numerator}/{q.denominator}")
    return Fraction(q) if not isinstance(q, float) else q


def _b(x):
    """Make a python number usable in arithmetic with z3 terms."""
    if isinstance(x, Fraction):
        return z3.RealVal(f"{x.numerator}/{x.denominator}")
    return x


def is_zero_const(x):
    if isinstance(x, (int, Fraction)):
        return x == 0
    if isinstance(x, float):
        return x == 0.0
    if is_z3(x) and z3.is_rational_value(x):
        return x.numerator_as_long() == 0
    return False


def is_one_const(x):
    if isinstance(x, (int, Fraction)):
        return x == 1
    if is_z3(x) and z3.is_rational_value(x):
        return x.numerator_as_long() == x.denominator_as_long()
    return False


def badd(a, b):
    if is_zero_const(a):
        return b
    if is_zero_const(b):
        return a
    if is_z3(a) or is_z3(b):
        return _b(a) + _b(b)
    return a + b


def bsub(a, b):
    if is_zero_const(b):
        return a
    if is_z3(a) or is_z3(b):
        return _b(a) - _b(b)
    return a - b


def bmul(a, b):
    if is_zero_const(a) or is_zero_const(b):
        return 0
    if is_one_const(a):
        return b
    if is_one_const(b):
        return a
    if is_z3(a) or is_z3(b):
        return _b(a) * _b(b)
    return a * b


def bdiv(a, b):
    if is_zero_const(a):
        return 0
    if is_one_const(b):
        return a
    if is_z3(a) or is_z3(b):
        return _b(a) / _b(b)
    if isinstance(a, int) and isinstance(b, int):
        return Fraction(a, b)
    return a / b


def bneg(a):
    if is_zero_const(a):
        return 0
    return -a


# ----------------------------------------------------------------------------- dual numbers
class Dual:
    """v + eps*d, eps^2 = 0.  v and d may themselves be Dual (nesting = higher order)."""

    __slots__ = ("v", "d")

    def __init__(self, v, d):
        self.v = v
        self.d = d

    def __repr__(self):
        return f"Dual({self.v!r}, {self.d!r})"


class Cx:
    """Complex number as a pair of (possibly dual) reals."""

    __slots__ = ("re", "im")

    def __init__(self, re, im=0):
        self.re = re
        self.im = im

    def __repr__(self):
        return f"Cx({self.re!r}, {self.im!r})"


def _lvl(x):
    return 2 if isinstance(x, Cx) else (1 if isinstance(x, Dual) else 0)


def add(a, b):
    if isinstance(a, Cx) or isinstance(b, Cx):
        a, b = as_cx(a), as_cx(b)
        return Cx(add(a.re, b.re), add(a.im, b.im))
    da, db = isinstance(a, Dual), isinstance(b, Dual)
    if da and db:
        return Dual(add(a.v, b.v), add(a.d, b.d))
    if da:
        return Dual(add(a.v, b), a.d)
    if db:
        return Dual(add(a, b.v), b.d)
    return badd(a, b)


def neg(a):
    if isinstance(a, Cx):
        return Cx(neg(a.re), neg(a.im))
    if isinstance(a, Dual):
        return Dual(neg(a.v), neg(a.d))
    return bneg(a)


def sub(a, b):
    return add(a, neg(b))


def mul(a, b):
    if isinstance(a, Cx) or isinstance(b, Cx):
        a, b = as_cx(a), as_cx(b)
        return Cx(sub(mul(a.re, b.re), mul(a.im, b.im)), add(mul(a.re, b.im), mul(a.im, b.re)))
    da, db = isinstance(a, Dual), isinstance(b, Dual)
    if da and db:
        return Dual(mul(a.v, b.v), add(mul(a.d, b.v), mul(a.v, b.d)))
    if da:
        return Dual(mul(a.v, b), mul(a.d, b))
    if db:
        return Dual(mul(a, b.v), mul(a, b.d))
    return bmul(a, b)


def div(a, b):
    if isinstance(a, Cx) or isinstance(b, Cx):
        a, b = as_cx(a), as_cx(b)
        n2 = add(mul(b.re, b.re), mul(b.im, b.im))
        num = mul(a, Cx(b.re, neg(b.im)))
        return Cx(div(num.re, n2), div(num.im, n2))
    da, db = isinstance(a, Dual), isinstance(b, Dual)
    if db:
        av, ad = (a.v, a.d) if da else (a, 0)
        return Dual(div(av, b.v), div(sub(mul(ad, b.v), mul(av, b.d)), mul(b.v, b.v)))
    if da:
        return Dual(div(a.v, b), div(a.d, b))
    return bdiv(a, b)


def as_cx(a):
    return a if isinstance(a, Cx) else Cx(a, 0)


def conj(a):
    if isinstance(a, Cx):
        return Cx(a.re, neg(a.im))
    return a


def real(a):
    return a.re if isinstance(a, Cx) else a


def imag(a):
    return a.im if isinstance(a, Cx) else 0


def ipow(a, n):
    """a**n for a Python int n >= 0 by repeated multiplication."""
    r = 1
    for _ in range(n):
        r = mul(r, a)
    return r


def base_value(a):
    """Value part stripped of all dual layers (for comparisons)."""
    while isinstance(a, Dual):
        a = a.v
    return a


def flatten(a):
    """All base-level components of a value."""
    if isinstance(a, Cx):
        return flatten(a.re) + flatten(a.im)
    if isinstance(a, Dual):
        return flatten(a.v) + flatten(a.d)
    return [a]


def ite(c, a, b):
    if isinstance(c, bool):
        return a if c else b
    if isinstance(a, Cx) or isinstance(b, Cx):
        a, b = as_cx(a), as_cx(b)
        return Cx(ite(c, a.re, b.re), ite(c, a.im, b.im))
    if isinstance(a, Dual) or isinstance(b, Dual):
        av, ad = (a.v, a.d) if isinstance(a, Dual) else (a, 0)
        bv, bd = (b.v, b.d) if isinstance(b, Dual) else (b, 0)
        return Dual(ite(c, av, bv), ite(c, ad, bd))
    if is_zero_const(a) and is_zero_const(b):
        return 0
    a = z3.RealVal(a) if isinstance(a, int) else _b(a)
    b = z3.RealVal(b) if isinstance(b, int) else _b(b)
    return z3.If(c, a, b)


def _cmp(op, a, b):
    a, b = base_value(a), base_value(b)
    if is_z3(a) or is_z3(b):
        a = _b(a) if not isinstance(a, int) else z3.RealVal(a)
        b = _b(b) if not isinstance(b, int) else z3.RealVal(b)
    return {"<": lambda: a < b, ">": lambda: a > b, "<=": lambda: a <= b, ">=": lambda: a >= b,
            "==": lambda: a == b, "!=": lambda: a != b}[op]()


def cmp(op, a, b):
    """Comparison on the value parts; complex operands compare by real part
    (callers are responsible for requiring Im = 0 where that matters)."""
    if isinstance(a, Cx) or isinstance(b, Cx):
        a, b = as_cx(a), as_cx(b)
        if op == "==":
            return band(_cmp("==", a.re, b.re), _cmp("==", a.im, b.im))
        if op == "!=":
            return bor(_cmp("!=", a.re, b.re), _cmp("!=", a.im, b.im))
        return _cmp(op, a.re, b.re)
    return _cmp(op, a, b)


def band(*cs):
    if all(isinstance(c, bool) for c in cs):
        return all(cs)
    return z3.And(*[z3.BoolVal(c) if isinstance(c, bool) else c for c in cs])


def bor(*cs):
    if all(isinstance(c, bool) for c in cs):
        return any(cs)
    return z3.Or(*[z3.BoolVal(c) if isinstance(c, bool) else c for c in cs])


def bnot(c):
    if isinstance(c, bool):
        return not c
    return z3.Not(c)


# ----------------------------------------------------------------------------- functions
class Funcs:
    """Real elementary functions at base level + their textbook derivatives on dual numbers.

    Symbolic mode: uninterpreted z3 functions, with ground instances of textbook identities
    collected in `axioms`.  Concrete mode: Python's math module (floats).
    `side` collects definedness / smoothness side conditions.
    """

    def __init__(self, symbolic=True):
        self.symbolic = symbolic
        self.axioms = []
        self.side = []
        self._uf = {}
        self._apps = {}  # name -> list of (args, term)
        self.consts = {}

    def uf(self, name, n):
        key = (name, n)
        if key not in self._uf:
            self._uf[key] = z3.Function(name, *([z3.RealSort()] * n), z3.RealSort())
        return self._uf[key]

    def named_const(self, name):
        """pi, e ..."""
        if not self.symbolic:
            return {"pi": math.pi, "e": math.e}[name]
        if name not in self.consts:
            c = z3.Real("const_" + name)
            self.consts[name] = c
            lo, hi = {"pi": ("314159265/100000000", "314159266/100000000"),
                      "e": ("271828182/100000000", "271828183/100000000")}[name]
            self.axioms += [c > z3.RealVal(lo), c < z3.RealVal(hi)]
        return self.consts[name]

    # -- base level application
    def _base(self, name, args):
        if not self.symbolic:
            return self._concrete(name, args)
        args = [z3.RealVal(a) if isinstance(a, int) else _b(a) for a in args]
        args = [z3.simplify(a) for a in args]
        if name.startswith("bessel_") and z3.is_rational_value(args[0]) and args[0].denominator_as_long() == 1 \
                and args[0].numerator_as_long() < 0:
            # integer order reflection: J_-n = (-1)^n J_n, Y_-n = (-1)^n Y_n, I_-n = I_n, K_-n = K_n
            n = -args[0].numerator_as_long()
            t = self._base(name, [z3.RealVal(n), args[1]])
            return -t if (name[-1] in "JY" and n % 2 == 1) else t
        key = (name, tuple(a.get_id() for a in args))
        cache = self._apps.setdefault(name, {})
        if key in cache:
            return cache[key][1]
        t = self.uf(name, len(args))(*args)
        cache[key] = (args, t)
        self._axioms_for(name, args, t)
        return t

    def _concrete(self, name, args):
        a = [float(x) for x in args]
        if name == "pow":
            return a[0] ** a[1]
        if name == "atan2":
            return math.atan2(a[0], a[1])
        if name == "erf":
            return math.erf(a[0])
        if name.startswith("bessel"):
            try:
                import mpmath
            except ImportError:
                raise Unsupported("bessel functions in concrete replay (mpmath missing)")
            fn = {"J": mpmath.besselj, "Y": mpmath.bessely, "I": mpmath.besseli, "K": mpmath.besselk}[name[-1]]
            v = fn(a[0], a[1])
            if abs(complex(v).imag) > 1e-12:
                raise Unsupported("bessel function of this argument is not real")
            return float(complex(v).real)
        return getattr(math, {"ln": "log"}.get(name, name))(a[0])

    def _axioms_for(self, name, args, t):
        x = args[0]
        ax = self.axioms
        if name == "sqrt":
            ax += [t * t == x, t >= 0]
        elif name == "sin":
            c = self._base("cos", [x])
            ax.append(t * t + c * c == 1)
            self._double_angle(x)
        elif name == "cos":
            self._base("sin", [x])  # adds sin^2 + cos^2 = 1
            self._double_angle(x)
        elif name in ("sinh", "cosh"):
            if name == "sinh":
                c = self._base("cosh", [x])
                ax += [c * c - t * t == 1]
            else:
                s = self._base("sinh", [x])
                ax += [t * t - s * s == 1, t >= 1]
            self._double_angle(x, hyp=True)
        elif name == "exp":
            ax.append(t > 0)
        elif name == "tan":
            s, c = self._base("sin", [x]), self._base("cos", [x])
            ax.append(t * c == s)
        elif name == "tanh":
            s, c = self._base("sinh", [x]), self._base("cosh", [x])
            ax.append(t * c == s)
        elif name == "pow":
            self._pow_axioms(args, t)

    def _double_angle(self, x, hyp=False):
        """If x == 2*y syntactically, relate f(2y) to f(y)."""
        half = z3.simplify(x / 2)
        # only instantiate when the half-angle is 'simpler' (avoid infinite descent)
        if getattr(self, "_da_depth", 0) > 0:
            return
        xs = str(z3.simplify(x))
        if not (xs.startswith("2*") or xs.startswith("(* 2")):
            return
        self._da_depth = 1
        try:
            if hyp:
                s, c = self._base("sinh", [half]), self._base("cosh", [half])
                S, C = self._base("sinh", [x]), self._base("cosh", [x])
                self.axioms += [C == 2 * c * c - 1, S == 2 * s * c]
            else:
                s, c = self._base("sin", [half]), self._base("cos", [half])
                S, C = self._base("sin", [x]), self._base("cos", [x])
                self.axioms += [C == 2 * c * c - 1, S == 2 * s * c]
        finally:
            self._da_depth = 0

    def _pow_axioms(self, args, t):
        a, b = args
        self.axioms.append(t > 0)
        for (oargs, ot) in list(self._apps.get("pow", {}).values()):
            if ot is t or oargs[0].get_id() != a.get_id():
                continue
            dlt = z3.simplify(b - oargs[1])
            if z3.is_rational_value(dlt) and dlt.denominator_as_long() == 1:
                n = dlt.numerator_as_long()
                # pow(a,b) = pow(a,b') * a^n
                if 0 < n <= 4:
                    r = ot
                    for _ in range(n):
                        r = r * a
                    self.axioms.append(t == r)
                elif -4 <= n < 0:
                    r = t
                    for _ in range(-n):
                        r = r * a
                    self.axioms.append(ot == r)

    # -- generic application (dual aware)
    def apply(self, name, *args):
        if any(isinstance(a, Cx) for a in args):
            raise Unsupported(f"complex argument to {name}")
        if not any(isinstance(a, Dual) for a in args):
            self._definedness(name, args)
            return self._base(name, list(args))
        vs = [a.v if isinstance(a, Dual) else a for a in args]
        val = self.apply(name, *vs)
        d = 0
        for i, a in enumerate(args):
            if isinstance(a, Dual) and not (is_base(a.d) and is_zero_const(a.d)):
                d = add(d, mul(self.partial(name, i, vs, val), a.d))
        return Dual(val, d)

    def _definedness(self, name, args):
        x = args[0]
        if name == "sqrt":
            self.side.append(cmp(">=", x, 0))
        elif name == "ln":
            self.side.append(cmp(">", x, 0))
        elif name == "pow":
            self.side.append(cmp(">", x, 0))
        elif name in ("acos", "asin"):
            self.side.append(band(cmp(">=", x, -1), cmp("<=", x, 1)))
        elif name == "tan":
            self.side.append(cmp("!=", self.apply("cos", x), 0))

    def partial(self, name, i, vs, val):
        """Textbook partial derivative of elementary function `name` w.r.t. argument i."""
        x = vs[0]
        A = self.apply
        if name == "sqrt":
            self.side.append(cmp(">", x, 0))
            return div(1, mul(2, val))
        if name == "exp":
            return val
        if name == "ln":
            return div(1, x)
        if name == "cos":
            return neg(A("sin", x))
        if name == "sin":
            return A("cos", x)
        if name == "tan":
            c = A("cos", x)
            return div(1, mul(c, c))
        if name == "cosh":
            return A("sinh", x)
        if name == "sinh":
            return A("cosh", x)
        if name == "tanh":
            c = A("cosh", x)
            return div(1, mul(c, c))
        if name == "acos":
            self.side.append(band(cmp(">", x, -1), cmp("<", x, 1)))
            return neg(div(1, A("sqrt", sub(1, mul(x, x)))))
        if name == "asin":
            self.side.append(band(cmp(">", x, -1), cmp("<", x, 1)))
            return div(1, A("sqrt", sub(1, mul(x, x))))
        if name == "atan":
            return div(1, add(1, mul(x, x)))
        if name == "erf":
            return mul(div(2, A("sqrt", self.named_const("pi"))), A("exp", neg(mul(x, x))))
        if name == "atan2":
            a, b = vs
            n2 = add(mul(a, a), mul(b, b))
            self.side.append(cmp("!=", n2, 0))
            return div(b, n2) if i == 0 else neg(div(a, n2))
        if name == "pow":
            a, b = vs
            # a**b = exp(b ln a), a > 0
            if i == 0:
                return mul(b, A("pow", a, sub(b, 1)))
            return mul(val, A("ln", a))
        if name.startswith("bessel_"):
            # name = bessel_J / bessel_Y / bessel_I / bessel_K ; args (nu, x); derivative in x only
            if i == 0:
                raise Unsupported("derivative of a Bessel function w.r.t. its order")
            nu, xx = vs
            kind = name[-1]
            fm, fp = A(name, sub(nu, 1), xx), A(name, add(nu, 1), xx)
            if kind in "JY":
                return div(sub(fm, fp), 2)
            if kind == "I":
                return div(add(fm, fp), 2)
            return neg(div(add(fm, fp), 2))
        raise Unsupported(f"no derivative rule in the spec for {name}")


def absval(a, funcs):
    if isinstance(a, Cx):
        return funcs.apply("sqrt", add(mul(a.re, a.re), mul(a.im, a.im)))
    c = cmp(">=", a, 0)
    if isinstance(a, Dual):
        funcs.side.append(cmp("!=", a, 0))      # |.| is differentiated only where it is smooth
    return ite(c, a, neg(a))
