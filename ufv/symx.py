"""E1: path-exhaustive symbolic execution of real integer code with z3-backed proxies.

The unmodified function is executed repeatedly; every truth test of a symbolic condition
(`SymBool.__bool__`) consults a decision stack; both arms of every feasible branch are explored
(DFS with path condition, infeasible arms pruned by z3).  For loop-free code, and loops whose
trip count is a concrete length, the decision tree is finite and exploration is complete; the
explorer reports whether it terminated below the path cap.

Assumptions about Python's semantics: unbounded ints are z3 Int; builtins (max, min, sum, sorted,
any, all, zip) are the real ones running on proxies; floats are never symbolic.  Proxies do not
subclass int (CPython would silently concretise them), so code asking isinstance(x, int) is
served by shadowing the name `int` in the analysed module's namespace (shadow_int()).
"""
from __future__ import annotations

import builtins
import contextlib

import z3


class PathAbort(Exception):
    pass


class PathCap(Exception):
    pass


_CUR = [None]
ALLOW_TERM_HASH = [False]


class Ctx:
    def __init__(self, prefix):
        self.prefix = prefix
        self.decisions = []
        self.forced = []
        self.pc = []
        self.solver = z3.Solver()
        self.solver.set("timeout", 5000)

    def feasible(self, c):
        self.solver.push()
        self.solver.add(*self.pc, c)
        r = self.solver.check()
        self.solver.pop()
        return r != z3.unsat

    def decide(self, cond):
        cond = z3.simplify(cond)
        if z3.is_true(cond):
            return True
        if z3.is_false(cond):
            return False
        k = len(self.decisions)
        if k < len(self.prefix):
            d = self.prefix[k]
            c = cond if d else z3.Not(cond)
            if not self.feasible(c):
                raise PathAbort()
            self.decisions.append(d)
            self.forced.append(False)
            self.pc.append(c)
            return d
        ft, ff = self.feasible(cond), self.feasible(z3.Not(cond))
        if ft and ff:
            self.decisions.append(True)
            self.forced.append(False)
            self.pc.append(cond)
            return True
        if not ft and not ff:
            raise PathAbort()
        d = ft
        self.decisions.append(d)
        self.forced.append(True)
        self.pc.append(cond if d else z3.Not(cond))
        return d


def term(x):
    if isinstance(x, SymInt):
        return x.t
    if isinstance(x, bool):
        return z3.IntVal(int(x))
    if isinstance(x, builtins.int):
        return z3.IntVal(x)
    raise TypeError(f"cannot use {type(x).__name__} as a symbolic integer")


class SymBool:
    __slots__ = ("t",)

    def __init__(self, t):
        self.t = t

    def __bool__(self):
        return _CUR[0].decide(self.t)

    def __repr__(self):
        return f"SymBool({self.t})"


class SymInt:
    __slots__ = ("t",)

    def __init__(self, t):
        self.t = z3.Int(t) if isinstance(t, str) else t

    def __add__(s, o):
        return SymInt(s.t + term(o))

    __radd__ = __add__

    def __sub__(s, o):
        return SymInt(s.t - term(o))

    def __rsub__(s, o):
        return SymInt(term(o) - s.t)

    def __mul__(s, o):
        return SymInt(s.t * term(o))

    __rmul__ = __mul__

    def __neg__(s):
        return SymInt(-s.t)

    def __pos__(s):
        return s

    def __abs__(s):
        return SymInt(z3.If(s.t >= 0, s.t, -s.t))

    def __lt__(s, o):
        return SymBool(s.t < term(o))

    def __le__(s, o):
        return SymBool(s.t <= term(o))

    def __gt__(s, o):
        return SymBool(s.t > term(o))

    def __ge__(s, o):
        return SymBool(s.t >= term(o))

    def __eq__(s, o):
        if not isinstance(o, (builtins.int, SymInt)):
            return False
        return SymBool(s.t == term(o))

    def __ne__(s, o):
        if not isinstance(o, (builtins.int, SymInt)):
            return True
        return SymBool(s.t != term(o))

    def __hash__(s):
        # Hashing by term identity is only faithful where the code uses the hash for memoisation of
        # results (equal values may then get distinct keys, which real ints would share); callers
        # must opt in and list it as an assumption.
        if ALLOW_TERM_HASH[0]:
            return hash(("SymInt", s.t.get_id()))
        raise TypeError("symbolic int is unhashable (would concretise)")

    def __bool__(s):
        return _CUR[0].decide(s.t != 0)

    def __index__(s):
        raise TypeError("symbolic int used as an index (would concretise)")

    def __int__(s):
        raise TypeError("int() of a symbolic int (would concretise)")

    def __float__(s):
        raise TypeError("float() of a symbolic int: floats are not symbolic")

    def __repr__(s):
        return f"Sym({s.t})"


class _IntLikeMeta(type):
    def __instancecheck__(cls, x):
        return isinstance(x, (builtins.int, SymInt))

    def __call__(cls, *a, **k):
        if len(a) == 1 and isinstance(a[0], SymInt):
            return a[0]
        return builtins.int(*a, **k)


class IntLike(metaclass=_IntLikeMeta):
    """Stands in for the name `int` inside an analysed module: isinstance(x, int) also accepts SymInt."""


@contextlib.contextmanager
def shadow_int(module):
    had = "int" in module.__dict__
    old = module.__dict__.get("int")
    module.__dict__["int"] = IntLike
    try:
        yield
    finally:
        if had:
            module.__dict__["int"] = old
        else:
            del module.__dict__["int"]


class Path:
    __slots__ = ("pc", "kind", "value", "decisions")

    def __init__(self, pc, kind, value, decisions):
        self.pc, self.kind, self.value, self.decisions = pc, kind, value, decisions


def explore(fn, make_args, max_paths=2000):
    """Run fn(*make_args()) on every feasible path.  Returns (paths, complete)."""
    paths = []
    todo = [[]]
    while todo:
        prefix = todo.pop()
        ctx = Ctx(prefix)
        _CUR[0] = ctx
        try:
            args = make_args()
            try:
                out = ("ret", fn(*args))
            except PathAbort:
                continue
            except PathCap:
                raise
            except Exception as ex:  # noqa: BLE001
                out = ("exc", ex)
        finally:
            _CUR[0] = None
        paths.append(Path(list(ctx.pc), out[0], out[1], list(ctx.decisions)))
        if len(paths) > max_paths:
            return paths, False
        for k in range(len(prefix), len(ctx.decisions)):
            if ctx.forced[k]:
                continue
            todo.append(ctx.decisions[:k] + [not ctx.decisions[k]])
    return paths, True


def prove(pc, claim, timeout_ms=10000):
    """pc => claim ?  returns ('proved'|'refuted'|'unknown', model_dict)"""
    s = z3.Solver()
    s.set("timeout", timeout_ms)
    s.add(*pc)
    s.add(z3.Not(claim))
    r = s.check()
    if r == z3.unsat:
        return "proved", None
    if r == z3.sat:
        m = s.model()
        return "refuted", {d.name(): str(m[d]) for d in m.decls()}
    return "unknown", None


# ----------------------------------------------------------------------------- symbolic reals (for C24)
def rterm(x):
    if isinstance(x, SymReal):
        return x.t
    if isinstance(x, bool):
        return z3.RealVal(int(x))
    if isinstance(x, builtins.int):
        return z3.RealVal(x)
    if isinstance(x, float):
        from fractions import Fraction
        q = Fraction(x).limit_denominator(10 ** 6)
        if abs(float(q) - x) > 2.3e-16 * max(1.0, abs(x)):
            q = Fraction(x)
        return z3.RealVal(f"{q.numerator}/{q.denominator}")
    raise TypeError(f"cannot use {type(x).__name__} as a symbolic real")


class SymReal:
    """z3-backed real number proxy: field operations build terms, comparisons fork paths."""
    __slots__ = ("t",)

    def __init__(self, t):
        self.t = z3.Real(t) if isinstance(t, str) else t

    def __add__(s, o):
        return SymReal(s.t + rterm(o))
    __radd__ = __add__

    def __sub__(s, o):
        return SymReal(s.t - rterm(o))

    def __rsub__(s, o):
        return SymReal(rterm(o) - s.t)

    def __mul__(s, o):
        return SymReal(s.t * rterm(o))
    __rmul__ = __mul__

    def __truediv__(s, o):
        return SymReal(s.t / rterm(o))

    def __rtruediv__(s, o):
        return SymReal(rterm(o) / s.t)

    def __neg__(s):
        return SymReal(-s.t)

    def __pos__(s):
        return s

    def __abs__(s):
        return SymReal(z3.If(s.t >= 0, s.t, -s.t))

    def __pow__(s, o):
        if isinstance(o, builtins.int) and not isinstance(o, bool):
            if o >= 0:
                r = z3.RealVal(1)
                for _ in range(o):
                    r = r * s.t
                return SymReal(r)
            r = z3.RealVal(1)
            for _ in range(-o):
                r = r * s.t
            return SymReal(1 / r)
        if isinstance(o, float) and o.is_integer():
            return s.__pow__(int(o))
        raise TypeError("non-integer power of a symbolic real: not symbolic")

    def __rpow__(s, o):
        raise TypeError("symbolic exponent: not symbolic")

    def conjugate(s):
        return s

    @property
    def real(s):
        return s

    @property
    def imag(s):
        return 0

    def __lt__(s, o):
        return SymBool(s.t < rterm(o))

    def __le__(s, o):
        return SymBool(s.t <= rterm(o))

    def __gt__(s, o):
        return SymBool(s.t > rterm(o))

    def __ge__(s, o):
        return SymBool(s.t >= rterm(o))

    def __eq__(s, o):
        try:
            return SymBool(s.t == rterm(o))
        except TypeError:
            return False

    def __ne__(s, o):
        try:
            return SymBool(s.t != rterm(o))
        except TypeError:
            return True

    def __hash__(s):
        raise TypeError("symbolic real is unhashable")

    def __bool__(s):
        return _CUR[0].decide(s.t != 0)

    def __float__(s):
        raise TypeError("float() of a symbolic real: floats are not symbolic")

    def __complex__(s):
        raise TypeError("complex() of a symbolic real")

    def __repr__(s):
        return f"SymReal({s.t})"
