"""Denotation of form terminals as named atoms (World.terminal_hook)."""
from __future__ import annotations

import ufl.classes as C


def atoms_hook(w, e, comp, env):
    if isinstance(e, C.Coefficient):
        # spatially constant iff the element's polynomial space is P0 (decided here from the super-degree, not by asking the library's
        # is_cellwise_constant, which is part of the code under check)
        if e.ufl_element().embedded_superdegree == 0:
            w.spatial_const.add(f"w{e.count()}")
        return w.symbol(f"w{e.count()}", comp)
    if isinstance(e, C.Argument):
        p = e.part()
        return w.symbol(f"v{e.number()}" + (f"p{p}" if p is not None else ""), comp)
    if isinstance(e, C.Constant):
        w.spatial_const.add(f"c{e.count()}")
        return w.symbol(f"c{e.count()}", comp)
    if isinstance(e, C.SpatialCoordinate):
        return w.symbol("x", comp, real=True)
    if isinstance(e, C.GeometricQuantity):
        return w.symbol(f"geo_{type(e).__name__}", comp, real=True)
    return NotImplemented


def atoms_world(complex_mode=False, **kw):
    from ufv.den import World

    def mk(symbolic, valuation):
        w = World(symbolic=symbolic, complex_mode=complex_mode, valuation=valuation)
        w.terminal_hook = atoms_hook
        for k, v in kw.items():
            setattr(w, k, v)
        return w
    return mk
