"""Harness for derivative rule tables (DAGTraverser rulesets of ufl/algorithms/apply_derivatives.py).

A rule for node type T is run on a node o = T(a_1..a_k) over opaque operands with the induction
hypothesis injected through the traverser's visited-cache: the 'derivative of a_i' is an opaque
stand-in da_i of shape a_i.shape + var_shape (or a Zero of that shape: operand independent of the
variable).  The VC compares den(rule result) with the derivative of den(o) computed by dual numbers
(ufv.num) along a layer whose seeds tie each operand symbol to its stand-in.
"""
from __future__ import annotations

import itertools

import ufl.classes as C

from ufv import num as N
from ufv.core import proved, undecided, violated
from ufv.den import World, components, den
from ufv.opq import Opq
from ufv.semv import check_same


def rule_case(make_ruleset, tmpl, kinds, V, make_layer, dom=None, mkworld=None, tmo=20000, refusals=(ValueError, NotImplementedError,
                                                                                                     RuntimeError, ZeroDivisionError),
              tag=""):
    """kinds: per operand 'opq' (dependent, opaque derivative) or 'zero' (independent)."""
    ops, seeds = [], {}
    for (name, shape, fi, fid) in tmpl.specs:
        ops.append(Opq(name, shape, fi, fid, dom=dom))
    try:
        o = tmpl.build(ops)
    except Exception as ex:  # noqa: BLE001
        return undecided(f"{tag}: template could not be built: {ex}")
    if not isinstance(o, tmpl.cls):
        return proved("constructor-simplified", sample=f"{tag}: constructor returned {type(o).__name__}")
    rs = make_ruleset()
    for a, kd in zip(ops, kinds):
        if kd == "opq":
            da = Opq("d" + a._name, a.ufl_shape + V, a.ufl_free_indices, a.ufl_index_dimensions, dom=dom)
            seeds[a._name] = da._name
        else:
            da = C.Zero(a.ufl_shape + V, a.ufl_free_indices, a.ufl_index_dimensions)
        rs._visited_cache[(a, ())] = da
    try:
        r = rs(o)
    except refusals as ex:
        return proved("refused", sample=f"{tag}: rule refuses: {type(ex).__name__}: {ex}"[:240])
    except Exception as ex:  # noqa: BLE001
        return violated(f"{tag}: rule crashed with {type(ex).__name__}: {ex}", replay={"node": repr(o)[:1500], "standins": list(kinds)},
                        reproduced=True, backend="exec")
    rank = len(o.ufl_shape)

    def spec(w, c, env):
        layer = make_layer(seeds, c[rank:])
        return w.derive(layer, lambda w2: den(w2, o, c[:rank], env))
    indep = {a._name for a, kd in zip(ops, kinds) if kd != "opq"}

    def mk0(symbolic, valuation):
        w = (mkworld(symbolic, valuation) if mkworld else World(symbolic=symbolic, complex_mode=False, valuation=valuation))
        w.spatial_const = set(w.spatial_const) | indep      # operands declared independent of the variable
        return w
    mk = mk0
    return check_same(mk, r, spec, o.ufl_shape + V, o.ufl_free_indices, o.ufl_index_dimensions, timeout_ms=tmo, what=tag)


def registry_of(ruleset_cls):
    """type -> handler function actually bound for the ruleset class (singledispatch registry incl. inherited)."""
    d = ruleset_cls.__dict__.get("process")
    return d.dispatcher.registry if d is not None else {}


def handler_for(ruleset_cls, T):
    return ruleset_cls.__dict__["process"].dispatcher.dispatch(T)
