"""Form-level helpers: a form denotes, per (integral type, domain, subdomain id), the sum of its integrands."""
from __future__ import annotations

import ufl.classes as C
from ufl.form import Form

from ufv import num as N
from ufv.core import proved, undecided, violated
from ufv.den import den
from ufv.num import Unsupported
from ufv.semv import check_same, quick_refute
from ufv.smt import prove_equal


def form_parts(form):
    """{(integral_type, domain id, subdomain_id): [integrands]} ; form may be 0 / empty."""
    out = {}
    if not isinstance(form, Form):
        return out
    for it in form.integrals():
        sid = it.subdomain_id()
        key = (it.integral_type(), it.ufl_domain().ufl_id(), sid if not isinstance(sid, (list, tuple)) else tuple(sid))
        out.setdefault(key, []).append(it.integrand())
    return out


def part_sum(w, integrands):
    tot = 0
    for e in integrands:
        tot = N.add(tot, den(w, e, (), {}))
    return tot


def check_form(mk, got_form, spec_fn, keys_from, what, timeout_ms=20000):
    """For every key of got_form and of every form in keys_from: sum of den(got integrands) == spec_fn(world, key).
    spec_fn may use form_parts of other forms."""
    got = form_parts(got_form)
    keys = set(got)
    for f in keys_from:
        keys |= set(form_parts(f))
    n = 0
    backs = set()
    for key in sorted(keys, key=str):
        w = mk(True, None)
        try:
            g = part_sum(w, got.get(key, []))
            s = spec_fn(w, key)
        except Unsupported as ex:
            return undecided(f"{what}: spec cannot express this case: {ex}")
        # quick numeric refutation
        q = _quick(mk, got.get(key, []), spec_fn, key)
        if q is not None:
            return violated(f"{what}: on {key} the form integrates {q['got']} but should integrate {q['spec']} at {q['point']}",
                            replay={"what": what, "key": str(key), **q}, reproduced=True, backend="numeric-search")
        v = prove_equal(w, g, s, timeout_ms)
        n += 1
        if v.status == "proved":
            backs.add(v.backend)
            continue
        if v.status == "refuted":
            return violated(f"{what}: on {key} the integrands differ (counter-model {v.model})", replay={"what": what, "key": str(key), "model": v.model},
                            reproduced=False, backend=v.backend)
        return undecided(f"{what}: {key}: {v.backend} unknown {v.detail}")
    return proved("+".join(sorted(backs)) or "z3-simplify", vcs=max(n, 1), sample=f"{what}: {n} (integral type, domain, subdomain) parts compared")


def _quick(mk, got_integrands, spec_fn, key, tries=2):
    import random
    from fractions import Fraction
    rnd = random.Random(99)
    for _ in range(tries):
        vals = {}

        def val(nm):
            if nm not in vals:
                vals[nm] = Fraction(rnd.randint(-6, 6) or 1, rnd.randint(1, 3))
            return vals[nm]
        try:
            w = mk(False, val)
            g = part_sum(w, got_integrands)
            s = spec_fn(w, key)
            if not all(bool(x) for x in w.side):
                continue
            d = max(abs(complex(float(a) if not isinstance(a, complex) else a)) for a in N.flatten(N.sub(g, s)))
            scale = max(1.0, max(abs(float(t)) for t in N.flatten(s)))
            if d > 1e-7 * scale:
                return {"got": str(N.flatten(g)), "spec": str(N.flatten(s)), "point": {k: str(v) for k, v in sorted(vals.items())}}
        except Exception:  # noqa: BLE001
            continue
    return None
