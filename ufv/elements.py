"""Checker-side concrete finite elements (copied from /repo/test/utils.py; ufl ships only AbstractFiniteElement)."""

from ufl.cell import AbstractCell, Cell, CellSequence
from ufl.finiteelement import AbstractFiniteElement
from ufl.pullback import (
    AbstractPullback,
    IdentityPullback,
    MixedPullback,
    SymmetricPullback,
    identity_pullback,
)
from ufl.sobolevspace import H1, SobolevSpace


class FiniteElement(AbstractFiniteElement):
    """A directly defined finite element."""

    def __init__(
        self,
        family: str,
        cell: AbstractCell,
        degree: int,
        reference_value_shape: tuple[int, ...],
        pullback: AbstractPullback,
        sobolev_space: SobolevSpace,
        sub_elements=[],
        _repr: str | None = None,
        _str: str | None = None,
        subdegree: int | None = None,
    ):
        """Initialise a finite element.

        This class should only be used for testing

        Args:
            family: The family name of the element
            cell: The cell on which the element is defined
            degree: The polynomial degree of the element
            reference_value_shape: The reference value shape of the element
            pullback: The pullback to use
            sobolev_space: The Sobolev space containing this element
            sub_elements: Sub elements of this element
            _repr: A string representation of this elements
            _str: A string for printing
            subdegree: The embedded subdegree of this element
        """
        if subdegree is None:
            self._subdegree = degree
        else:
            self._subdegree = subdegree
        if _repr is None:
            if len(sub_elements) > 0:
                self._repr = (
                    f'utils.FiniteElement("{family}", {cell}, {degree}, '
                    f"{reference_value_shape}, {pullback}, {sobolev_space}, {sub_elements!r})"
                )
            else:
                self._repr = (
                    f'utils.FiniteElement("{family}", {cell}, {degree}, '
                    f"{reference_value_shape}, {pullback}, {sobolev_space})"
                )
        else:
            self._repr = _repr
        if _str is None:
            self._str = f"<{family}{degree} on a {cell}>"
        else:
            self._str = _str
        self._family = family
        self._cell = cell
        self._degree = degree
        self._reference_value_shape = reference_value_shape
        self._pullback = pullback
        self._sobolev_space = sobolev_space
        self._sub_elements = sub_elements

    def __repr__(self) -> str:
        """Format as string for evaluation as Python object."""
        return self._repr

    def __str__(self) -> str:
        """Format as string for nice printing."""
        return self._str

    def __hash__(self) -> int:
        """Return a hash."""
        return hash(f"{self!r}")

    def __eq__(self, other) -> bool:
        """Check if this element is equal to another element."""
        return type(self) is type(other) and repr(self) == repr(other)

    @property
    def sobolev_space(self) -> SobolevSpace:
        """Return the underlying Sobolev space."""
        return self._sobolev_space

    @property
    def pullback(self) -> AbstractPullback:
        """Return the pullback for this element."""
        return self._pullback

    @property
    def embedded_superdegree(self) -> int | None:
        """Degree of the minimum degree Lagrange space that spans this element.

        This returns the degree of the lowest degree Lagrange space such
        that the polynomial space of the Lagrange space is a superspace
        of this element's polynomial space. If this element contains
        basis functions that are not in any Lagrange space, this
        function should return None.

        Note that on a simplex cells, the polynomial space of Lagrange
        space is a complete polynomial space, but on other cells this is
        not true. For example, on quadrilateral cells, the degree 1
        Lagrange space includes the degree 2 polynomial xy.
        """
        return self._degree

    @property
    def embedded_subdegree(self) -> int:
        """Degree of the maximum degree Lagrange space that is spanned by this element.

        This returns the degree of the highest degree Lagrange space
        such that the polynomial space of the Lagrange space is a
        subspace of this element's polynomial space. If this element's
        polynomial space does not include the constant function, this
        function should return -1.

        Note that on a simplex cells, the polynomial space of Lagrange
        space is a complete polynomial space, but on other cells this is
        not true. For example, on quadrilateral cells, the degree 1
        Lagrange space includes the degree 2 polynomial xy.
        """
        return self._subdegree

    @property
    def cell(self) -> AbstractCell:
        """Return the cell of the finite element."""
        return self._cell

    @property
    def reference_value_shape(self) -> tuple[int, ...]:
        """Return the shape of the value space on the reference cell."""
        return self._reference_value_shape

    @property
    def sub_elements(self) -> list:
        """Return list of sub-elements.

        This function does not recurse: ie it does not extract the
        sub-elements of sub-elements.
        """
        return self._sub_elements


class LagrangeElement(FiniteElement):
    """A Lagrange element."""

    def __init__(self, cell: Cell, degree: int, shape: tuple[int, ...] = ()):
        """Initialise."""
        super().__init__(
            "Lagrange",
            cell,
            degree,
            shape,
            identity_pullback,
            H1,
        )


class SymmetricElement(FiniteElement):
    """A symmetric finite element."""

    def __init__(
        self,
        symmetry: dict[tuple[int, ...], int],
        sub_elements: list[AbstractFiniteElement],
    ):
        """Initialise a symmetric element.

        This class should only be used for testing

        Args:
            symmetry: Map from physical components to reference components
            sub_elements: Sub-elements of this element
        """
        self._sub_elements = sub_elements
        pullback = SymmetricPullback(self, symmetry)
        reference_value_shape = (sum(e.reference_value_size for e in sub_elements),)
        degree = max(
            e.embedded_superdegree for e in sub_elements if e.embedded_superdegree is not None
        )
        cell = sub_elements[0].cell
        for e in sub_elements:
            if e.cell != cell:
                raise ValueError("All sub-elements must be defined on the same cell")
        sobolev_space = max(e.sobolev_space for e in sub_elements)

        super().__init__(
            "Symmetric element",
            cell,
            degree,
            reference_value_shape,
            pullback,
            sobolev_space,
            sub_elements=sub_elements,
            _repr=(f"utils.SymmetricElement({symmetry!r}, {sub_elements!r})"),
            _str=f"<symmetric element on a {cell}>",
        )


class MixedElement(FiniteElement):
    """A mixed element."""

    def __init__(self, sub_elements, make_cell_sequence=False):
        """Initialise a mixed element.

        This class should only be used for testing

        Args:
            sub_elements: Sub-elements of this element
            make_cell_sequence: If True, make a CellSequence
        """
        sub_elements = [MixedElement(e) if isinstance(e, list) else e for e in sub_elements]
        if make_cell_sequence:
            cell = CellSequence(tuple(e.cell for e in sub_elements))
        else:
            cell = sub_elements[0].cell
            for e in sub_elements:
                assert e.cell == cell
        degree = max(e.embedded_superdegree for e in sub_elements)
        reference_value_shape = (sum(e.reference_value_size for e in sub_elements),)
        if not make_cell_sequence and all(
            isinstance(e.pullback, IdentityPullback) for e in sub_elements
        ):
            pullback = IdentityPullback()
        else:
            pullback = MixedPullback(self)
        sobolev_space = max(e.sobolev_space for e in sub_elements)

        super().__init__(
            "Mixed element",
            cell,
            degree,
            reference_value_shape,
            pullback,
            sobolev_space,
            sub_elements=sub_elements,
            _repr=f"utils.MixedElement({sub_elements!r})",
            _str=f"<MixedElement with {len(sub_elements)} sub-element(s)>",
        )
