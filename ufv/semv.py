"""E2: semantic VCs.  Compare the denotation of a term produced by a *real* function of /repo
(run on opaque operands) with a spec value, for all values of all symbols."""
from __future__ import annotations

import hashlib
import time
from fractions import Fraction

from ufv import num as N
from ufv.core import proved, undecided, violated
from ufv.den import World, components, den, envs
from ufv.num import Unsupported
from ufv.smt import parse_num, prove_equal


def default_value(name):
    h = int(hashlib.sha256(name.encode()).hexdigest()[:8], 16)
    return Fraction((h % 17) + 2, (h // 17) % 7 + 1) * (1 if (h >> 20) % 2 else -1)


def valuation_from_model(model):
    m = {k: parse_num(v) for k, v in (model or {}).items() if v not in ("True", "False")}

    def val(nm):
        if nm in m:
            return m[nm]
        return default_value(nm)
    return val


def to_float(x):
    if isinstance(x, N.Cx):
        return complex(to_float(x.re), to_float(x.im))
    if isinstance(x, N.Dual):
        raise TypeError
    return float(x)


def concrete_diff(got, spec):
    """max abs difference over all dual / complex parts, in floats."""
    ds = N.flatten(N.sub(got, spec))
    return max(abs(float(t)) for t in ds) if ds else 0.0


def check_same(mkworld, r, spec_fn, shape, fi=(), fid=(), timeout_ms=10000, pre_fn=None, what="",
               structural=True, comps=None):
    """Prove: shape/free indices of r are (shape, fi, fid) and for every component and index
    assignment den(r) == spec_fn(world, comp, env), for all symbol values.

    mkworld(symbolic, valuation) -> World.  Returns a core.Result.
    """
    t0 = time.time()
    fi, fid = tuple(fi), tuple(fid)
    if structural:
        if tuple(r.ufl_shape) != tuple(shape):
            return violated(f"{what}: result shape {r.ufl_shape} != required {tuple(shape)}; result={r!r:.300}",
                            replay={"kind": "shape", "got": str(r.ufl_shape), "want": str(tuple(shape)), "result": repr(r)[:2000]},
                            reproduced=True, backend="structural")
        if (tuple(r.ufl_free_indices), tuple(r.ufl_index_dimensions)) != (fi, fid):
            return violated(f"{what}: result free indices {r.ufl_free_indices}{r.ufl_index_dimensions} != required {fi}{fid}",
                            replay={"kind": "free-indices", "got": str((r.ufl_free_indices, r.ufl_index_dimensions)),
                                    "want": str((fi, fid)), "result": repr(r)[:2000]},
                            reproduced=True, backend="structural")
    backends = set()
    n = 0
    sample = None
    unknowns = []
    for c in (comps if comps is not None else components(shape)):
        for env in envs(fi, fid):
            w = mkworld(True, None)
            try:
                got = den(w, r, c, env)
                spec = spec_fn(w, c, env)
            except Unsupported as ex:
                return undecided(f"{what}: spec cannot express this case: {ex}")
            pre = pre_fn(w) if pre_fn else ()
            # cheap refutation attempt at random rational points before any solver work
            quick = quick_refute(mkworld, r, spec_fn, c, env, pre_fn, tries=2, seed=n)
            if quick is not None:
                quick.update({"component": list(c), "index_values": {str(k): v_ for k, v_ in env.items()},
                              "result_term": repr(r)[:3000], "what": what})
                return violated(f"{what}: value differs at comp={c} env={env}: real code's result evaluates to "
                                f"{quick['got']} but the spec value is {quick['spec']} at {quick['point']}",
                                replay=quick, reproduced=True, backend="numeric-search", seconds=time.time() - t0)
            v = prove_equal(w, got, spec, timeout_ms, pre)
            n += 1
            if sample is None:
                sample = f"{what} comp={c} env={env}: den(result)={_short(got)}  ==  spec={_short(spec)}  [{v.status}/{v.backend}]"
            if v.status == "proved":
                backends.add(v.backend)
                continue
            if v.status == "refuted":
                rep = replay_point(mkworld, r, spec_fn, c, env, v.model)
                rep.update({"component": list(c), "index_values": {str(k): v_ for k, v_ in env.items()},
                            "result_term": repr(r)[:3000], "what": what})
                if rep["reproduced"]:
                    return violated(f"{what}: value differs at comp={c} env={env}: real code's result evaluates to "
                                    f"{rep['got']} but the spec value is {rep['spec']} at {rep['point']}",
                                    replay=rep, reproduced=True, backend=v.backend, sample=sample, seconds=time.time() - t0)
                unknowns.append(f"comp={c} env={env}: solver model did not reproduce numerically ({rep.get('note','')})")
                continue
            unknowns.append(f"comp={c} env={env}: {v.backend} unknown {v.detail}")
    if unknowns:
        return undecided(f"{what}: {len(unknowns)}/{n} VCs undecided: " + "; ".join(unknowns[:3]), sample=sample,
                         seconds=time.time() - t0)
    return proved("+".join(sorted(backends)) or "z3-simplify", vcs=n, seconds=time.time() - t0, sample=sample)


def quick_refute(mkworld, r, spec_fn, c, env, pre_fn=None, tries=2, seed=0):
    """Evaluate both sides at a few random rational points (independent concrete world); returns a replay dict if they differ."""
    import random
    rnd = random.Random(4242 + seed)
    for _ in range(tries):
        vals = {}

        def val(nm):
            if nm not in vals:
                vals[nm] = Fraction(rnd.randint(-6, 6) or 1, rnd.randint(1, 3))
                if nm.startswith("co["):
                    vals[nm] = Fraction(rnd.choice([-1, 1]))
            return vals[nm]
        try:
            w = mkworld(False, val)
            got = den(w, r, c, env)
            spec = spec_fn(w, c, env)
            if pre_fn and not all(bool(p) for p in pre_fn(w)):
                continue
            if not all(bool(x) for x in w.side):
                continue
            diff = concrete_diff(got, spec)
            scale = max(1.0, max(abs(float(t)) for t in N.flatten(spec)))
            if diff > 1e-7 * scale:
                return {"reproduced": True, "got": _cstr(got), "spec": _cstr(spec), "point": {k: str(v) for k, v in sorted(vals.items())}}
        except Exception:  # noqa: BLE001  (undefined at this point, unsupported in concrete mode, ...)
            continue
    return None


def replay_point(mkworld, r, spec_fn, c, env, model):
    """Evaluate both sides exactly/numerically at the solver's model point with an independent
    concrete world (Fractions + math module)."""
    val = valuation_from_model(model)
    used = {}

    def val2(nm):
        used[nm] = val(nm)
        return used[nm]
    try:
        w = mkworld(False, val2)
        got = den(w, r, c, env)
        spec = spec_fn(w, c, env)
        diff = concrete_diff(got, spec)
        scale = max(1.0, max(abs(float(t)) for t in N.flatten(spec)))
        ok = diff > 1e-9 * scale
        return {"reproduced": bool(ok), "got": _cstr(got), "spec": _cstr(spec),
                "point": {k: str(v) for k, v in sorted(used.items())}}
    except (Unsupported, ZeroDivisionError, ValueError, OverflowError, TypeError) as ex:
        return {"reproduced": False, "note": f"concrete evaluation failed: {type(ex).__name__}: {ex}",
                "point": {k: str(v) for k, v in sorted(used.items())}}


def _cstr(v):
    return "[" + ", ".join(str(t) for t in N.flatten(v)) + "]"


def _short(v, n=300):
    s = str(v)
    return s if len(s) <= n else s[:n] + "…"


def real_world(**kw):
    def mk(symbolic, valuation):
        w = World(symbolic=symbolic, complex_mode=False, valuation=valuation)
        for k, v in kw.items():
            setattr(w, k, v)
        return w
    return mk


def complex_world(**kw):
    def mk(symbolic, valuation):
        w = World(symbolic=symbolic, complex_mode=True, valuation=valuation)
        for k, v in kw.items():
            setattr(w, k, v)
        return w
    return mk


def check_pred(mkworld, goal_fn, what="", timeout_ms=10000, pre_fn=None, info=None):
    """Prove a predicate goal_fn(world) (z3 Bool in symbolic worlds, bool in concrete worlds)
    for all symbol values, under the world's axioms and side conditions."""
    from ufv.smt import check_formula
    t0 = time.time()
    w = mkworld(True, None)
    try:
        goal = goal_fn(w)
    except Unsupported as ex:
        return undecided(f"{what}: spec cannot express this case: {ex}")
    if isinstance(goal, bool):
        if goal:
            return proved("constant-true", seconds=time.time() - t0, sample=f"{what}: True")
        return violated(f"{what}: predicate is constantly False", replay={"what": what, "info": info}, reproduced=True,
                        backend="structural")
    pre = list(pre_fn(w)) if pre_fn else []
    v = check_formula(list(w.axioms) + list(w.side) + pre, goal, timeout_ms)
    sample = f"{what}: {_short(goal)} [{v.status}/{v.backend}]"
    if v.status == "proved":
        return proved(v.backend, seconds=time.time() - t0, sample=sample)
    if v.status == "refuted":
        val = valuation_from_model(v.model)
        used = {}

        def val2(nm):
            used[nm] = val(nm)
            return used[nm]
        try:
            cw = mkworld(False, val2)
            ok = goal_fn(cw)
            if pre_fn and not all(bool(p) for p in pre_fn(cw)):
                ok = True
            if not all(bool(s) for s in cw.side):
                ok = True
        except Exception as ex:  # noqa: BLE001
            return undecided(f"{what}: counter-model could not be evaluated concretely: {type(ex).__name__}: {ex}", sample=sample)
        point = {k: str(x) for k, x in sorted(used.items())}
        if ok is False or (not isinstance(ok, bool) and not bool(ok)):
            return violated(f"{what}: predicate false at {point}", replay={"what": what, "point": point, "info": info},
                            reproduced=True, backend=v.backend, sample=sample, seconds=time.time() - t0)
        return undecided(f"{what}: solver model did not reproduce concretely", sample=sample)
    return undecided(f"{what}: {v.backend} unknown {v.detail}", sample=sample, seconds=time.time() - t0)


# ----------------------------------------------------------------------------- typed conditions (radicals / signs)
def nonneg_syntactic(t):
    """Sound syntactic proof of t >= 0 for a z3 real term built from sqrt/abs atoms, squares, non-negative numerals,
    products, quotients and sums of such."""
    import z3
    from ufv.alg import find_atoms
    if not N.is_z3(t):
        return t >= 0
    t = z3.simplify(t)
    if z3.is_rational_value(t):
        return t.numerator_as_long() >= 0
    if not z3.is_app(t):
        return False
    k = t.decl().kind()
    if k == z3.Z3_OP_UNINTERPRETED and t.num_args() == 1 and t.decl().name() == "sqrt":
        return True
    if k == z3.Z3_OP_ITE:
        a, b = t.arg(1), t.arg(2)
        z = z3.simplify(a + b, som=True)
        if z3.is_rational_value(z) and z.numerator_as_long() == 0:
            return True        # |x|
        return nonneg_syntactic(a) and nonneg_syntactic(b)
    args = [t.arg(i) for i in range(t.num_args())]
    if k in (z3.Z3_OP_ADD,):
        return all(nonneg_syntactic(a) for a in args)
    if k == z3.Z3_OP_MUL:
        # pair up identical factors (squares)
        rest = []
        for a in args:
            for j, r in enumerate(rest):
                if r.eq(a):
                    rest.pop(j)
                    break
            else:
                rest.append(a)
        return all(nonneg_syntactic(a) for a in rest)
    if k == z3.Z3_OP_DIV:
        return nonneg_syntactic(args[0]) and nonneg_syntactic(args[1])
    if k == z3.Z3_OP_POWER:
        e = z3.simplify(args[1])
        if z3.is_rational_value(e) and e.denominator_as_long() == 1 and e.numerator_as_long() % 2 == 0:
            return True
        return nonneg_syntactic(args[0])
    return False


def check_conds(mkworld, conds_fn, what="", timeout_ms=10000, pre_fn=None, samples=4, sample_ok=None, extra_rel_fn=None,
                ncomponents=1):
    """conds_fn(world) -> list of typed conditions over spec-algebra values:
         ('eq', lhs, rhs)            identity (radicals allowed)
         ('ge0', v)                  v >= 0
         ('sign', v, s, why)         sign(v) == s (+1/-1), decided by evaluation at sample points of every connected component
                                     of the admissible configuration space; `why` states why the sign is locally constant.
    Each is decided for all symbol values; returns a core.Result."""
    import random
    import z3
    from ufv.alg import is_identically_zero
    from ufv.smt import check_formula, _is_zero_term, ratnorm
    t0 = time.time()
    w = mkworld(True, None)
    try:
        conds = conds_fn(w)
    except Unsupported as ex:
        return undecided(f"{what}: spec cannot express this case: {ex}")
    pre = list(pre_fn(w)) if pre_fn else []
    rels = extra_rel_fn(w) if extra_rel_fn else ()
    backends = set()
    sample = None
    for ci, cnd in enumerate(conds):
        kind = cnd[0]
        if kind == "eq":
            r0 = _cond_violation(mkworld, conds_fn, ci, what, pre_fn, None, t0, tries=3)
            if r0 is not None and r0.status == "violated":
                return r0
            diffs = [t for t in N.flatten(N.sub(cnd[1], cnd[2]))]
            for t in diffs:
                if not N.is_z3(t):
                    if t != 0:
                        return _cond_violation(mkworld, conds_fn, ci, what, pre_fn, None, t0)
                    continue
                if _is_zero_term(t):
                    backends.add("z3-simplify")
                    continue
                n_, d_ = ratnorm(t)
                if d_ is not None and _is_zero_term(n_):
                    backends.add("z3-simplify(cleared-denominators)")
                    continue
                z, info, natoms = is_identically_zero(t, rels)
                if z:
                    backends.add(f"poly-normaliser({natoms} algebraic atoms)")
                    continue
                # numeric search for a counterexample before any solver work
                r = _cond_violation(mkworld, conds_fn, ci, what, pre_fn, None, t0, tries=6)
                if r is not None and r.status == "violated":
                    return r
                v = check_formula(list(w.axioms) + list(w.side) + pre, t == 0, timeout_ms)
                if v.status == "proved":
                    backends.add(v.backend)
                    continue
                if v.status == "refuted":
                    return _cond_violation(mkworld, conds_fn, ci, what, pre_fn, v.model, t0)
                return undecided(f"{what}: condition #{ci} (eq) undecided: normaliser={info}, z3={v.detail}", seconds=time.time() - t0)
            if sample is None:
                sample = f"{what}: eq {_short(cnd[1], 120)} == {_short(cnd[2], 120)}"
        elif kind == "ge0":
            t = N.base_value(cnd[1])
            if nonneg_syntactic(t):
                backends.add("sign-analysis")
                continue
            v = check_formula(list(w.axioms) + list(w.side) + pre, t >= 0, timeout_ms)
            if v.status == "proved":
                backends.add(v.backend)
                continue
            if v.status == "refuted":
                return _cond_violation(mkworld, conds_fn, ci, what, pre_fn, v.model, t0)
            r = _cond_violation(mkworld, conds_fn, ci, what, pre_fn, None, t0, tries=12)
            if r is not None and r.status == "violated":
                return r
            return undecided(f"{what}: condition #{ci} (>= 0) undecided", seconds=time.time() - t0)
        elif kind == "sign":
            rnd = random.Random(12345 + ci)
            seen = {}
            tries = 0
            while tries < 400 and (len(seen) < ncomponents or min(seen.values()) < samples):
                tries += 1
                vals = {}

                def val(nm, rnd=rnd, vals=vals):
                    if nm not in vals:
                        vals[nm] = Fraction(rnd.randint(-9, 9), rnd.randint(1, 4))
                        if nm.startswith("co["):
                            vals[nm] = Fraction(rnd.choice([-1, 1]))
                    return vals[nm]
                cw = mkworld(False, val)
                try:
                    cc = conds_fn(cw)
                    if pre_fn and not all(bool(p) for p in pre_fn(cw)):
                        continue
                    if not all(bool(x) for x in cw.side):
                        continue
                    comp = sample_ok(cw) if sample_ok else 0
                    sv = float(N.base_value(cc[ci][1]))
                except (ZeroDivisionError, ValueError, OverflowError):
                    continue
                seen[comp] = seen.get(comp, 0) + 1
                if (sv > 0) != (cnd[2] > 0) or sv == 0:
                    return violated(f"{what}: condition #{ci}: sign of the quantity is {'+' if sv > 0 else '-'} but must be "
                                    f"{'+' if cnd[2] > 0 else '-'} at {dict((k, str(v)) for k, v in vals.items())}",
                                    replay={"what": what, "point": {k: str(v) for k, v in vals.items()}, "value": sv},
                                    reproduced=True, backend="sample-point", seconds=time.time() - t0)
            if len(seen) < ncomponents:
                return undecided(f"{what}: sample points found only in components {sorted(seen)} of {ncomponents}")
            backends.add(f"sign-at-sample-points(components={sorted(seen)})")
        else:
            raise ValueError(kind)
    return proved("+".join(sorted(backends)), vcs=len(conds), seconds=time.time() - t0, sample=sample or what)


def _cond_violation(mkworld, conds_fn, ci, what, pre_fn, model, t0, tries=1):
    """Try to exhibit a concrete point where condition ci fails (from a solver model or random rational points)."""
    import random
    rnd = random.Random(777)
    for k in range(tries):
        base = valuation_from_model(model) if (model and k == 0) else None
        vals = {}

        def val(nm):
            if nm not in vals:
                vals[nm] = base(nm) if base else Fraction(rnd.randint(-7, 7), rnd.randint(1, 3))
                if nm.startswith("co[") and not base:
                    vals[nm] = Fraction(rnd.choice([-1, 1]))
            return vals[nm]
        try:
            cw = mkworld(False, val)
            cc = conds_fn(cw)
            if pre_fn and not all(bool(p) for p in pre_fn(cw)):
                continue
            if not all(bool(x) for x in cw.side):
                continue
            cnd = cc[ci]
            if cnd[0] == "eq":
                d = concrete_diff(cnd[1], cnd[2])
                scale = max(1.0, max(abs(float(t)) for t in N.flatten(cnd[2])))
                bad = d > 1e-8 * scale
                desc = f"lhs={_cstr(cnd[1])} rhs={_cstr(cnd[2])}"
            else:
                v = float(N.base_value(cnd[1]))
                bad = v < -1e-12
                desc = f"value={v}"
            if bad:
                return violated(f"{what}: condition #{ci} ({cnd[0]}) fails: {desc} at {dict((k, str(v)) for k, v in vals.items())}",
                                replay={"what": what, "condition": ci, "point": {k: str(v) for k, v in vals.items()}, "values": desc},
                                reproduced=True, backend="z3+replay" if model else "numeric-search", seconds=time.time() - t0)
        except (ZeroDivisionError, ValueError, OverflowError, Unsupported):
            continue
    if model:
        return undecided(f"{what}: condition #{ci}: solver model did not reproduce concretely")
    return None
