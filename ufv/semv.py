"""E2: semantic VCs.  Compare the denotation of a term produced by a *real* function of /repo
(run on opaque operands) with a spec value, for all values of all symbols."""
from __future__ import annotations

import hashlib
import time
from fractions import Fraction

from ufv import num as N
from ufv.core import proved, undecided, violated
from ufv.den import World, components, den, envs
from ufv.num import Unsupported
from ufv.smt import parse_num, prove_equal


def default_value(name):
    h = int(hashlib.sha256(name.encode()).hexdigest()[:8], 16)
    return Fraction((h % 17) + 2, (h // 17) % 7 + 1) * (1 if (h >> 20) % 2 else -1)


def valuation_from_model(model):
    m = {k: parse_num(v) for k, v in (model or {}).items() if v not in ("True", "False")}

    def val(nm):
        if nm in m:
            return m[nm]
        return default_value(nm)
    return val


def to_float(x):
    if isinstance(x, N.Cx):
        return complex(to_float(x.re), to_float(x.im))
    if isinstance(x, N.Dual):
        raise TypeError
    return float(x)


def concrete_diff(got, spec):
    """max abs difference over all dual / complex parts, in floats."""
    ds = N.flatten(N.sub(got, spec))
    return max(abs(float(t)) for t in ds) if ds else 0.0


def check_same(mkworld, r, spec_fn, shape, fi=(), fid=(), timeout_ms=10000, pre_fn=None, what="",
               structural=True, comps=None):
    """Prove: shape/free indices of r are (shape, fi, fid) and for every component and index
    assignment den(r) == spec_fn(world, comp, env), for all symbol values.

    mkworld(symbolic, valuation) -> World.  Returns a core.Result.
    """
    t0 = time.time()
    fi, fid = tuple(fi), tuple(fid)
    if structural:
        if tuple(r.ufl_shape) != tuple(shape):
            return violated(f"{what}: result shape {r.ufl_shape} != required {tuple(shape)}; result={r!r:.300}",
                            replay={"kind": "shape", "got": str(r.ufl_shape), "want": str(tuple(shape)), "result": repr(r)[:2000]},
                            reproduced=True, backend="structural")
        if (tuple(r.ufl_free_indices), tuple(r.ufl_index_dimensions)) != (fi, fid):
            return violated(f"{what}: result free indices {r.ufl_free_indices}{r.ufl_index_dimensions} != required {fi}{fid}",
                            replay={"kind": "free-indices", "got": str((r.ufl_free_indices, r.ufl_index_dimensions)),
                                    "want": str((fi, fid)), "result": repr(r)[:2000]},
                            reproduced=True, backend="structural")
    backends = set()
    n = 0
    sample = None
    unknowns = []
    for c in (comps if comps is not None else components(shape)):
        for env in envs(fi, fid):
            w = mkworld(True, None)
            try:
                got = den(w, r, c, env)
                spec = spec_fn(w, c, env)
            except Unsupported as ex:
                return undecided(f"{what}: spec cannot express this case: {ex}")
            pre = pre_fn(w) if pre_fn else ()
            v = prove_equal(w, got, spec, timeout_ms, pre)
            n += 1
            if sample is None:
                sample = f"{what} comp={c} env={env}: den(result)={_short(got)}  ==  spec={_short(spec)}  [{v.status}/{v.backend}]"
            if v.status == "proved":
                backends.add(v.backend)
                continue
            if v.status == "refuted":
                rep = replay_point(mkworld, r, spec_fn, c, env, v.model)
                rep.update({"component": list(c), "index_values": {str(k): v_ for k, v_ in env.items()},
                            "result_term": repr(r)[:3000], "what": what})
                if rep["reproduced"]:
                    return violated(f"{what}: value differs at comp={c} env={env}: real code's result evaluates to "
                                    f"{rep['got']} but the spec value is {rep['spec']} at {rep['point']}",
                                    replay=rep, reproduced=True, backend=v.backend, sample=sample, seconds=time.time() - t0)
                unknowns.append(f"comp={c} env={env}: solver model did not reproduce numerically ({rep.get('note','')})")
                continue
            unknowns.append(f"comp={c} env={env}: {v.backend} unknown {v.detail}")
    if unknowns:
        return undecided(f"{what}: {len(unknowns)}/{n} VCs undecided: " + "; ".join(unknowns[:3]), sample=sample,
                         seconds=time.time() - t0)
    return proved("+".join(sorted(backends)) or "z3-simplify", vcs=n, seconds=time.time() - t0, sample=sample)


def replay_point(mkworld, r, spec_fn, c, env, model):
    """Evaluate both sides exactly/numerically at the solver's model point with an independent
    concrete world (Fractions + math module)."""
    val = valuation_from_model(model)
    used = {}

    def val2(nm):
        used[nm] = val(nm)
        return used[nm]
    try:
        w = mkworld(False, val2)
        got = den(w, r, c, env)
        spec = spec_fn(w, c, env)
        diff = concrete_diff(got, spec)
        scale = max(1.0, max(abs(float(t)) for t in N.flatten(spec)))
        ok = diff > 1e-9 * scale
        return {"reproduced": bool(ok), "got": _cstr(got), "spec": _cstr(spec),
                "point": {k: str(v) for k, v in sorted(used.items())}}
    except (Unsupported, ZeroDivisionError, ValueError, OverflowError, TypeError) as ex:
        return {"reproduced": False, "note": f"concrete evaluation failed: {type(ex).__name__}: {ex}",
                "point": {k: str(v) for k, v in sorted(used.items())}}


def _cstr(v):
    return "[" + ", ".join(str(t) for t in N.flatten(v)) + "]"


def _short(v, n=300):
    s = str(v)
    return s if len(s) <= n else s[:n] + "…"


def real_world(**kw):
    def mk(symbolic, valuation):
        w = World(symbolic=symbolic, complex_mode=False, valuation=valuation)
        for k, v in kw.items():
            setattr(w, k, v)
        return w
    return mk


def complex_world(**kw):
    def mk(symbolic, valuation):
        w = World(symbolic=symbolic, complex_mode=True, valuation=valuation)
        for k, v in kw.items():
            setattr(w, k, v)
        return w
    return mk


def check_pred(mkworld, goal_fn, what="", timeout_ms=10000, pre_fn=None, info=None):
    """Prove a predicate goal_fn(world) (z3 Bool in symbolic worlds, bool in concrete worlds)
    for all symbol values, under the world's axioms and side conditions."""
    from ufv.smt import check_formula
    t0 = time.time()
    w = mkworld(True, None)
    try:
        goal = goal_fn(w)
    except Unsupported as ex:
        return undecided(f"{what}: spec cannot express this case: {ex}")
    if isinstance(goal, bool):
        if goal:
            return proved("constant-true", seconds=time.time() - t0, sample=f"{what}: True")
        return violated(f"{what}: predicate is constantly False", replay={"what": what, "info": info}, reproduced=True,
                        backend="structural")
    pre = list(pre_fn(w)) if pre_fn else []
    v = check_formula(list(w.axioms) + list(w.side) + pre, goal, timeout_ms)
    sample = f"{what}: {_short(goal)} [{v.status}/{v.backend}]"
    if v.status == "proved":
        return proved(v.backend, seconds=time.time() - t0, sample=sample)
    if v.status == "refuted":
        val = valuation_from_model(v.model)
        used = {}

        def val2(nm):
            used[nm] = val(nm)
            return used[nm]
        try:
            cw = mkworld(False, val2)
            ok = goal_fn(cw)
            if pre_fn and not all(bool(p) for p in pre_fn(cw)):
                ok = True
            if not all(bool(s) for s in cw.side):
                ok = True
        except Exception as ex:  # noqa: BLE001
            return undecided(f"{what}: counter-model could not be evaluated concretely: {type(ex).__name__}: {ex}", sample=sample)
        point = {k: str(x) for k, x in sorted(used.items())}
        if ok is False or (not isinstance(ok, bool) and not bool(ok)):
            return violated(f"{what}: predicate false at {point}", replay={"what": what, "point": point, "info": info},
                            reproduced=True, backend=v.backend, sample=sample, seconds=time.time() - t0)
        return undecided(f"{what}: solver model did not reproduce concretely", sample=sample)
    return undecided(f"{what}: {v.backend} unknown {v.detail}", sample=sample, seconds=time.time() - t0)
