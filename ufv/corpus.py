"""A corpus of index-notation expressions over real form terminals, written to exercise scoping:
the same Index object reused in sibling and nested scopes, component tensors indexed by indices that are
bound inside them, variables used under different components, zero tensors with free indices.
Each entry: (name, expression).  Closed scalar entries first, open (free-index / tensor) entries in OPEN.
"""
from __future__ import annotations

import ufl
import ufl.classes as C
from ufl import as_matrix, as_tensor, as_vector, conditional, grad, gt, lt, sqrt, variable
from ufl.core.multiindex import FixedIndex, Index, MultiIndex

from ufv import elements as E
from ufv.opq import mesh


def terminals(cellname="triangle"):
    msh = mesh(cellname)
    cell = msh.ufl_cell()
    g = msh.geometric_dimension
    S = ufl.FunctionSpace(msh, E.LagrangeElement(cell, 2))
    V = ufl.FunctionSpace(msh, E.LagrangeElement(cell, 2, (g,)))
    T = ufl.FunctionSpace(msh, E.LagrangeElement(cell, 2, (g, g)))
    return dict(f=ufl.Coefficient(S), g=ufl.Coefficient(S), u=ufl.Coefficient(V), v=ufl.Coefficient(V), A=ufl.Coefficient(T),
                B=ufl.Coefficient(T), msh=msh, S=S, V=V, T=T)


def closed(t=None):
    t = t or terminals()
    f, g, u, v, A, B = t["f"], t["g"], t["u"], t["v"], t["A"], t["B"]
    i, j, k, l = Index(), Index(), Index(), Index()  # noqa: E741
    out = []

    def add(name, e):
        out.append((name, e))
    add("u_i v_i", u[i] * v[i])
    add("A_ij B_ji", A[i, j] * B[j, i])
    add("A_ij u_j v_i", A[i, j] * u[j] * v[i])
    add("(A_ij u_j as (i))_k v_k", as_tensor(A[i, j] * u[j], (i,))[k] * v[k])
    add("transpose-as-ct [0,1]", as_tensor(A[i, j], (j, i))[0, 1])
    add("(A*B)[0,1]", (A * B)[0, 1])
    add("sibling sums reuse i", u[i] * v[i] + A[i, i])
    add("product of two sums over the same i", (u[i] * v[i]) * (u[i] * u[i]))
    add("ct indexed by an index bound inside (j)", as_tensor(u[i] * (v[j] * v[j]), (i,))[j] * u[j])
    add("ct(sum_k A_ik u_k,(i))[k] v_k (capture)", C.Indexed(C.ComponentTensor((A[i, k] * u[k]), MultiIndex((i,))),
                                                                    MultiIndex((k,))) * v[k])
    add("ct(sum_k A_ik u_k,(i))[1]", C.Indexed(C.ComponentTensor((A[i, k] * u[k]), MultiIndex((i,))),
                                                MultiIndex((FixedIndex(1),))))
    add("ct index also bound in a nested scope, fixed", C.Indexed(C.ComponentTensor(C.Product(u[i], (v[i] * v[i])), MultiIndex((i,))),
                                                                  MultiIndex((FixedIndex(0),))))
    add("ct index also bound in a nested scope, free", C.Indexed(C.ComponentTensor(C.Product(u[i], (v[i] * v[i])),
                                                                                              MultiIndex((i,))), MultiIndex((j,))) * u[j])
    add("nested ct", as_tensor(as_tensor(A[i, j] * u[j], (i,))[k] * v[l], (k, l))[0, 1])
    add("ct perm contracted", as_tensor(A[i, j], (j, i))[k, l] * B[k, l])
    add("zero with free indices in conditional", conditional(lt(f, g), A[i, j], C.Zero((), tuple(sorted((i.count(), j.count()))), (2, 2))) * B[i, j])
    w = variable(u)
    add("variable w_0 w_1", w[0] * w[1])
    add("variable w_i w_i", w[i] * w[i])
    add("variable w_i v_i + w_1", w[i] * v[i] + w[1])
    W = variable(A)
    add("variable W_ij A_ij", W[i, j] * A[i, j])
    add("variable W_01 W_10", W[0, 1] * W[1, 0])
    ws = variable(f * g)
    add("scalar variable reused", ws * ws + ws)
    wn = variable(variable(f) * u)
    add("nested variable component", wn[0] + wn[1] * f)
    add("variable under ct", as_tensor(w[i] * f, (i,))[1] * w[0])
    add("conditional of sums", conditional(lt(f, g), u[i] * v[i], f))
    # tensor-valued conditionals (the condition is scalar, the branches are not), indexed: literals, zeros and divisions in the condition
    add("vector conditional with a literal in the condition", conditional(lt(u[0], 0.5), u, v)[i] * v[i])
    add("matrix conditional with a division in the condition", conditional(lt(f / 2, A[0, 1]), A, B)[i, j] * B[j, i])
    add("vector conditional with a zero in the condition", conditional(gt(f * g, C.Zero()), u, 2 * v)[i] * u[i])
    add("nested tensor conditionals", conditional(lt(f, 1), conditional(gt(g, 0.25), A, B), 2 * B)[i, j] * A[i, j])
    add("list tensor vec", as_vector([f, g])[i] * u[i])
    add("list tensor mat", as_matrix([[f, g], [g, f * g]])[i, j] * A[i, j])
    add("list of rows indexed", as_tensor([A[0, :], A[1, :]])[i, j] * B[i, j])
    # nested list tensors that are NOT symmetric under any permutation of their axes, reached through free / summed indices in every slot
    Lm = as_matrix([[f, g], [f * f, 1 + g]])
    add("nonsymmetric list matrix [i,j]", Lm[i, j] * A[i, j])
    add("nonsymmetric list matrix [i,0]", Lm[i, 0] * u[i])
    add("nonsymmetric list matrix [1,i]", Lm[1, i] * u[i])
    add("nonsymmetric list matrix in a ct", as_tensor(Lm[i, j] * u[j], (i,))[k] * A[k, 0])
    L23 = as_tensor([[f, g, f * g], [g * g, 2 + f, f - g]])
    add("2x3 list tensor against a 2x3 list tensor", L23[i, j] * as_tensor([[u[0], u[1], v[0]], [v[1], f, g]])[i, j])
    add("2x3 list tensor, column picked", L23[i, 2] * u[i])
    L222 = as_tensor([[[f, g], [g * g, f * f]], [[f * g, 1 + f], [2 * g, f + g]]])
    add("rank-3 list tensor [i,j,k]", L222[i, j, k] * A[i, j] * u[k])
    add("rank-3 list tensor [k,0,i]", L222[k, 0, i] * A[k, i])
    add("grad f . u", grad(f)[i] * u[i])
    add("grad u : A", grad(u)[i, j] * A[i, j])
    add("div via dx", u[i].dx(i))
    add("hessian comp", grad(grad(f))[i, j] * A[j, i])
    add("power/division", (u[i] * u[i]) ** 2 / (1 + f * f))
    add("sqrt", sqrt(u[i] * u[i] + 1) * g)
    add("A_ii (trace) times sum", A[i, i] * (B[j, j] + f))
    add("triple", A[i, j] * B[j, k] * A[k, i])
    add("fixed and free", A[0, i] * u[i] + A[i, 1] * v[i])
    add("identity", C.Identity(2)[i, j] * A[i, j])
    # one component tensor indexed several times with different multi-indices in the same expression (caches keyed per substitution)
    ctv = as_tensor(u[i] * f + v[i], (i,))
    ctm = as_tensor(u[i] * v[j] + A[j, i], (i, j))
    add("same ct indexed twice, free indices", ctv[j] * A[j, k] * ctv[k])
    add("same ct indexed twice, fixed indices", ctv[0] * ctv[1])
    add("same ct matrix [0,1] - [1,0]", ctm[0, 1] - ctm[1, 0])
    add("same ct matrix [i,j] [j,i]", ctm[k, l] * ctm[l, k])
    add("same ct fixed and free", ctv[0] * ctv[k] * u[k])
    # a closed inner sum over an index that an enclosing scope binds too, with the enclosing index read AFTER the inner sum was
    # visited (operand order), and before it: a binder must restore the enclosing binding after every pass of its loop
    n_ = v[i] * v[i]
    MI = MultiIndex
    add("shadow: sum_i n*u_i, n = sum_i v_i v_i", C.IndexSum(C.Product(n_, u[i]), MI((i,))))
    add("shadow: sum_i sqrt(1+n)*u_i", C.IndexSum(C.Product(sqrt(1 + n_), u[i]), MI((i,))))
    add("shadow: sum_i u_i/(1+n) (outer read first)", C.IndexSum(C.Division(u[i], 1 + n_), MI((i,))))
    add("shadow: sum_i (u_i/(1+n))*(u_i/(1+n))", (u[i] / (1 + n_)) * (u[i] / (1 + n_)))
    add("shadow: sum_i cond(n<f, u_i, v_i)", C.IndexSum(conditional(lt(n_, f), u[i], v[i]), MI((i,))))
    add("shadow: ct(cond(n<f, u_i, v_i),(i))[k] v_k", C.Indexed(C.ComponentTensor(conditional(lt(n_, f), u[i], v[i]), MI((i,))), MI((k,))) * v[k])
    add("shadow: ct(cond(n<f, u_i, v_i),(i))[1]", C.Indexed(C.ComponentTensor(conditional(lt(n_, f), u[i], v[i]), MI((i,))), MI((FixedIndex(1),))))
    add("shadow: ct(n*u_i,(i))[0]", C.Indexed(C.ComponentTensor(C.Product(n_, u[i]), MI((i,))), MI((FixedIndex(0),))))
    add("shadow: sum_ij (A_ij/(1+tr))*(A_ij/(1+tr)), tr = A_ii", (A[i, j] / (1 + A[i, i])) * (A[i, j] / (1 + A[i, i])))
    # an indexed tensor (component / list tensor that survives construction) that carries a free index of its own, bound by an enclosing sum:
    # its expanded components depend on the value of that outer index
    add("ct with an outer free index: as_vector(|A_ij|, j)[k] v_k u_i", as_tensor(abs(A[i, j]), (j,))[k] * v[k] * u[i])
    add("list tensor with an outer free index: [A_i0 f, A_i1 g][k] v_k u_i", C.Indexed(C.ListTensor(A[i, 0] * f, A[i, 1] * g), MultiIndex((k,))) * v[k] * u[i])
    add("ct with an outer free index, fixed component: as_vector(|A_ij|, j)[1] u_i", as_tensor(abs(A[i, j]), (j,))[1] * u[i])
    add("row of a matrix scaled by u_i, dotted with v: (u_i A_i:) . v", ufl.dot(as_tensor(u[i] * A[i, j], (j,)), v))
    # two different component tensors whose bodies share a sub-expression that binds an index, both indexed by that bound index
    # (whatever an algorithm remembers about the first body must not be assumed of the second)
    S_i = A[i, k] * u[k]                       # sum over k, free i
    ctf, ctg = C.ComponentTensor(f * S_i, MultiIndex((i,))), C.ComponentTensor(g * S_i, MultiIndex((i,)))
    add("two cts sharing a body that binds k, both indexed by k", C.Indexed(ctf, MultiIndex((k,))) * v[k] + C.Indexed(ctg, MultiIndex((k,))) * v[k])
    add("two cts sharing a body that binds k, fixed and k", C.Indexed(ctf, MultiIndex((FixedIndex(1),))) + C.Indexed(ctg, MultiIndex((k,))) * v[k])
    add("same shared body under a ct and bare", C.Indexed(ctf, MultiIndex((k,))) * v[k] + S_i * v[i])
    # a Zero that carries the component tensor's own index (0*u_i in one branch), the tensor indexed by a fixed / free / summed index
    zct = as_tensor(conditional(lt(f, g), 0 * u[i], u[i]), (i,))
    add("zero_i inside a ct, fixed index", zct[0])
    add("zero_i inside a ct, free index contracted", zct[k] * v[k])
    zct2 = as_tensor(conditional(lt(f, g), 0 * A[i, j], A[i, j]), (i, j))
    add("zero_ij inside a ct, [0,1]", zct2[0, 1])
    add("zero_ij inside a ct, [k,0] v_k", zct2[k, 0] * v[k])
    return [x for x in out if x is not None and x[1] is not None]


def open_(t=None):
    t = t or terminals()
    f, u, v, A, B = t["f"], t["u"], t["v"], t["A"], t["B"]
    i, j, k, l = Index(), Index(), Index(), Index()  # noqa: E741
    out = []
    out.append(("A_ij u_j (free i)", A[i, j] * u[j]))
    out.append(("ct perm [k,l]", as_tensor(A[i, j], (j, i))[k, l]))
    out.append(("tensor ct", as_tensor(A[i, j] * u[j], (i,))))
    out.append(("tensor ct perm", as_tensor(A[i, j] * f, (j, i))))
    out.append(("ct[k] free k with inner bound k", C.Indexed(C.ComponentTensor((A[i, k] * u[k]), MultiIndex((i,))),
                                                         MultiIndex((k,)))))
    out.append(("outer-like", as_tensor(u[i] * v[j], (i, j))))
    out.append(("zero_ij + A_ij", C.Sum(C.Zero((), tuple(sorted((i.count(), j.count()))), (2, 2)), A[i, j])))
    return out
