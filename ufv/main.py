"""Entry point: python -m ufv.main <ID> [--tier quick|thorough] [--only REGEX] [--replay FILE]"""
from __future__ import annotations

import argparse
import importlib
import json
import os
import sys
import traceback
import warnings

warnings.simplefilter("ignore")


def main():
    ap = argparse.ArgumentParser()
    ap.add_argument("pid")
    ap.add_argument("--tier", default=os.environ.get("VERIF_TIER", "quick"), choices=["quick", "thorough"])
    ap.add_argument("--only", default=None, help="regex on obligation names")
    ap.add_argument("--replay", default=None, help="replay file written by an earlier violation")
    ap.add_argument("--jobs", type=int, default=None)
    a = ap.parse_args()
    seed = int(os.environ.get("VERIF_SEED", "0") or 0)
    # checker-side UFL types must exist before any algorithm class is instantiated
    import ufv.opq  # noqa: F401
    from ufv.core import Run
    pid = a.pid.upper()
    try:
        mod = importlib.import_module(f"ufv.props.{pid.lower()}")
        run = Run(pid, a.tier, seed, getattr(mod, "LEVEL", "other"))
        run.trusted = list(getattr(mod, "TRUSTED", []))
        run.assumptions = list(getattr(mod, "ASSUMPTIONS", []))
        run.explanation = getattr(mod, "EXPLANATION", "")
        if a.replay:
            rep = json.load(open(a.replay))
            run.only = "^" + __import__("re").escape(rep["obligation"]) + "$"
            os.environ["VERIF_VERBOSE"] = "1"
            print(f"replaying obligation {rep['obligation']} against /repo's working tree")
        elif a.only:
            run.only = a.only
        mod.build(run)
        rc = run.execute(a.jobs)
    except Exception:
        traceback.print_exc()
        print(f"CHECKER-ERROR: property={pid} checker crashed")
        rc = 3
    sys.exit(rc)


if __name__ == "__main__":
    main()
