"""C08 — function pullbacks implement each element's declared push-forward.

Functions under contract: FunctionPullbackApplier.form_argument, every AbstractPullback.apply and
physical_value_shape, BaseFunctionSpace.value_shape.
Contract: for a form argument f with reference value r = ReferenceValue(f),
    den(form_argument(f))[c] == pushforward_kind(den r, J, K, detJ)[c]   and shape == space.value_shape,
with the textbook push-forwards (identity; covariant Piola K^T r; contravariant Piola J r / detJ; L2 Piola r / detJ;
double covariant K^T R K; double contravariant J R J^T / detJ^2; covariant-contravariant K^T R J^T / detJ;
mixed: block-wise by physical offsets; symmetric: expansion through the symmetry map), for ALL values of
r, J, K, detJ (J, K, detJ are independent symbols here: the VC checks the index wiring and scalings).
"""
from __future__ import annotations

import itertools

import ufl
import ufl.classes as C
import ufl.pullback as PB
from ufl.algorithms.apply_function_pullbacks import FunctionPullbackApplier
from ufl.functionspace import BaseFunctionSpace
from ufl.sobolevspace import H1, HCurl, HDiv, L2, HEin, HDivDiv

from ufv import elements as E
from ufv import num as N
from ufv.core import proved, undecided, violated
from ufv.den import World, components, den
from ufv.opq import mesh
from ufv.semv import check_same

LEVEL = "proof"
TECHNIQUE = ("contract VCs: the real pullback code is run on ReferenceValue(f) for every pullback kind x cell/gdim; den(result) == "
             "textbook push-forward of the reference value, discharged for all values of r, J, K, detJ by the polynomial normaliser / z3")
LEVEL_TEXT = ("The six Piola kinds and the identity are a finite set, crossed with the finite set of (cell, gdim) cases incl. immersed "
              "manifolds: each proved for all values (complete for that domain). Mixed and symmetric compositions are enumerated to "
              "nesting depth 2 with up to 3 sub-elements (all values).")
LEVEL_NOTE = ("Trusted: textbook push-forward formulas in ufv/props/c08.py, ufv/den.py, z3. J, K, detJ are treated as independent "
              "symbols (their relation to the cell is C07's business). Compositions beyond depth 2 / 3 sub-elements not enumerated.")
TRUSTED = ["push-forward formulas (spec) in ufv/props/c08.py", "ufv/den.py", "z3", "checker-side element classes ufv/elements.py"]
ASSUMPTIONS = ["cells: interval 1D/2D, triangle 2D/3D, tetrahedron 3D", "mixed/symmetric compositions enumerated (depth <= 2, <= 3 sub-elements)",
               "J, K, detJ independent symbols in these VCs"]
EXPLANATION = ("The real FunctionPullbackApplier.form_argument / pullback.apply code is executed on real form arguments; the resulting "
               "index-notation expression is compared with the textbook push-forward for all values; shapes against value_shape.")


def hook(w, e, comp, env):
    if isinstance(e, C.Jacobian):
        return w.symbol("J", comp, real=True)
    if isinstance(e, C.JacobianInverse):
        return w.symbol("K", comp, real=True)
    if isinstance(e, C.JacobianDeterminant):
        d = w.symbol("detJ", real=True)
        return d
    if isinstance(e, C.ReferenceValue):
        f = e.ufl_operands[0]
        return w.symbol(f"rv{f.count()}" if hasattr(f, "count") else f"rvarg{f.number()}", comp)
    return NotImplemented


def mkworld(symbolic, valuation):
    w = World(symbolic=symbolic, complex_mode=False, valuation=valuation)
    w.terminal_hook = hook
    return w


def J(w, i, j):
    return w.symbol("J", (i, j), real=True)


def K(w, i, j):
    return w.symbol("K", (i, j), real=True)


def detJ(w):
    d = w.symbol("detJ", real=True)
    w.require(N.cmp("!=", d, 0))
    return d


def push(kind, w, R, rshape, g, t, c):
    """Physical component c of the push-forward of reference value R(comp) of shape rshape."""
    lead = len(rshape) - {"identity": 0, "l2": 0, "cov": 1, "contra": 1, "dcov": 2, "dcontra": 2, "covcontra": 2}[kind]
    k, rest = c[:lead], c[lead:]
    if kind == "identity":
        return R(c)
    if kind == "l2":
        return N.div(R(c), detJ(w))
    if kind == "contra":
        (i,) = rest
        tot = 0
        for j in range(t):
            tot = N.add(tot, N.mul(J(w, i, j), R(k + (j,))))
        return N.div(tot, detJ(w))
    if kind == "cov":
        (i,) = rest
        tot = 0
        for j in range(t):
            tot = N.add(tot, N.mul(K(w, j, i), R(k + (j,))))
        return tot
    i, j = rest
    tot = 0
    for m in range(t):
        for n in range(t):
            r = R(k + (m, n))
            if kind == "dcontra":
                tot = N.add(tot, N.mul(N.mul(J(w, i, m), r), J(w, j, n)))
            elif kind == "dcov":
                tot = N.add(tot, N.mul(N.mul(K(w, m, i), r), K(w, n, j)))
            else:
                tot = N.add(tot, N.mul(N.mul(K(w, m, i), r), J(w, j, n)))
    if kind == "dcontra":
        d = detJ(w)
        return N.div(tot, N.mul(d, d))
    if kind == "covcontra":
        return N.div(tot, detJ(w))
    return tot


KINDS = {
    "identity": (PB.identity_pullback, H1), "l2": (PB.l2_piola, L2), "cov": (PB.covariant_piola, HCurl),
    "contra": (PB.contravariant_piola, HDiv), "dcov": (PB.double_covariant_piola, HEin),
    "dcontra": (PB.double_contravariant_piola, HDivDiv), "covcontra": (PB.covariant_contravariant_piola, L2),
}
CASES = [("interval", 1), ("interval", 2), ("triangle", 2), ("triangle", 3), ("tetrahedron", 3)]


def phys_shape(kind, rshape, g):
    if kind in ("identity", "l2"):
        return rshape
    if kind in ("cov", "contra"):
        return rshape[:-1] + (g,)
    return rshape[:-2] + (g, g)


def unflat(i, shape):
    out = []
    for s in reversed(shape):
        out.append(i % s)
        i //= s
    return tuple(reversed(out))


def size(shape):
    n = 1
    for s in shape:
        n *= s
    return n


def build(run):
    thorough = run.tier == "thorough"
    tmo = 20000
    run.function(FunctionPullbackApplier.form_argument)
    for cls in (PB.IdentityPullback, PB.ContravariantPiola, PB.CovariantPiola, PB.L2Piola, PB.DoubleContravariantPiola,
                PB.DoubleCovariantPiola, PB.CovariantContravariantPiola, PB.MixedPullback, PB.SymmetricPullback):
        run.function(cls.apply)
        run.function(cls.physical_value_shape)
    run.function(BaseFunctionSpace.value_shape.fget, "ufl.functionspace.BaseFunctionSpace.value_shape")

    def elem(kind, cell, t, lead=()):
        pb, sob = KINDS[kind]
        rshape = lead + {"identity": (), "l2": (), "cov": (t,), "contra": (t,), "dcov": (t, t), "dcontra": (t, t), "covcontra": (t, t)}[kind]
        return E.FiniteElement(kind, cell, 1, rshape, pb, sob), rshape

    def apply_real(f):
        return FunctionPullbackApplier().form_argument(f)

    # ---- the six Piola kinds + identity
    for cellname, g in CASES:
        for kind in KINDS:
            for lead in ((), (2,)) if kind in ("cov", "contra", "identity") else ((),):
                tag = f"kind[{kind}]/{cellname}@{g}d" + (f"/lead{lead}" if lead else "")

                def thunk(kind=kind, cellname=cellname, g=g, lead=lead, tag=tag):
                    msh = mesh(cellname, g)
                    cell = msh.ufl_cell()
                    t = cell.topological_dimension
                    el, rshape = elem(kind, cell, t, lead)
                    V = ufl.FunctionSpace(msh, el)
                    f = ufl.Coefficient(V)
                    want_shape = phys_shape(kind, rshape, g)
                    if tuple(V.value_shape) != tuple(want_shape):
                        return violated(f"{tag}: value_shape {V.value_shape} != declared physical shape {want_shape}", reproduced=True,
                                        replay={"element": repr(el)}, backend="structural")
                    try:
                        r = apply_real(f)
                    except Exception as ex:  # noqa: BLE001
                        return violated(f"{tag}: pullback raised {type(ex).__name__}: {ex}", reproduced=True, replay={"element": repr(el)})

                    def spec(w, c, env):
                        R = lambda cc: w.symbol(f"rv{f.count()}", cc)  # noqa: E731
                        return push(kind, w, R, rshape, g, t, c)
                    return check_same(mkworld, r, spec, want_shape, timeout_ms=tmo, what=tag)
                run.add(tag, thunk, kind="proof")

    # ---- mixed compositions
    def mixed_cases():
        base = ["identity", "contra", "cov", "l2", "dcontra"]
        out = []
        for a, b in itertools.product(base, repeat=2):
            out.append((a, b))
        out += [("contra", "identity", "cov"), ("identity", "identity", "identity"), ("dcov", "contra", "l2")]
        if thorough:
            out += [c for c in itertools.product(["identity", "contra", "cov"], repeat=3)]
        return list(dict.fromkeys(out))

    def mixed_spec(kinds, rshapes, g, t, fcount, nested=None):
        """returns (total physical size, spec(w, flat physical component))"""
        offs_r, offs_p = [0], [0]
        for kd, rs in zip(kinds, rshapes):
            offs_r.append(offs_r[-1] + size(rs))
            offs_p.append(offs_p[-1] + size(phys_shape(kd, rs, g)))

        def spec(w, c, env):
            (pc,) = c
            for i, (kd, rs) in enumerate(zip(kinds, rshapes)):
                if offs_p[i] <= pc < offs_p[i + 1]:
                    local = unflat(pc - offs_p[i], phys_shape(kd, rs, g))
                    R = lambda cc, i=i, rs=rs: w.symbol(f"rv{fcount}", (offs_r[i] + sum(x * st for x, st in zip(cc, strides(rs))),))  # noqa: E731
                    return push(kd, w, R, rs, g, t, local)
            raise AssertionError
        return offs_p[-1], spec

    def strides(shape):
        st = []
        acc = 1
        for s in reversed(shape):
            st.append(acc)
            acc *= s
        return tuple(reversed(st))

    for cellname, g in [("triangle", 2), ("triangle", 3), ("interval", 2)] + ([("tetrahedron", 3)] if thorough else []):
        for kinds in mixed_cases():
            tag = f"mixed[{'+'.join(kinds)}]/{cellname}@{g}d"

            def thunk(kinds=kinds, cellname=cellname, g=g, tag=tag):
                msh = mesh(cellname, g)
                cell = msh.ufl_cell()
                t = cell.topological_dimension
                subs, rshapes = zip(*[elem(kd, cell, t) for kd in kinds])
                el = E.MixedElement(list(subs))
                V = ufl.FunctionSpace(msh, el)
                f = ufl.Coefficient(V)
                total, spec = mixed_spec(kinds, rshapes, g, t, f.count())
                if tuple(V.value_shape) != (total,):
                    return violated(f"{tag}: value_shape {V.value_shape} != ({total},)", reproduced=True, replay={"element": repr(el)},
                                    backend="structural")
                try:
                    r = apply_real(f)
                except Exception as ex:  # noqa: BLE001
                    return violated(f"{tag}: pullback raised {type(ex).__name__}: {ex}", reproduced=True, replay={"element": repr(el)})
                return check_same(mkworld, r, spec, (total,), timeout_ms=tmo, what=tag)
            run.add(tag, thunk, kind="values")

    # ---- nested mixed (depth 2) and symmetric
    def nested():
        msh = mesh("triangle", 3)
        cell = msh.ufl_cell()
        t, g = 2, 3
        (a, ra), (b, rb), (c, rc) = elem("contra", cell, t), elem("identity", cell, t), elem("cov", cell, t)
        inner = E.MixedElement([a, b])
        el = E.MixedElement([inner, c])
        V = ufl.FunctionSpace(msh, el)
        f = ufl.Coefficient(V)
        total, spec = mixed_spec(("contra", "identity", "cov"), (ra, rb, rc), g, t, f.count())
        if tuple(V.value_shape) != (total,):
            return violated(f"nested mixed: value_shape {V.value_shape} != ({total},)", reproduced=True, backend="structural")
        r = apply_real(f)
        return check_same(mkworld, r, spec, (total,), timeout_ms=tmo, what="nested mixed [[contra, identity], cov] on a triangle in 3D")
    run.add("mixed-nested[[contra+identity]+cov]/triangle@3d", nested, kind="values")

    def symmetric(cellname, g, subkind):
        tag = f"symmetric[{subkind}]/{cellname}@{g}d"

        def thunk():
            msh = mesh(cellname, g)
            cell = msh.ufl_cell()
            t = cell.topological_dimension
            n = g
            symmetry, idx = {}, 0
            for i in range(n):
                for j in range(i, n):
                    symmetry[(i, j)] = idx
                    symmetry[(j, i)] = idx
                    idx += 1
            subs, rshapes = zip(*[elem(subkind, cell, t) for _ in range(idx)])
            el = E.SymmetricElement(symmetry, list(subs))
            V = ufl.FunctionSpace(msh, el)
            f = ufl.Coefficient(V)
            sub_p = phys_shape(subkind, rshapes[0], g)
            want = (n, n) + sub_p
            if tuple(V.value_shape) != want:
                return violated(f"{tag}: value_shape {V.value_shape} != {want}", reproduced=True, backend="structural")
            r = apply_real(f)
            rs = rshapes[0]
            rsz = size(rs)

            def spec(w, c, env):
                blk, local = c[:2], c[2:]
                s = symmetry[blk]
                R = lambda cc: w.symbol(f"rv{f.count()}", (s * rsz + sum(x * st for x, st in zip(cc, strides(rs))),))  # noqa: E731
                return push(subkind, w, R, rs, g, t, local)
            return check_same(mkworld, r, spec, want, timeout_ms=tmo, what=tag)
        run.add(tag, thunk, kind="values")
    symmetric("triangle", 2, "identity")
    symmetric("tetrahedron", 3, "identity")
    symmetric("triangle", 2, "contra")
    # immersed cells: the physical shape of a Piola-mapped sub-element (gdim) differs from its reference shape (tdim)
    symmetric("triangle", 3, "contra")
    symmetric("triangle", 3, "cov")
    symmetric("interval", 2, "contra")
    symmetric("triangle", 3, "identity")

    # ---- the mixed space that derivative() builds for a TUPLE of coefficients (an internal mixed element of ufl.formoperators): the argument it
    # creates is pushed forward block-wise by the declared maps of the coefficients' elements, whatever mix of identity and Piola kinds they are
    def derivative_argument(kinds, cellname, g):
        tag = f"derivative-created-argument[{'+'.join(kinds)}]/{cellname}@{g}d"

        def thunk():
            msh = mesh(cellname, g)
            cell = msh.ufl_cell()
            t = cell.topological_dimension
            subs, rshapes = zip(*[elem(kd, cell, t) for kd in kinds])
            coeffs = tuple(ufl.Coefficient(ufl.FunctionSpace(msh, el_)) for el_ in subs)
            F = sum((ufl.inner(c_, c_) for c_ in coeffs[1:]), ufl.inner(coeffs[0], coeffs[0])) * ufl.dx(msh)
            dF = ufl.derivative(F, coeffs)
            args = [a_ for a_ in dF.arguments()]
            if len(args) != 1:
                return undecided(f"{tag}: derivative() created {len(args)} arguments")
            arg = args[0]
            total, spec = mixed_spec(kinds, rshapes, g, t, f"arg{arg.number()}")
            V = arg.ufl_function_space()
            if tuple(V.value_shape) != (total,):
                return violated(f"{tag}: the created argument's space has value_shape {V.value_shape}, the blocks need ({total},)", reproduced=True,
                                replay={"element": repr(V.ufl_element())[:500]}, backend="structural")
            try:
                r = apply_real(arg)
            except Exception as ex:  # noqa: BLE001
                return violated(f"{tag}: pullback raised {type(ex).__name__}: {ex}", reproduced=True, replay={"element": repr(V.ufl_element())[:500]})
            return check_same(mkworld, r, spec, (total,), timeout_ms=tmo, what=tag)
        run.add(tag, thunk, kind="values")
    for kinds in [("identity", "identity"), ("identity", "contra"), ("cov", "identity"), ("contra", "cov"), ("contra", "identity", "cov"), ("l2", "identity"), ("identity", "dcontra")]:
        derivative_argument(kinds, "triangle", 2)
    derivative_argument(("identity", "contra"), "triangle", 3)
    derivative_argument(("cov", "identity", "contra"), "tetrahedron", 3)

    # ---- frame: physical_value_shape / apply are functions of (element, domain) only.  ONE element object used on meshes of different
    # geometric dimension, one after the other (and back): each use must meet the contract of that mesh, whatever was computed before
    def reuse(kinds, cellname, gs):
        tag = f"reuse-one-element[{'+'.join(kinds)}]/{cellname}@" + "->".join(f"{g}d" for g in gs)

        def thunk():
            cell = getattr(ufl, cellname)
            t = cell.topological_dimension
            subs, rshapes = zip(*[elem(kd, cell, t) for kd in kinds])
            el = subs[0] if len(kinds) == 1 else E.MixedElement(list(subs))
            n = 0
            for g in gs:
                msh = mesh(cellname, g)
                V = ufl.FunctionSpace(msh, el)
                f = ufl.Coefficient(V)
                if len(kinds) == 1:
                    want = phys_shape(kinds[0], rshapes[0], g)
                    spec = (lambda f=f, g=g: lambda w, c, env: push(kinds[0], w, lambda cc: w.symbol(f"rv{f.count()}", cc), rshapes[0], g, t, c))()
                else:
                    total, spec = mixed_spec(kinds, rshapes, g, t, f.count())
                    want = (total,)
                if tuple(V.value_shape) != tuple(want):
                    return violated(f"{tag}: on the {g}d mesh value_shape is {V.value_shape}, declared physical shape {want} (the element was used on "
                                    f"meshes of dimension {gs[:gs.index(g)]} before)", reproduced=True, replay={"element": repr(el), "gdims": list(gs)}, backend="structural")
                try:
                    r = apply_real(f)
                except Exception as ex:  # noqa: BLE001
                    return violated(f"{tag}: pullback raised {type(ex).__name__}: {ex} on the {g}d mesh", reproduced=True, replay={"element": repr(el), "gdims": list(gs)})
                res = check_same(mkworld, r, spec, want, timeout_ms=tmo, what=f"{tag} (use on the {g}d mesh)")
                if res.status != "proved":
                    return res
                n += 1
            return proved("exec+z3", vcs=n, sample=f"{tag}: {n} uses of one element object, each meets the contract of its own mesh")
        run.add(tag, thunk, kind="values")
    for kinds in [("contra",), ("cov",), ("dcov",), ("contra", "identity"), ("identity", "cov"), ("dcontra", "l2"), ("contra", "identity", "cov")]:
        reuse(kinds, "triangle", (2, 3, 2))
        reuse(kinds, "triangle", (3, 2))
    reuse(("contra", "identity"), "interval", (1, 2, 1))
    reuse(("cov",), "interval", (2, 1))

    def canary():
        msh = mesh("triangle", 2)
        el, rshape = elem("contra", msh.ufl_cell(), 2)
        f = ufl.Coefficient(ufl.FunctionSpace(msh, el))
        r = apply_real(f)

        def spec(w, c, env):   # covariant instead of contravariant: must be refuted
            R = lambda cc: w.symbol(f"rv{f.count()}", cc)  # noqa: E731
            return push("cov", w, R, rshape, 2, 2, c)
        return check_same(mkworld, r, spec, (2,), what="canary")
    run.add("canary/contra-vs-cov", canary, kind="canary")
