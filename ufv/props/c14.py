"""C14 — the arity check accepts exactly multilinear integrands.

Functions under contract: every handler of ufl.algorithms.check_arities.ArityChecker and
check_integrand_arity.

Contract (soundness of the abstract interpretation).  An abstract value A is a tuple of
(argument, conj-flag).  gamma(A) = expressions that, for every argument number n,
   - do not depend on argument n                       if n does not occur in A,
   - are complex-linear in argument n                  if n occurs with flag False,
   - are antilinear in argument n                      if n occurs with flag True.
For a node T(e_1..e_k):  (forall i. e_i in gamma(A_i)) and the real handlers return R  ==>  T(e) in gamma(R).
The operands are opaque functions of the arguments (OpqDep); (anti)linearity is expressed semantically
by evaluating the spec function at three argument points p, q, p + s q with e_i(p+sq) = e_i(p) + s~ e_i(q)
for every operand that is (anti)linear in n, and e_i(p) = e_i(q) otherwise; the VC
den(T)(p+sq) = den(T)(p) + s~ den(T)(q)  (resp. den(T)(p) = den(T)(q)) goes to z3 for all values and all s.
"""
from __future__ import annotations

import itertools

import ufl
import ufl.classes as C
from ufl.algorithms.check_arities import ArityChecker, ArityMismatch, check_integrand_arity
from ufl.corealg.map_dag import map_expr_dag
from ufl.core.expr import Expr

from ufv import num as N
from ufv import elements as E
from ufv.core import proved, undecided, violated
from ufv.den import World, components, den, envs
from ufv.nodes import templates
from ufv.num import Unsupported
from ufv.opq import Opq, OpqDep, mesh
from ufv.semv import replay_point
from ufv.smt import prove_equal

LEVEL = "other"
TECHNIQUE = ("abstract-interpretation soundness contracts on the real ArityChecker handlers: run on opaque operands carrying every "
             "abstract arity value, the (anti)linearity / independence of the node's denotation in each argument is a VC over three "
             "argument points discharged by z3 for all values; dispatch table checked for all registered types")
LEVEL_TEXT = ("Each handler is proved sound for all operand values and every combination of abstract operand arities over two "
              "argument numbers (incl. conjugated and split-part arguments); node shapes are enumerated per class; classes bound to "
              "the conservative nonlinear handler are sound by construction of that handler (proved once).")
LEVEL_NOTE = ("Trusted: ufv/den.py semantics; z3; argument numbers bounded by 2 (the property's forms have 0-2 arguments); "
              "CellAvg/FacetAvg/ReferenceValue are assumed to be linear maps (no denotation); shapes enumerated.")
TRUSTED = ["ufv/den.py, ufv/num.py", "z3", "linearity of CellAvg, FacetAvg, ReferenceValue (assumed, textbook)"]
ASSUMPTIONS = ["handler rules: at most two argument numbers (final acceptance and end-to-end forms: up to four); abstract values: (), (v0), (conj v0), (v1), (conj v0, v1) and, thorough, split parts of v0",
               "operand shapes per node class as listed in ufv/nodes.py",
               "math functions are checked in real mode (complex arguments have no denotation)",
               "precondition: integrand is what compute_form_data passes (compound tensor operators lowered), so the inner/dot/outer "
               "handlers are outside the contract (observation: `dot = inner` conjugates the second operand although Dot does not)"]
EXPLANATION = ("Soundness of the arity abstract interpreter, per handler, for all values: (anti)linearity and independence are "
               "semantic VCs over the spec function evaluated at three argument points; plus exhaustive check of the final acceptance "
               "test of check_integrand_arity over all abstract results and a dispatch-table obligation over all registered types.")


def build(run):
    thorough = run.tier == "thorough"
    tri = mesh("triangle")
    el = E.LagrangeElement(ufl.triangle, 1)
    V = ufl.FunctionSpace(tri, el)
    v0 = ufl.Argument(V, 0)
    v1 = ufl.Argument(V, 1)
    v0a = ufl.Argument(V, 0, 0)
    v0b = ufl.Argument(V, 0, 1)
    AV = [(), ((v0, False),), ((v0, True),), ((v1, False),), ((v0, True), (v1, False))]
    # parts of one argument number (block systems): v0^0 and v0^1 are both "argument 0"; a node is linear in argument 0 jointly
    AVP = [((v0a, False),), ((v0b, False),)]
    if thorough:
        AV += [((v0, False), (v1, False)), ((v0a, False), (v0b, False))]
    for nm in ("terminal", "argument", "nonlinear_operator", "sum", "division", "product", "inner", "outer", "linear_operator",
               "conj", "variable", "conditional", "linear_indexed_type", "list_tensor"):
        run.function(getattr(ArityChecker, nm), f"ArityChecker.{nm}")
    run.function(check_integrand_arity)

    def avname(A):
        return "(" + ",".join(("conj " if c else "") + f"v{a.number()}" + (f"p{a.part()}" if a.part() is not None else "") for a, c in A) + ")"

    def flags_for(A, n):
        return [c for a, c in A if a.number() == n]

    SKIP = {"CellAvg", "FacetAvg"}

    def tmpl_ob(t, avs):
        name = f"handler/{t.name}/" + "".join(avname(A) for A in avs)

        def thunk():
            ops = []
            for (opname, shape, fi, fid), A in zip(t.specs, avs):
                deps = tuple(a for a, _ in A)
                ops.append(OpqDep(opname, deps, shape, fi, fid, dom=tri))
            try:
                o = t.build(ops)
            except TypeError as ex:
                if "not supported between instances" in str(ex):
                    # arguments with and without a part number cannot be ordered: UFL cannot even construct this expression, so there is nothing to check
                    return proved("unconstructible", sample=f"{name}: the constructor refuses ({ex})")
                return undecided(f"{name}: template could not be built: {ex}")
            except Exception as ex:  # noqa: BLE001
                return undecided(f"{name}: template could not be built: {ex}")
            if not isinstance(o, t.cls):
                return proved("constructor-simplified", sample=f"{name}: constructor returned {type(o).__name__}")
            rules = ArityChecker((v0, v1))
            vcache = {op: A for op, A in zip(ops, avs)}
            try:
                R = map_expr_dag(rules, o, compress=False, vcache=vcache)
            except ArityMismatch as ex:
                return proved("rejected", sample=f"{name}: rejected ({ex})"[:300])
            except TypeError as ex:
                if "not supported between instances" in str(ex):
                    # arguments with and without a part number: the checker's own sort refuses (a crash, not an acceptance)
                    return proved("rejected(TypeError)", sample=f"{name}: refused ({ex})"[:300])
                raise
            nvc = 0
            backends = set()
            for mode in ("complex", "real"):
                try:
                    for n in (0, 1):
                        fl = flags_for(R, n)
                        opfl = [flags_for(A, n) for A in avs]
                        if any(len(set(f)) > 1 for f in opfl):
                            continue
                        for c in components(o.ufl_shape):
                            for env in envs(o.ufl_free_indices, o.ufl_index_dimensions):
                                w = World(symbolic=True, complex_mode=(mode == "complex"))
                                w.spatial_const = {"s"}
                                s = w.symbol("s")
                                vals = {}
                                for pt in "pqr":
                                    w2 = w.with_layers(w.layers)

                                    def hook(wx, e, comp, en, pt=pt):
                                        if not isinstance(e, OpqDep):
                                            return NotImplemented
                                        k = [x._name for x in ops].index(e._name)
                                        f = opfl[k]
                                        idx = tuple(en[i] for i in e.ufl_free_indices)
                                        if not f:
                                            return wx.symbol(e._name, comp, idx)
                                        sp = wx.symbol(e._name + "@p", comp, idx)
                                        sq = wx.symbol(e._name + "@q", comp, idx)
                                        if pt == "p":
                                            return sp
                                        if pt == "q":
                                            return sq
                                        st = N.conj(s) if f[0] else s
                                        return N.add(sp, N.mul(st, sq))
                                    w2.opq_hook = hook
                                    vals[pt] = den(w2, o, c, env)
                                if not fl:
                                    got, spec, what = vals["p"], vals["q"], f"independent of argument {n}"
                                elif len(set(fl)) == 1:
                                    st = N.conj(s) if fl[0] else s
                                    got, spec = vals["r"], N.add(vals["p"], N.mul(st, vals["q"]))
                                    what = f"{'anti' if fl[0] else ''}linear in argument {n}"
                                else:
                                    continue
                                v = prove_equal(w, got, spec, 20000)
                                nvc += 1
                                if v.status == "proved":
                                    backends.add(v.backend)
                                    continue
                                if v.status == "refuted":
                                    return violated(
                                        f"{name}: handlers accept with arity {avname(R)} but the node is not {what} "
                                        f"(operand arities {[avname(A) for A in avs]}); counter-model {v.model}",
                                        replay={"template": t.name, "operand_arities": [avname(A) for A in avs], "result_arity": avname(R),
                                                "claim": what, "model": v.model, "node": repr(o)[:1500]},
                                        reproduced=True, backend=v.backend)
                                return undecided(f"{name}: {what}: solver {v.backend} unknown {v.detail}")
                    break
                except Unsupported as ex:
                    if mode == "real":
                        return undecided(f"{name}: no denotation: {ex}")
                    nvc = 0
                    continue
            return proved("+".join(sorted(backends)) or "z3-simplify", vcs=max(nvc, 1),
                          sample=f"{name}: accepted with arity {avname(R)}; {nvc} (anti)linearity/independence VCs")
        run.add(name, thunk, kind="values")

    from ufv.nodes import S as _S, Template as _T
    # list tensors whose components are list tensors themselves (rows): the affine-component rule must look through the nesting
    nested = [
        _T("ListTensor[rows 2x2]", C.ListTensor, [_S("a"), _S("b"), _S("c"), _S("d")], lambda o: C.ListTensor(C.ListTensor(o[0], o[1]), C.ListTensor(o[2], o[3]))),
        _T("ListTensor[rows 2x1 of vectors]", C.ListTensor, [_S("a", (2,)), _S("b", (2,))], lambda o: C.ListTensor(C.ListTensor(o[0], o[1]), C.ListTensor(o[1], o[0]))),
        _T("ListTensor[[a,b],[Zero,c]]", C.ListTensor, [_S("a"), _S("b"), _S("c")], lambda o: C.ListTensor(C.ListTensor(o[0], o[1]), C.ListTensor(C.Zero(), o[2]))),
        _T("ListTensor[depth 3]", C.ListTensor, [_S("a"), _S("b")],
           lambda o: C.ListTensor(C.ListTensor(C.ListTensor(o[0], o[1]), C.ListTensor(o[1], o[0])), C.ListTensor(C.ListTensor(o[1], o[1]), C.ListTensor(o[0], o[0])))),
    ]
    for t in list(templates()) + nested:
        if t.name in SKIP or t.cls in (C.CellAvg, C.FacetAvg):
            continue
        if issubclass(t.cls, C.CompoundTensorOperator) or t.cls in (C.Div, C.NablaGrad, C.NablaDiv, C.Curl):
            continue    # precondition of C14: the integrand has been through apply_algebra_lowering
        k = len(t.specs)
        avset = AV if k <= 2 else AV[:4]
        for avs in itertools.product(avset, repeat=k):
            if k >= 3 and sum(1 for a in avs if a) > 2:
                continue
            tmpl_ob(t, avs)
        # operands depending on different parts of the same argument number (parted and unparted arguments cannot be mixed in one
        # expression, so these form their own cells)
        if k == 2 or (k == 3 and thorough):
            for avs in itertools.product([()] + AVP, repeat=k):
                if sum(1 for a in avs if a) >= 2:
                    tmpl_ob(t, avs)

    # ---- dispatch: every registered type reaches a handler that is sound for it
    def dispatch():
        rules = ArityChecker((v0, v1))
        verified = {t.cls for t in templates()}
        cons = ArityChecker.nonlinear_operator
        n = 0
        uncovered = []
        for T in Expr._ufl_all_classes_:
            if not (isinstance(T, type) and issubclass(T, Expr)) or T._ufl_is_abstract_ or T.__module__.startswith("ufv."):
                continue
            h = rules._handlers[T._ufl_typecode_]
            f = getattr(h, "__func__", h)
            n += 1
            if T._ufl_is_terminal_:
                want = ArityChecker.argument if T is C.Argument else ArityChecker.terminal
                if f is not want:
                    return violated(f"terminal class {T.__name__} is dispatched to {f.__name__}", reproduced=True,
                                    replay={"class": T.__name__, "handler": f.__name__})
                continue
            if f is cons:
                continue            # conservative handler: sound for every operator (obligation nonlinear-conservative)
            if T in verified or T in (C.CellAvg, C.FacetAvg, C.ReferenceValue):
                continue
            if issubclass(T, C.CompoundTensorOperator):
                continue        # lowered before arity checking (precondition)
            uncovered.append(f"{T.__name__}->{f.__name__}")
        if uncovered:
            return undecided(f"operator classes bound to a non-conservative handler without a semantic obligation: {uncovered}")
        return proved("exec(all registered types)", vcs=n, sample=f"{n} registered concrete classes: terminal/argument/conservative/verified")
    run.add("dispatch/all-registered-types", dispatch, kind="proof")

    # the conservative handler itself: returns () only if no Argument terminal is reachable
    def conservative():
        rules = ArityChecker((v0, v1))
        n = 0
        for A in AV:
            deps = tuple(a for a, _ in A)
            op = OpqDep("a", deps, dom=tri)
            node = C.Abs(op)
            try:
                r = rules.nonlinear_operator(node)
                if deps or r != ():
                    return violated(f"nonlinear_operator accepted an operand depending on {deps} with result {r}", reproduced=True)
            except ArityMismatch:
                if not deps:
                    return violated("nonlinear_operator rejected an argument-free operand", reproduced=False)
            n += 1
        # nested: argument deep inside
        deep = C.Abs(C.Sum(Opq("c", dom=tri), C.Product(Opq("d", dom=tri), C.Indexed(ufl.grad(v1), C.MultiIndex((C.FixedIndex(0),))))))
        try:
            rules.nonlinear_operator(deep)
            return violated("nonlinear_operator accepted an expression containing grad(v1)[0]", reproduced=True)
        except ArityMismatch:
            pass
        return proved("exec", vcs=n + 1, sample="nonlinear_operator returns () iff no Argument terminal is reachable")
    run.add("handler/nonlinear_operator/conservative", conservative, kind="proof")

    # ---- final acceptance test of check_integrand_arity, exhaustive over abstract results
    def final():
        c = Opq("c", dom=tri)
        n = 0
        v2, v3 = ufl.Argument(V, 2), ufl.Argument(V, 3)       # multilinear forms of rank 3 and 4: every argument but the test function is unconjugated
        pool = [(v0, False), (v0, True), (v1, False), (v1, True), (v2, False), (v2, True), (v3, False), (v3, True)]
        for r in range(0, 5):
            for combo in itertools.combinations(pool, r):
                if len({a.number() for a, _ in combo}) != len(combo):
                    continue
                expr = c
                for a, cj in combo:
                    expr = expr * (C.Conj(a) if cj else a)
                for form_args in [(), (v0,), (v1,), (v0, v1), (v0, v1, v2), (v0, v2), (v0, v1, v2, v3), (v1, v2)]:
                    for cm in (False, True):
                        n += 1
                        try:
                            check_integrand_arity(expr, form_args, cm)
                            ok = True
                        except ArityMismatch:
                            ok = False
                        args_match = tuple(sorted((a for a, _ in combo), key=lambda x: x.number())) == tuple(form_args)
                        sesq = all((cj if a.number() == 0 else not cj) for a, cj in combo)
                        sound = args_match and (sesq or not cm)
                        if ok and not sound:
                            return violated(
                                f"check_integrand_arity accepted integrand with arity {avname(combo)} for form arguments "
                                f"{[str(a) for a in form_args]} complex_mode={cm}",
                                replay={"integrand": str(expr), "arguments": [str(a) for a in form_args], "complex_mode": cm},
                                reproduced=True)
        return proved("exhaustive-finite", vcs=n, sample="accept => argument sets equal and (complex => test conjugated, others not)")
    run.add("check_integrand_arity/final-acceptance", final, kind="proof")

    # ---- end to end: what compute_form_data accepts is (anti)linear in each argument of the form AS WRITTEN (the passes that run
    # before the arity check -- algebra lowering, derivative expansion -- must not lose a conjugation or a factor)
    def e2e():
        from ufl import Coefficient, TestFunction, TrialFunction, conj, derivative, dx, ds, grad, inner, dot, div, real, imag, sin
        from ufl.algorithms import compute_form_data
        from ufv.terms import atoms_hook
        Vv = ufl.FunctionSpace(tri, E.LagrangeElement(ufl.triangle, 1, (2,)))
        f, g = Coefficient(V), Coefficient(V)
        u, v = TrialFunction(V), TestFunction(V)
        uu, vv = TrialFunction(Vv), TestFunction(Vv)
        forms = [   # (name, form)
            ("inner(grad u, grad v)", inner(grad(u), grad(v)) * dx), ("u*conj(v)", u * conj(v) * dx), ("u*v (no conj)", u * v * dx),
            ("inner(grad u, grad(conj v))", inner(grad(u), grad(conj(v))) * dx), ("u.dx(0)*conj(conj(v).dx(0))", u.dx(0) * conj(conj(v).dx(0)) * dx),
            ("inner(f, conj(v).dx(1))", inner(f, conj(v).dx(1)) * dx), ("conj(grad(conj(f)).grad(conj(v)))", conj(dot(grad(conj(f)), grad(conj(v)))) * dx),
            ("conj(u)*conj(v)", conj(u) * conj(v) * dx), ("f*conj(v) + g*conj(v.dx(0))", f * conj(v) * dx + g * conj(v.dx(0)) * ds),
            ("inner(div(uu), div(vv))", inner(div(uu), div(vv)) * dx), ("real(u)*conj(v)", real(u) * conj(v) * dx), ("u*imag(v)", u * imag(v) * dx),
            ("derivative of energy", derivative(0.5 * inner(grad(f), grad(f)) * dx + f ** 3 * dx, f, v)), ("sin(u)*conj(v)", sin(u) * conj(v) * dx),
            ("(u+f)*conj(v)", (u + f) * conj(v) * dx), ("grad(u*conj(v))[0]", grad(u * conj(v))[0] * dx),
        ]
        # rank 3 (a third argument, e.g. the direction of a second derivative): linear in every argument but the test function
        w3 = ufl.Argument(V, 2)
        forms += [("trilinear conj(v)*u*w", conj(v) * u * w3 * dx), ("trilinear conj(v)*u*conj(w)", conj(v) * u * conj(w3) * dx),
                  ("trilinear inner(u, v*w)", inner(u, v * w3) * dx), ("trilinear inner(grad u, grad w)*conj(v)", inner(grad(u), grad(w3)) * conj(v) * dx),
                  ("trilinear inner(grad w, grad v)*u", inner(grad(w3), grad(v)) * u * dx), ("trilinear conj(v*w)*u*f", conj(v * w3) * u * f * dx),
                  ("derivative of a bilinear form in a third direction", derivative(f ** 3 * u * conj(v) * dx, f, w3)),
                  ("derivative of a bilinear form in a conjugated direction", derivative(f ** 3 * u * conj(v) * dx, f, conj(w3)))]
        # integrals WITHOUT any argument next to integrals with arguments (kept apart by integral type, subdomain or metadata): an affine form
        forms += [("affine: u*conj(v)*dx + f*ds", u * conj(v) * dx + f * ufl.ds), ("affine: f*conj(v)*dx + g*ds", f * conj(v) * dx + g * ufl.ds),
                  ("affine: u*conj(v)*dx + f*dx(1)", u * conj(v) * dx + f * dx(1)), ("affine: u*conj(v)*dx + f*dx(degree=1)", u * conj(v) * dx + f * dx(degree=1)),
                  ("affine: inner(u,v)*dx + conj(f)*ds", inner(u, v) * dx + conj(f) * ufl.ds), ("affine: f*conj(v)*ds(1) + sin(g)*g*ds(2)", f * conj(v) * ufl.ds(1) + sin(g) * g * ufl.ds(2)),
                  ("linear only: f*conj(v)*dx + g*conj(v)*ds", f * conj(v) * dx + g * conj(v) * ufl.ds), ("functional only: f*dx + g*ds", f * dx + g * ufl.ds)]
        n = 0
        for name, form in forms:
            try:
                compute_form_data(form, complex_mode=True)
                accepted = True
            except ArityMismatch:
                accepted = False
            if not accepted:
                n += 1
                continue       # rejections are always allowed by the property (conservative)
            written = form
            if any(isinstance(t_, C.CoefficientDerivative) for it_ in form.integrals() for t_ in ufl.corealg.traversal.unique_pre_traversal(it_.integrand())):
                from ufl.algorithms import expand_derivatives
                written = expand_derivatives(form)       # Gateaux derivatives denote their expansion (C02's contract)
            for itg in written.integrals():
                for arg in form.arguments():
                    nbr = arg.number()

                    def mkw(scaled, nbr=nbr):
                        def hook(w, e, comp, env):
                            if isinstance(e, C.Argument) and e.number() == nbr and scaled:
                                return N.mul(w.symbol("s"), atoms_hook(w, e, comp, env))
                            return atoms_hook(w, e, comp, env)
                        return hook
                    w = World(symbolic=True, complex_mode=True)
                    w.spatial_const = {"s"}
                    w.terminal_hook = mkw(True)
                    lhs = den(w, itg.integrand(), (), {})
                    w2 = w.with_layers(w.layers)
                    w2.terminal_hook = mkw(False)
                    base = den(w2, itg.integrand(), (), {})
                    sv = w.symbol("s")
                    rhs = N.mul(N.conj(sv) if nbr == 0 else sv, base)
                    vr = prove_equal(w, lhs, rhs, 20000)
                    n += 1
                    if vr.status == "refuted":
                        return violated(f"compute_form_data(complex_mode=True) accepts '{name}', but the integrand {itg.integrand()} is not "
                                        f"{'antilinear' if nbr == 0 else 'linear'} in argument {nbr}: scaling the argument by s does not scale the "
                                        f"integrand by {'conj(s)' if nbr == 0 else 's'}; counter-model {vr.model}",
                                        replay={"form": name, "argument": nbr, "model": vr.model}, reproduced=True, backend=vr.backend)
                    if vr.status != "proved":
                        return undecided(f"e2e {name}: {vr.backend} {vr.detail}")
        return proved("z3", vcs=n, sample=f"{len(forms)} forms through compute_form_data(complex_mode=True): every accepted integrand is homogeneous of "
                      "degree one (conjugate-homogeneous in the test function) for all argument values and all complex s")
    run.add("end-to-end/accepted-forms-are-sesquilinear-as-written", e2e, kind="values")

    # ---- form arguments of USER SUBCLASSES of Argument (a plain subclass, and one registered with @ufl_type(), which gets a type code of its own): the
    # check must treat them as arguments everywhere, in particular below nonlinear operators
    def argument_subclasses():
        from ufl.algorithms import compute_form_data
        from ufl.core.ufl_type import ufl_type as _ufl_type
        import os as _os

        class PlainArgument(ufl.Argument):
            __slots__ = ()
        RegisteredArgument = _ufl_type()(type(f"RegisteredArgument{_os.getpid()}", (ufl.Argument,), {"__slots__": ()}))
        tri = mesh("triangle")
        V = ufl.FunctionSpace(tri, E.LagrangeElement(tri.ufl_cell(), 1))
        f = ufl.Coefficient(V)
        dxm = ufl.Measure("dx", domain=tri)
        n = 0
        for cls in (PlainArgument, RegisteredArgument):
            v, u = cls(V, 0), cls(V, 1)
            nonlinear = {"sqrt(v)*v": ufl.sqrt(v) * v, "abs(v)*v": abs(v) * v, "v**3*v": v ** 3 * v, "sin(v)": ufl.sin(v), "v/(1+v)": v / (1 + v), "max_value(v, 0)*v": ufl.max_value(v, 0) * v,
                         "conditional(v < 0, v, 2*v)*v": ufl.conditional(ufl.lt(v, 0), v, 2 * v) * v, "u*u*v": u * u * v, "exp(u)*v": ufl.exp(u) * v}
            linear = {"f*v": f * v, "u*v": u * v, "f*u*v + sin(f)*u*v": f * u * v + ufl.sin(f) * u * v}
            for nm, e in nonlinear.items():
                n += 1
                try:
                    compute_form_data(e * dxm)
                except ArityMismatch:
                    continue
                except BaseException as ex:  # noqa: BLE001
                    if isinstance(ex, (KeyboardInterrupt, SystemExit)):
                        raise
                    continue            # some other refusal
                return violated(f"{nm}*dx with v, u of the user class {cls.__name__} ({'registered with @ufl_type(), own type code' if cls is RegisteredArgument else 'plain subclass'}) is accepted as a "
                                f"multilinear form although it is nonlinear in an argument", replay={"integrand": nm, "argument_class": cls.__name__}, reproduced=True, backend="exec")
            for nm, e in linear.items():
                n += 1
                try:
                    compute_form_data(e * dxm)
                except ArityMismatch as ex:
                    return violated(f"{nm}*dx with arguments of the user class {cls.__name__} is rejected although it is multilinear: {ex}", replay={"integrand": nm, "argument_class": cls.__name__},
                                    reproduced=True, backend="exec")
        return proved("exec(finite)", vcs=n, sample=f"{n} forms with arguments of user subclasses (plain / registered): nonlinear ones rejected, multilinear ones accepted")
    run.add("end-to-end/arguments-of-user-subclasses", argument_subclasses, kind="values")

    def canary():
        # x*x with x linear in v0 is NOT linear: a handler result (v0) would be unsound; check the VC machinery refutes it
        w = World(symbolic=True, complex_mode=False)
        s = w.symbol("s")
        sp, sq = w.symbol("a@p"), w.symbol("a@q")
        r = N.add(sp, N.mul(s, sq))
        v = prove_equal(w, N.mul(r, r), N.add(N.mul(sp, sp), N.mul(s, N.mul(sq, sq))), 5000)
        if v.status == "refuted":
            return violated("canary refuted", reproduced=True)
        return proved("canary")
    run.add("canary/square-is-not-linear", canary, kind="canary")
