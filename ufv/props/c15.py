"""C15 — integral grouping preserves what is integrated on each subdomain.

Functions under contract: group_form_integrals, group_integrals_by_domain_and_type, rearrange_integrals_by_single_subdomains,
integral_subdomain_ids, accumulate_integrands_with_same_metadata, build_integral_data, ExprTupleKey.__lt__, canonicalize_metadata,
strip_coordinate_derivatives / attach_coordinate_derivatives.

Contract (every integrand is its own atom, so the equations account for every single input integral):
  for every (domain, integral type, extra-domain map, single subdomain id s, metadata class M):
      sum of den(integrand) over OUTPUT integrals with s in their subdomain ids and metadata in class M
   ==  sum of den(integrand) over INPUT integrals that apply at s with metadata in class M,
  where an input applies at s iff s is one of its ids, or it is an 'everywhere' integral and (s == 'otherwise' or (append and s is an
  explicit id of the same (domain, type) group));  the metadata class is the independent spec norm() of ufv/props/c11.py (not the code's
  canonicalisation), so integrals whose metadata differ are never merged.
  build_integral_data: partitions the grouped integrals by (domain, type, subdomain ids, extra map) without losing or duplicating any.
The real functions run on every form of an enumerated family; each equation is a linear identity over the atoms, discharged symbolically
(exact normaliser / z3).  CoordinateDerivative(e, w, v, cd) is modelled as an additive operator D_(w,v,cd) that renames the atoms.
"""
from __future__ import annotations

import itertools
import random
import warnings

import numpy as np

import ufl
import ufl.classes as C
from ufl.algorithms import domain_analysis as DA
from ufl.algorithms.coordinate_derivative_helpers import attach_coordinate_derivatives, strip_coordinate_derivatives
from ufl.utils.sorting import canonicalize_metadata

from ufv import num as N
from ufv import sigforms as S
from ufv.core import bounded_ok, proved, undecided, violated
from ufv.den import World, den
from ufv.props.c11 import norm
from ufv.smt import prove_equal
from ufv.terms import atoms_hook

LEVEL = "other"
TECHNIQUE = ("contract 'per (domain, type, subdomain id, metadata class) the grouped integrands sum to the applicable input integrands' "
             "checked on the real group_form_integrals / build_integral_data: each input integrand is a distinct atom, every equation is "
             "a linear identity discharged symbolically for all atom values; forms enumerated over subdomain-id shapes, metadata "
             "(incl. array-valued, near-colliding), integral types, two domains, coordinate derivatives and both append options (bounded)")
LEVEL_TEXT = "All-values (linear, symbolic) per form; the family of forms is enumerated: up to 3 integrals (4 in the thorough tier) from a pool of templates."
LEVEL_NOTE = "Trusted: ufv/den.py, the metadata spec norm(); hash() of canonical metadata tuples assumed collision free (identity-by-hash in the code)."
TRUSTED = ["ufv/den.py", "norm() metadata spec in ufv/props/c11.py", "z3 / exact normaliser"]
ASSUMPTIONS = ["<= 3 integrals per form in the quick tier (all pairs, sampled triples), <= 4 in the thorough tier", "<= 2 domains",
               "CoordinateDerivative modelled as an additive atom-renaming operator per (w, v, cd)",
               "Python hash of tuples of str collision-free (the code groups by hash(canonicalize_metadata(.)))"]
EXPLANATION = ("For every subdomain id and metadata class the grouped form integrates exactly the sum of the input integrands that apply there; "
               "differently annotated integrals stay apart.")


def build(run):
    for f in (DA.group_form_integrals, DA.group_integrals_by_domain_and_type, DA.rearrange_integrals_by_single_subdomains, DA.integral_subdomain_ids,
              DA.accumulate_integrands_with_same_metadata, DA.build_integral_data, DA.ExprTupleKey.__lt__, canonicalize_metadata,
              strip_coordinate_derivatives, attach_coordinate_derivatives):
        run.function(f)

    S.set_counters({k: 30 for k in S.COUNTER_FAMILIES})
    m1, m2 = S.new_mesh(), S.new_mesh()
    V1, V2 = ufl.FunctionSpace(m1, S.L(ufl.triangle, 1)), ufl.FunctionSpace(m2, S.L(ufl.triangle, 1))
    W1 = ufl.FunctionSpace(m1, S.L(ufl.triangle, 1, (2,)))
    dirs = [ufl.Coefficient(W1), ufl.Coefficient(W1)]
    # coefficient-derivative mappings of a coordinate derivative (`derivative(F, X, V, coefficient_derivatives={fm: gm[j]})`): part of the identity of the derivative
    fm, gm = ufl.Coefficient(V1), [ufl.Coefficient(W1), ufl.Coefficient(W1)]
    big = np.linspace(0.0, 1.0, 1200)
    big2 = big.copy()
    big2[600] += 0.25
    MDS = [None, {"quadrature_degree": 2}, {"quadrature_degree": 3}, {"quadrature_degree": 2, "rule": "gauss"},
           {"w": np.array([0.5, 0.25])}, {"w": np.array([0.5, 0.25 + 1e-10])}, {"p": big}, {"p": big2}, {"quadrature_degree": "2"},
           {"quadrature_degree": (2, 2)}]      # a per-direction degree: a tuple value under a key that other integrals give a scalar
    SIDS = ["everywhere", 1, 2, (1, 2), (2, 3), (3,)]
    ITYPES = ["dx", "ds"]
    # an integral type registered at run time through the public registry (form compilers add their own): grouping must treat it like
    # the built-in ones
    import ufl.measure as _ms
    if "cell_patch" not in _ms.integral_type_to_measure_name:
        _ms.register_integral_type("cell_patch", "dpatch")

    def templates(quick):
        out = []
        for sid in SIDS:
            for mdi in range(len(MDS)):
                for it in ITYPES:
                    if quick and it == "ds" and (mdi > 2 or sid in ((2, 3), (3,))):
                        continue
                    out.append({"sid": sid, "md": mdi, "itype": it, "dom": 1, "cd": None})
        out += [{"sid": sid, "md": mdi, "itype": "dx", "dom": 2, "cd": None} for sid in ("everywhere", 1) for mdi in (0, 1)]
        # subdomain ids that are numbers.Integral without being Python ints (entries of a mesh tag array)
        out += [{"sid": sid, "md": mdi, "itype": "dx", "dom": 1, "cd": None} for sid in (np.int32(1), (np.int64(2), 3), np.int64(3)) for mdi in (0, 1)]
        # the subdomain number 0 (a legal id like any other, though falsy in Python), alone, in tuples, next to 'everywhere' integrals, as a numpy integer
        out += [{"sid": sid, "md": mdi, "itype": it, "dom": 1, "cd": None} for sid in (0, (0, 1), (0,), np.int64(0)) for mdi in (0, 1) for it in ITYPES]
        out += [{"sid": sid, "md": mdi, "itype": "dpatch", "dom": 1, "cd": None} for sid in ("everywhere", 1, (1, 2)) for mdi in (0, 1)]
        out += [{"sid": sid, "md": mdi, "itype": "dx", "dom": 1, "cd": k} for sid in ("everywhere", 1, (1, 2)) for mdi in (0, 1) for k in (0, 1)]
        # nested coordinate derivatives (second shape derivatives, in the same and in two different directions)
        out += [{"sid": sid, "md": 0, "itype": "dx", "dom": 1, "cd": k} for sid in ("everywhere", 1) for k in ((0, 1), (1, 1), (1, 0))]
        return out

    def mk_form(tpls, shared=False):
        """One integral per template; integrand = its own coefficient atom (or a shared integrand pattern when `shared`)."""
        integrals, atoms = [], []
        for k, t in enumerate(tpls):
            dom = m1 if t["dom"] == 1 else m2
            f = ufl.Coefficient(V1 if t["dom"] == 1 else V2)
            atoms.append(f)
            e = f
            if shared:
                e = atoms[0] * atoms[0] if t["dom"] == tpls[0]["dom"] else f
            meas = ufl.Measure(t["itype"], domain=dom, subdomain_id=t["sid"], metadata=MDS[t["md"]])
            form = e * meas
            if t["cd"] is not None:
                for li, k_ in enumerate(t["cd"] if isinstance(t["cd"], tuple) else (t["cd"],)):
                    cj = (t.get("cfd") or ())[li:li + 1]
                    kw = {"coefficient_derivatives": {fm: gm[cj[0] - 1]}} if cj and cj[0] else {}
                    form = ufl.derivative(form, ufl.SpatialCoordinate(dom), dirs[k_], **kw)
            integrals += list(form.integrals())
        return ufl.Form(integrals)

    def world():
        def op_hook(w, e, comp, env):
            if isinstance(e, C.CoordinateDerivative):
                inner, o1, o2, o3 = e.ufl_operands
                # nested coordinate derivatives are second (third, ...) Gateaux derivatives w.r.t. the coordinate field in fixed directions: they commute,
                # so a chain is identified by the MULTISET of its (w, v, cd) triples (this is also how the grouping identifies chains)
                tags = tuple(sorted(getattr(w, "_cd_tags", ()) + (f"{hash((repr(o1), repr(o2), repr(o3))) & 0xffffff:x}",)))
                tag = "D<" + ",".join(tags) + ">"
                w2 = w.with_layers(w.layers)
                w2._cd_tags = tags
                prev = getattr(w, "_cd_base_hook", w.terminal_hook)
                w2._cd_base_hook = prev

                def th(ww, t, c, en, prev=prev, tag=tag):
                    if isinstance(t, C.Coefficient):
                        return ww.symbol(f"{tag}w{t.count()}", c)
                    return prev(ww, t, c, en)
                w2.terminal_hook = th
                w2.operator_hook = w.operator_hook
                return den(w2, inner, comp, env)
            return NotImplemented
        w = World(symbolic=True, complex_mode=False, valuation=None)
        w.terminal_hook = atoms_hook
        w.operator_hook = op_hook
        return w

    def ids_of(itg):
        sid = itg.subdomain_id()
        if isinstance(sid, tuple):
            return list(sid)
        return [sid]

    def check_one(form, append, label):
        doms = ufl.domain.extract_domains(form) if hasattr(ufl.domain, "extract_domains") else form.ufl_domains()
        with warnings.catch_warnings():
            warnings.simplefilter("ignore")
            try:
                out = DA.group_form_integrals(form, doms, do_append_everywhere_integrals=append)
            except (TypeError, IndexError, KeyError, AttributeError) as ex:
                from ufv.core import crash_text
                return violated(f"{label} (append={append}): group_form_integrals crashed on a valid form: {crash_text(ex)}", replay={"form": label, "append": append}, reproduced=True, backend="exec")
        w = world()
        # ---- spec side
        groups = {}
        for itg in form.integrals():
            gk = (itg.integral_type(), itg.ufl_domain().ufl_id(), tuple((d.ufl_id(), t) for d, t in itg.extra_domain_integral_type_map().items()))
            groups.setdefault(gk, []).append(itg)
        want = {}
        for gk, itgs in groups.items():
            explicit = sorted({s for i in itgs for s in ids_of(i) if s != "everywhere"})
            has_ev = any(i.subdomain_id() == "everywhere" for i in itgs)
            for i in itgs:
                mk_ = repr(norm(i.metadata()))
                if i.subdomain_id() == "everywhere":
                    tg = ["otherwise"] + (explicit if append else [])
                else:
                    tg = list(dict.fromkeys(ids_of(i)))
                for s in tg:
                    want.setdefault((gk, s, mk_), []).append(i.integrand())
            del has_ev
        got = {}
        for itg in out.integrals():
            gk = (itg.integral_type(), itg.ufl_domain().ufl_id(), tuple((d.ufl_id(), t) for d, t in itg.extra_domain_integral_type_map().items()))
            sids = ids_of(itg)
            if len(set(sids)) != len(sids):
                return violated(f"{label}: an output integral lists a subdomain id twice: {sids}", replay={"form": label}, reproduced=True)
            for s in sids:
                if s == "everywhere":
                    return violated(f"{label}: 'everywhere' survives grouping", replay={"form": label}, reproduced=True)
                got.setdefault((gk, s, repr(norm(itg.metadata()))), []).append(itg.integrand())
        n = 0
        for key in sorted(set(want) | set(got), key=repr):
            a = 0
            for e in got.get(key, []):
                a = N.add(a, den(w, e, (), {}))
            b = 0
            for e in want.get(key, []):
                b = N.add(b, den(w, e, (), {}))
            v = prove_equal(w, a, b, 10000)
            n += 1
            if v.status == "proved":
                continue
            if v.status == "refuted":
                gk, s, mk_ = key
                return violated(f"{label} (append={append}): on {gk[0]} of mesh {gk[1]}, subdomain {s}, metadata {mk_[:80]} the grouped form integrates "
                                f"{' + '.join(str(e) for e in got.get(key, [])) or '0'} but the input integrates {' + '.join(str(e) for e in want.get(key, [])) or '0'}",
                                replay={"form": label, "append": append, "key": repr(key)[:500], "got": [str(e) for e in got.get(key, [])],
                                        "want": [str(e) for e in want.get(key, [])], "model": v.model}, reproduced=True, backend=v.backend)
            return undecided(f"{label}: {v.backend} {v.detail}")
        # ---- build_integral_data partition
        with warnings.catch_warnings():
            warnings.simplefilter("ignore")
            ids = DA.build_integral_data(out.integrals())
        flat = [i for d in ids for i in d.integrals]
        if sorted(map(id, flat)) != sorted(map(id, out.integrals())):
            return violated(f"{label}: build_integral_data loses or duplicates integrals", replay={"form": label}, reproduced=True)
        for d in ids:
            for i in d.integrals:
                if (i.ufl_domain(), i.integral_type(), i.subdomain_id()) != (d.domain, d.integral_type, d.subdomain_id):
                    return violated(f"{label}: build_integral_data files an integral under the wrong key", replay={"form": label}, reproduced=True)
        keys = [(d.domain.ufl_id(), d.integral_type, d.subdomain_id, tuple(d.domain_integral_type_map.items()) if hasattr(d, "domain_integral_type_map") else ()) for d in ids]
        if len(set(map(repr, keys))) != len(keys):
            return violated(f"{label}: build_integral_data yields two IntegralData with the same key", replay={"form": label}, reproduced=True)
        return n

    def family_ob(name, forms_fn):
        def thunk():
            tot = nf = 0
            for label, tpls, shared in forms_fn():
                for append in (True, False):
                    S.set_counters({k: 60 for k in S.COUNTER_FAMILIES})
                    try:
                        form = mk_form(tpls, shared)
                    except Exception as ex:  # noqa: BLE001
                        return undecided(f"{label}: cannot build: {type(ex).__name__}: {ex}")
                    try:
                        r = check_one(form, append, label)
                    except N.Unsupported as ex:
                        return undecided(f"{label}: {ex}")
                    if not isinstance(r, int):
                        return r
                    tot += r
                    nf += 1
            if nf == 0:
                return undecided("empty family")
            return bounded_ok(nf, f"{nf} (form, append) cases of family '{name}'", sample=f"{tot} per-(subdomain, metadata) linear identities proved for all atom values")
        run.add(f"grouping/{name}", thunk, kind="bounded")

    quick = run.tier == "quick"
    T = templates(quick)

    def lab(ts):
        return " + ".join(f"{t['itype']}{'@m2' if t['dom'] == 2 else ''}({t['sid']}){'[md%d]' % t['md'] if t['md'] else ''}{'[cd%s]' % (t['cd'],) if t['cd'] is not None else ''}{'[cfd%s]' % (t['cfd'],) if t.get('cfd') else ''}" for t in ts)

    # singles and all pairs, chunked
    pairs = [(a, b) for a in T for b in T]
    nchunks = 16
    for c in range(nchunks):
        chunk = pairs[c::nchunks]
        family_ob(f"pairs/{c}", lambda chunk=chunk: ((lab(p), list(p), False) for p in chunk))
    family_ob("singles", lambda: ((lab((t,)), [t], False) for t in T))
    # shared integrands (second stage merges equal integrands over subdomain ids)
    base = [t for t in T if t["dom"] == 1 and t["cd"] is None and t["itype"] == "dx" and t["md"] in (0, 1, 4, 5, 9)]
    family_ob("shared-integrand pairs", lambda: ((lab(p) + " (same integrand)", list(p), True) for p in itertools.product(base, repeat=2)))
    # the same integrand under the same coordinate derivative on one subdomain with DIFFERENT metadata (and on overlapping subdomains): kept apart by metadata
    base_cd = [t for t in T if t["dom"] == 1 and t["itype"] == "dx" and t["md"] in (0, 1, 2) and t["cd"] in (0, (0, 1)) and t["sid"] in ("everywhere", 1, (1, 2))]
    base_cd += [dict(t, md=mdi) for t in base_cd if t["md"] == 0 for mdi in (2, 3)]
    family_ob("shared-integrand pairs under coordinate derivatives", lambda: ((lab(p) + " (same integrand)", list(p), True) for p in itertools.product(base_cd, repeat=2)
                                                                              if p[0]["cd"] == p[1]["cd"]))
    # coordinate derivatives that differ only in their coefficient-derivative mappings (one level: none / g1 / g2; two levels: the same two mappings in either
    # order) are different derivatives: their integrands may be merged only when the whole stack agrees (round-11 seed c15-k and the defect repaired with it)
    base_cfd = [{"sid": sid, "md": 0, "itype": "dx", "dom": 1, "cd": cd, "cfd": cfd} for sid in ("everywhere", 1)
                for cd, cfd in ((0, (0,)), (0, (1,)), (0, (2,)), ((0, 1), (1, 2)), ((0, 1), (2, 1)), ((0, 1), (1, 1)), ((0, 1), (0, 1)), ((1, 0), (1, 2)))]
    for shared in (False, True):
        family_ob("coefficient-derivative mappings under coordinate derivatives" + (" (same integrand)" if shared else ""),
                  lambda shared=shared: ((lab(p) + (" (same integrand)" if shared else ""), list(p), shared) for p in itertools.product(base_cfd, repeat=2)))
    rnd = random.Random(run.seed + 15)
    ntr = 400 if quick else 6000
    triples = [tuple(rnd.choice(T) for _ in range(3)) for _ in range(ntr)]
    for c in range(8):
        chunk = triples[c::8]
        family_ob(f"triples/{c}", lambda chunk=chunk: ((lab(p), list(p), False) for p in chunk))
    family_ob("shared-integrand triples", lambda: ((lab(p) + " (same integrand)", list(p), True) for p in [tuple(rnd.choice(base) for _ in range(3)) for _ in range(150 if quick else 1500)]))
    if not quick:
        quads = [tuple(rnd.choice(T) for _ in range(4)) for _ in range(4000)]
        for c in range(8):
            chunk = quads[c::8]
            family_ob(f"quads/{c}", lambda chunk=chunk: ((lab(p), list(p), False) for p in chunk))

    # ---- the public entry point forwards the option: compute_form_data(form, do_append_everywhere_integrals=flag) integrates on every subdomain what
    # group_form_integrals(form, domains, do_append_everywhere_integrals=flag) does (the integrands are bare coefficients, which no other pass rewrites)
    def entry_point():
        from ufl.algorithms import compute_form_data
        from ufl.algorithms.renumbering import renumber_indices
        S.set_counters({k: 40 for k in S.COUNTER_FAMILIES})
        cs = [ufl.Coefficient(V1) for _ in range(6)]
        dxm, dsm = (lambda *a, **k: ufl.Measure("dx", domain=m1)(*a, **k)), (lambda *a, **k: ufl.Measure("ds", domain=m1)(*a, **k))
        forms = {
            "everywhere + numbered": cs[0] * dxm() + cs[1] * dxm(1) + cs[2] * dxm(2, degree=2) + cs[3] * dxm(degree=2) + cs[0] * dsm() + cs[1] * dsm(3),
            "tuples + everywhere": cs[0] * dxm((1, 2)) + cs[1] * dxm() + cs[2] * dxm((2, 3)) + cs[3] * dsm((1, 2)) + cs[4] * dsm(),
            "only everywhere": cs[0] * dxm() + cs[1] * dsm(), "only numbered": cs[0] * dxm(1) + cs[1] * dxm(2) + cs[2] * dsm(1),
        }
        n = 0
        for fname, F in forms.items():
            for flag in (True, False, None):
                kw = {} if flag is None else {"do_append_everywhere_integrals": flag}
                want_flag = True if flag is None else flag
                with warnings.catch_warnings():
                    warnings.simplefilter("ignore")
                    fd = compute_form_data(F, **kw)
                    ref = DA.build_integral_data(DA.group_form_integrals(F, F.ufl_domains(), do_append_everywhere_integrals=want_flag).integrals())

                def table(idata):
                    out = {}
                    for idt in idata:
                        for itg in idt.integrals:
                            key = (idt.integral_type, tuple(map(str, idt.subdomain_id)) if isinstance(idt.subdomain_id, tuple) else str(idt.subdomain_id),
                                   repr(sorted((k_, repr(v_)) for k_, v_ in itg.metadata().items() if k_ != "estimated_polynomial_degree")))
                            out.setdefault(key, []).append(str(renumber_indices(itg.integrand())))
                    return {k_: sorted(v_) for k_, v_ in out.items()}
                got, want = table(fd.integral_data), table(ref)
                n += 1
                if got != want:
                    diff_ = sorted(set(got.items() if False else [(k_, tuple(v_)) for k_, v_ in got.items()]) ^ set((k_, tuple(v_)) for k_, v_ in want.items()))[:4]
                    return violated(f"compute_form_data('{fname}', do_append_everywhere_integrals={flag}) does not integrate what group_form_integrals(..., "
                                    f"do_append_everywhere_integrals={want_flag}) does: differing (type, subdomain, metadata) -> integrands: {diff_}",
                                    replay={"form": fname, "flag": flag, "got": {str(k_): v_ for k_, v_ in got.items()}, "want": {str(k_): v_ for k_, v_ in want.items()}},
                                    reproduced=True, backend="exec")
        return proved("exec", vcs=n, sample=f"{len(forms)} forms x (True, False, default): compute_form_data groups exactly as group_form_integrals with the same option")
    run.add("entry-point/compute_form_data-forwards-the-append-option", entry_point, kind="values")

    def refusals():
        f = ufl.Coefficient(V1)
        n = 0
        for bad in ("otherwise",):
            try:
                DA.rearrange_integrals_by_single_subdomains(list((f * ufl.Measure("dx", domain=m1, subdomain_id=bad)).integrals()), True)
            except ValueError:
                n += 1
                continue
            return violated(f"subdomain id {bad!r} accepted before preprocessing", reproduced=True)
        try:
            DA.build_integral_data((f * ufl.dx(m1)).integrals())
        except ValueError:
            n += 1
        else:
            return violated("build_integral_data accepts an 'everywhere' integral", reproduced=True)
        return proved("exec", vcs=n, sample="'otherwise' before grouping and 'everywhere' after grouping are refused")
    run.add("refusals", refusals, kind="proof")

    def canary():
        S.set_counters({k: 60 for k in S.COUNTER_FAMILIES})
        f, g = ufl.Coefficient(V1), ufl.Coefficient(V1)
        form = f * ufl.Measure("dx", domain=m1, subdomain_id=1) + g * ufl.Measure("dx", domain=m1, subdomain_id=2)
        out = DA.group_form_integrals(form, (m1,), True)
        w = world()
        a = 0
        for itg in out.integrals():
            if 1 in ids_of(itg):
                a = N.add(a, den(w, itg.integrand(), (), {}))
        v = prove_equal(w, a, den(w, g, (), {}), 5000)     # claims dx(1) integrates g: must be refuted
        if v.status == "proved":
            return proved("canary")
        return violated("canary refuted", reproduced=True)
    run.add("canary/wrong-subdomain", canary, kind="canary")
