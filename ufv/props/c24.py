"""C24 — point evaluation computes the mathematical value.

Functions under contract: every `evaluate` method reached by Expr.__call__ (exproperators._eval/_call, Terminal.evaluate,
Sum/Product/Division/Power/Abs/Conj/Real/Imag, Indexed, IndexSum, ListTensor, ComponentTensor, Conditional and the conditions,
MinValue/MaxValue, math functions, Variable, Restricted, Grad, MultiIndex, Zero/ScalarValue/Identity/PermutationSymbol).
Contract:  e(x, mapping) == den(e) with the terminals valued by `mapping`, for all terminal values.
The real `evaluate` code is executed on z3-backed real-number proxies (field operations build terms, comparisons fork
paths, all paths explored), so the result is an SMT term compared with the spec for ALL values.  Code that calls math.* / float()
cannot take proxies: those expressions are evaluated at random rational points instead (bounded, labelled bounded).
"""
from __future__ import annotations

import math
import random
from fractions import Fraction

import z3

import ufl
import ufl.classes as C
from ufl import (as_vector, conditional, cos, det, div, dot, exp, grad, inner, ln, lt, gt, max_value, min_value, sin, sqrt, tr, variable, inv,
                 atan2, erf, tanh, outer, cross, eq, ne, And, Or, Not, le, ge, sign, cosh)
from ufl.core.multiindex import Index

from ufv import corpus
from ufv import num as N
from ufv.core import bounded_ok, proved, undecided, violated
from ufv.den import World, den
from ufv.smt import _is_zero_term, check_formula
from ufv.symx import SymReal, explore
from ufv.terms import atoms_hook

LEVEL = "other"
TECHNIQUE = ("the real evaluate() methods executed path-exhaustively on z3 real-number proxies placed in the terminal mapping; result "
             "term == den(e) under each path condition, for all values (z3 / polynomial normaliser); expressions whose evaluation calls "
             "math.* are compared at random rational points (bounded)")
LEVEL_TEXT = "All-values proofs for algebraic/index/conditional expressions of the corpus; numeric (bounded) for elementary functions and coordinates."
LEVEL_NOTE = "Trusted: ufv/den.py, SymReal proxy fidelity (ufv/symx.py), z3. Corpus finite; real values."
TRUSTED = ["ufv/den.py", "ufv/symx.py SymReal proxies", "z3, ufv/alg.py"]
ASSUMPTIONS = ["finite corpus", "real-valued mappings", "numeric fallback: 6 random rational points, relative tolerance 1e-9 (machine arithmetic treated as mathematical)"]
EXPLANATION = ("Calling an expression on a point with a terminal mapping returns den(e): proved for all terminal values where the "
               "evaluation code is arithmetic only, sampled where it goes through math.*.")


def nested(shape, leaf):
    if not shape:
        return leaf(())

    def rec(prefix, sh):
        if not sh:
            return leaf(prefix)
        return tuple(rec(prefix + (k,), sh[1:]) for k in range(sh[0]))
    return rec((), shape)


def sym_name(term, comp, der=()):
    base = f"w{term.count()}" if isinstance(term, C.Coefficient) else f"c{term.count()}"
    s = f"{base}[{','.join(map(str, comp))}|]"
    if der:
        s += "," + "".join(f"x{d}" for d in sorted(der))
    return s


def build(run):
    import ufl.exproperators as XO
    for f in (XO._eval, XO._call, C.Terminal.evaluate, C.Sum.evaluate, C.Product.evaluate, C.Division.evaluate, C.Power.evaluate, C.Abs.evaluate,
              C.Indexed.evaluate, C.IndexSum.evaluate, C.ListTensor.evaluate, C.ComponentTensor.evaluate, C.Conditional.evaluate, C.MinValue.evaluate,
              C.MaxValue.evaluate, C.MathFunction.evaluate, C.Variable.evaluate, C.Grad.evaluate, C.MultiIndex.evaluate, C.Zero.evaluate,
              C.ScalarValue.evaluate, C.Identity.evaluate, C.LT.evaluate, C.EQ.evaluate, C.AndCondition.evaluate, C.NotCondition.evaluate,
              C.Restricted.evaluate, C.Conj.evaluate, C.Real.evaluate, C.Imag.evaluate, C.Atan2.evaluate, C.SpatialCoordinate.evaluate):
        run.function(f)
    t = corpus.terminals()
    f, g, u, v, A, B = t["f"], t["g"], t["u"], t["v"], t["A"], t["B"]
    c0 = ufl.Constant(t["msh"])
    x = ufl.SpatialCoordinate(t["msh"])
    i, j = Index(), Index()
    t3 = corpus.terminals("tetrahedron")
    f3, g3, u3, v3, A3 = t3["f"], t3["g"], t3["u"], t3["v"], t3["A"]
    terms = [f, g, u, v, A, B, c0, f3, g3, u3, v3, A3]

    def gdim_of(e):
        try:
            return ufl.domain.extract_unique_domain(e).geometric_dimension
        except Exception:  # noqa: BLE001
            return 2
    extra = [
        ("sum/product/div", (f + g) * f / (1 + g * g)), ("power int", f ** 3 - g ** 2), ("abs", abs(f) * g), ("conditional lt", conditional(lt(f, g), f * f, g)),
        ("conditional and/or/not", conditional(And(lt(f, g), Not(Or(gt(f, 1), le(g, 0)))), f, g * f)), ("conditional eq/ne", conditional(eq(f, g), f, conditional(ne(f, 2), g, 1))),
        ("min max", max_value(f, g) * min_value(f, 2 * g)), ("sign", sign(f) * g), ("ge", conditional(ge(f, g), 1, f)),
        ("inner", inner(u, v)), ("dot A u", dot(A, u)[0]), ("det", det(A)), ("tr(A*B)", tr(A * B)), ("outer", outer(u, v)[0, 1]), ("inv", inv(A)[0, 1]),
        ("dot(grad f, u)", dot(grad(f), u)), ("div u", div(u)), ("grad grad", grad(grad(f))[0, 1] * g), ("grad(f*g)", grad(f * g)[1]),
        ("variable", variable(f * g) * f), ("restricted", (f * g)("+")), ("constant", c0 * f + 2.5), ("literals", 3 * f - 0.25 * g + 7),
        ("vector component", as_vector([f, g * f])[1]), ("identity contraction", C.Identity(2)[i, j] * A[i, j]), ("matrix vector", (A * u)[1]),
        ("transpose", A.T[0, 1]), ("float power", f ** 2.0),
        # every compound tensor operator of the language, on the 2x2 tensors of the corpus and on 3x3 matrices assembled from them
        ("dev 2x2 [0,0]", ufl.dev(A)[0, 0]), ("dev 2x2 [0,1]", ufl.dev(A)[0, 1]), ("tr(dev 2x2)", tr(ufl.dev(A))), ("skew", ufl.skew(A)[0, 1]), ("sym", ufl.sym(A)[1, 0]),
        ("cofac 2x2", ufl.cofac(A)[0, 1]), ("perp", ufl.perp(u)[0] * v[1]), ("inner(A,B)", inner(A, B)), ("dot(A,B)", dot(A, B)[1, 0]), ("tr", tr(A)),
        ("det 3x3", det(ufl.as_matrix([[f, g, 1], [u[0], u[1], g], [2, f, v[0]]]))), ("dev 3x3 [1,1]", ufl.dev(ufl.as_matrix([[f, g, 1], [u[0], u[1], g], [2, f, v[0]]]))[1, 1]),
        ("cofac 3x3 [0,1]", ufl.cofac(ufl.as_matrix([[f, g, 1], [u[0], u[1], g], [2, f, v[0]]]))[0, 1]),
        ("cross", cross(as_vector([f, g, 1]), as_vector([g, f, 2]))[0]), ("nabla_grad", ufl.nabla_grad(u)[0, 1]), ("nabla_div", ufl.nabla_div(u)), ("curl 2d", ufl.curl(u)),
        # a component of a tensor-valued conditional (the condition is scalar, the branches are not)
        ("component of a vector-valued conditional", conditional(gt(f, 0), u, v)[1]), ("component of a matrix-valued conditional", conditional(lt(f, g), A, B)[0, 1] * g),
        ("vector-valued conditional contracted", conditional(gt(f, g), u, v)[i] * u[i]),
        # tensor-valued expressions evaluated with an explicit component argument: e(x, mapping, component)
        ("tensor-valued: x", x), ("tensor-valued: 2*u", 2 * u), ("tensor-valued: u + v", u + v), ("tensor-valued: as_vector([f*g, f+g])", as_vector([f * g, f + g])),
        ("tensor-valued: outer(u, v)", outer(u, v)), ("tensor-valued: grad(f)", grad(f)), ("tensor-valued: A*u", A * u), ("tensor-valued: A.T", A.T),
        ("tensor-valued: conditional(f > 0, u, v)", conditional(gt(f, 0), u, v)), ("tensor-valued: grad(u)", grad(u)), ("tensor-valued: A", A),
        # index scoping at evaluation: the axis index of a component tensor is also the summation index of an enclosing contraction (and of a second component tensor):
        # the binding made while a component is evaluated must not outlive it (round-11 seed c24-k)
        ("index scope: (u[i]*C[1])*v[i], C = as_tensor(2*v[i] + f*u[i], i)", (u[i] * ufl.as_tensor(2 * v[i] + f * u[i], i)[1]) * v[i]),
        ("index scope: C[0]*(u[i]*v[i])", ufl.as_tensor(2 * v[i] + f * u[i], i)[0] * (u[i] * v[i])),
        ("index scope: (u[i]*v[i])*C[1] + C[0]*u[i]*u[i]", (u[i] * v[i]) * ufl.as_tensor(g * v[i] - u[i], i)[1] + ufl.as_tensor(g * v[i] - u[i], i)[0] * u[i] * u[i]),
        ("index scope: A[i,j]*C[j]*D[1]*u[i], C, D over i", A[i, j] * ufl.as_tensor(f * u[i] + v[i], i)[j] * ufl.as_tensor(u[i] * g + v[i], i)[1] * u[i]),
        ("index scope: matrix component tensor over (i,j) inside sums over i and j", ufl.as_tensor(A[i, j] + B[j, i] * f, (i, j))[0, 1] * A[i, j] * B[i, j]),
        # three space dimensions (fields on a tetrahedron mesh)
        ("curl 3d [0]", ufl.curl(u3)[0]), ("curl 3d [1]", ufl.curl(u3)[1]), ("curl 3d [2]", ufl.curl(u3)[2]), ("curl(f3*u3) . v3", dot(ufl.curl(f3 * u3), v3)),
        ("div 3d", div(u3 * f3)), ("grad 3d [2]", grad(f3 * g3)[2]), ("cross 3d", cross(u3, v3)[1]), ("det 3x3 coefficient", det(A3)), ("cofac 3x3 coefficient [2,0]", ufl.cofac(A3)[2, 0]),
        ("dev 3x3 coefficient [0,0]", ufl.dev(A3)[0, 0]), ("inv 3x3 coefficient [1,2]", inv(A3)[1, 2]), ("rot 3d of grad", ufl.rot(grad(f3) * g3)[1]),
    ]
    math_exprs = [
        ("sqrt", sqrt(1 + f * f)), ("exp ln", exp(f) * ln(1 + g * g)), ("sin cos", sin(f) * cos(g)), ("tanh cosh", tanh(f) + cosh(g)), ("atan2", atan2(f, 1 + g * g)),
        ("erf", erf(f)), ("real power", (1 + f * f) ** 0.5), ("f**g", (1 + f * f) ** g), ("coordinate", x[0] * f + x[1]), ("grad(sin f)", grad(sin(f))[0]),
        # spatial derivatives of every elementary function (evaluation expands the derivative first: each differentiation rule is exercised)
        ("grad(tanh f)", grad(tanh(f))[0]), ("grad(cosh f)", grad(cosh(f))[1]), ("grad(sinh f)", grad(ufl.sinh(f))[0]), ("grad(cos f)", grad(cos(f))[1]),
        ("grad(tan f)", grad(ufl.tan(f * 0.25))[0]), ("grad(exp f)", grad(exp(f))[0]), ("grad(ln(1+f^2))", grad(ln(1 + f * f))[1]), ("grad(sqrt(1+f^2))", grad(sqrt(1 + f * f))[0]),
        ("grad(atan f)", grad(ufl.atan(f))[1]), ("grad(asin)", grad(ufl.asin(f / sqrt(2 + f * f)))[0]), ("grad(acos)", grad(ufl.acos(f / sqrt(2 + f * f)))[0]),
        ("grad(erf f)", grad(erf(f))[1]), ("grad(atan2)", grad(atan2(f, 1 + g * g))[0]), ("(tanh(f g)).dx(1)", tanh(f * g).dx(1)), ("div(tanh(f) u)", div(tanh(f) * u)),
        ("d tanh(w)/dw of a variable", (lambda w_: ufl.diff(tanh(w_) * w_, w_))(variable(f))), ("d cosh(w) sinh(w)/dw", (lambda w_: ufl.diff(cosh(w_) * ufl.sinh(w_), w_))(variable(g))),
        ("sqrt of sum", sqrt(u[i] * u[i] + 1) * g), ("cross", cross(as_vector([f, g, 1]), as_vector([g, f, 2]))[2] + sqrt(1 + f * f)),
    ]

    SPEC_OF = {"restricted": f * g}     # point evaluation has a single value per terminal: a restriction evaluates its operand

    def mapping_sym():
        m = {}
        for tm in terms:
            sh = tm.ufl_shape

            def fn(xx, der=(), tm=tm, sh=sh):
                return nested(sh, lambda c: SymReal(sym_name(tm, c, der)))
            m[tm] = fn
        return m

    def spec_world(symbolic, valuation):
        w = World(symbolic=symbolic, complex_mode=False, valuation=valuation)
        w.terminal_hook = atoms_hook
        return w

    def sym_ob(name, e):
        def thunk():
            comps = [()]
            if e.ufl_shape:
                import itertools
                comps = list(itertools.product(*[range(s) for s in e.ufl_shape]))
            nv = 0
            for c in comps:
                def fn():
                    pt = tuple(SymReal(f"x[{d_}|]") for d_ in range(gdim_of(e)))
                    return e(pt, mapping_sym(), c) if c else e(pt, mapping_sym())
                paths, complete = explore(fn, lambda: ())
                if not complete:
                    return undecided(f"{name}: path cap")
                w = spec_world(True, None)
                spec = den(w, SPEC_OF.get(name, e), c, {})
                for p in paths:
                    if p.kind == "exc":
                        if isinstance(p.value, TypeError):
                            return None     # needs the numeric fallback
                        return violated(f"{name}: evaluation raised {type(p.value).__name__}: {p.value}", reproduced=True, replay={"expr": str(e)})
                    got = p.value.t if isinstance(p.value, SymReal) else z3.RealVal(str(Fraction(p.value).limit_denominator(10 ** 9))) \
                        if isinstance(p.value, (int, float)) else None
                    if got is None:
                        return undecided(f"{name}: evaluation returned {type(p.value).__name__}")
                    diff = got - N.base_value(spec) if N.is_z3(N.base_value(spec)) else got - z3.RealVal(str(N.base_value(spec)))
                    nv += 1
                    if _is_zero_term(diff):
                        continue
                    vd = check_formula(list(p.pc) + list(w.axioms) + list(w.side), diff == 0, 20000)
                    if vd.status == "proved":
                        continue
                    if vd.status == "refuted":
                        return violated(f"{name}: e(x, mapping) differs from the mathematical value at {vd.model} (path {[str(q) for q in p.pc]})",
                                        replay={"expr": str(e), "component": list(c), "model": vd.model, "got": str(got)[:300], "spec": str(spec)[:300]},
                                        reproduced=True, backend="z3")
                    return undecided(f"{name}: z3 unknown")
            return proved("z3(path-exhaustive)", vcs=nv, sample=f"{name}: {nv} path VCs, e(x, mapping) == den(e)")
        return thunk

    def num_ob(name, e, npoints=6):
        def thunk():
            rnd = random.Random(20240 + len(name))
            import itertools
            comps = list(itertools.product(*[range(s) for s in e.ufl_shape])) if e.ufl_shape else [()]
            n = 0
            for _ in range(npoints):
                vals = {}

                def val(nm):
                    if nm not in vals:
                        vals[nm] = Fraction(rnd.randint(-8, 8), rnd.randint(1, 4))
                    return vals[nm]
                m = {}
                for tm in terms:
                    def fn(xx, der=(), tm=tm):
                        return nested(tm.ufl_shape, lambda c: float(val(sym_name(tm, c, der))))
                    m[tm] = fn
                xs = tuple(float(val(f"x[{d_}|]")) for d_ in range(gdim_of(e)))
                w = spec_world(False, val)
                for c in comps:
                    try:
                        got = e(xs, m, c) if c else e(xs, m)
                        spec = float(N.base_value(den(w, e, c, {})))
                    except (ValueError, ZeroDivisionError, OverflowError):
                        continue
                    except (TypeError, IndexError, KeyError, AttributeError) as ex:
                        from ufv.core import crash_text, deliberate
                        if deliberate(ex):
                            continue
                        return violated(f"{name}: point evaluation crashed instead of returning a value: {crash_text(ex)}",
                                        replay={"expr": str(e), "component": list(c), "point": {k: str(q) for k, q in vals.items()}}, reproduced=True, backend="exec")
                    n += 1
                    if abs(complex(got) - spec) > 1e-9 * max(1.0, abs(spec)):
                        return violated(f"{name}: e(x, mapping) = {got} but the mathematical value is {spec} at {dict((k, str(q)) for k, q in vals.items())}",
                                        replay={"expr": str(e), "component": list(c), "point": {k: str(q) for k, q in vals.items()}, "got": str(got),
                                                "spec": str(spec)}, reproduced=True, backend="numeric")
            if n == 0:
                return undecided(f"{name}: no admissible sample point")
            return bounded_ok(n, f"{npoints} random rational points, relative tolerance 1e-9", sample=f"{name}: numeric comparison")
        return thunk

    allx = [(n_, e_) for n_, e_ in corpus.closed(t)] + extra
    for nm, e in allx:
        def both(nm=nm, e=e):
            r = sym_ob(nm, e)()
            if r is None:
                r = num_ob(nm, e)()
            return r
        run.add(f"evaluate/{nm}", both, kind="values")
    for nm, e in math_exprs:
        run.add(f"evaluate-numeric/{nm}", num_ob(nm, e), kind="bounded")

    # ---- language operators that are BUILT from conditionals / comparisons (sign, max_value, min_value, abs, the six comparisons and the
    # logical connectives): their point values against the mathematical definition written here, independently of how the library constructs
    # them (a spec taken from the constructed expression cannot see a construction that is itself wrong, e.g. at ties or at zero).
    def operator_definitions():
        F, G = z3.Real(sym_name(f, ())), z3.Real(sym_name(g, ()))
        ite, one, zero = z3.If, z3.RealVal(1), z3.RealVal(0)
        sgn = lambda T: ite(T > 0, one, ite(T < 0, -one, zero))     # noqa: E731
        cases = [
            ("sign(f)", lambda: sign(f), sgn(F)), ("sign(f - g)", lambda: sign(f - g), sgn(F - G)), ("g*sign(f*g)", lambda: g * sign(f * g), G * sgn(F * G)),
            ("3 + 2*sign(f)", lambda: 3 + 2 * sign(f), 3 + 2 * sgn(F)), ("sign(-f)", lambda: sign(-f), -sgn(F)),
            ("max_value(f, g)", lambda: max_value(f, g), ite(F >= G, F, G)), ("min_value(f, g)", lambda: min_value(f, g), ite(F <= G, F, G)),
            ("max_value(f, 0)", lambda: max_value(f, 0), ite(F >= 0, F, zero)), ("min_value(0, f)", lambda: min_value(0, f), ite(F <= 0, F, zero)),
            ("abs(f)", lambda: abs(f), ite(F >= 0, F, -F)), ("abs(f - g)", lambda: abs(f - g), ite(F >= G, F - G, G - F)),
            ("f >= g", lambda: conditional(ge(f, g), 1, 0), ite(F >= G, one, zero)), ("f > g", lambda: conditional(gt(f, g), 1, 0), ite(F > G, one, zero)),
            ("f <= g", lambda: conditional(le(f, g), 1, 0), ite(F <= G, one, zero)), ("f < g", lambda: conditional(lt(f, g), 1, 0), ite(F < G, one, zero)),
            ("f == g", lambda: conditional(eq(f, g), 1, 0), ite(F == G, one, zero)), ("f != g", lambda: conditional(ne(f, g), 1, 0), ite(F != G, one, zero)),
            ("overloaded f >= g", lambda: conditional(f >= g, 1, 0), ite(F >= G, one, zero)), ("overloaded f > g", lambda: conditional(f > g, 1, 0), ite(F > G, one, zero)),
            ("overloaded f <= g", lambda: conditional(f <= g, 1, 0), ite(F <= G, one, zero)), ("overloaded f < g", lambda: conditional(f < g, 1, 0), ite(F < G, one, zero)),
            ("f >= 2 (literal)", lambda: conditional(ge(f, 2), 1, 0), ite(F >= 2, one, zero)), ("2 >= f (literal)", lambda: conditional(ge(2, f), 1, 0), ite(F <= 2, one, zero)),
            ("And", lambda: conditional(And(ge(f, 0), le(f, g)), 1, 0), ite(z3.And(F >= 0, F <= G), one, zero)),
            ("Or", lambda: conditional(Or(gt(f, 0), ge(g, f)), 1, 0), ite(z3.Or(F > 0, G >= F), one, zero)),
            ("Not", lambda: conditional(Not(ge(f, g)), 1, 0), ite(F < G, one, zero)),
            ("conditional(f >= g, f, g) - max", lambda: conditional(ge(f, g), f, g) - max_value(g, f), zero),
        ]
        nv = 0
        for nm_, mk_, spec in cases:
            e_ = mk_()

            def fn(e_=e_):
                return e_((SymReal("x[0|]"), SymReal("x[1|]")), mapping_sym())
            paths, complete = explore(fn, lambda: ())
            if not complete:
                return undecided(f"{nm_}: path cap")
            for p in paths:
                if p.kind == "exc":
                    return violated(f"{nm_}: evaluation raised {type(p.value).__name__}: {p.value}", reproduced=True, replay={"expr": str(e_)})
                got = p.value.t if isinstance(p.value, SymReal) else z3.RealVal(str(Fraction(p.value).limit_denominator(10 ** 9)))
                nv += 1
                vd = check_formula(list(p.pc), got == spec, 20000)
                if vd.status == "proved":
                    continue
                if vd.status == "refuted":
                    return violated(f"{nm_}: the point value of {e_} differs from the mathematical definition at {vd.model} (evaluation gives {z3.simplify(got)} on the path {[str(q) for q in p.pc]})",
                                    replay={"expr": str(e_), "model": vd.model, "got": str(got)[:300], "spec": str(spec)[:300]}, reproduced=True, backend="z3")
                return undecided(f"{nm_}: z3 unknown")
        # concrete boundary values as well (ints, floats, negative zero), through the real float path
        conc = 0
        for nm_, mk_, want in [("sign", lambda: sign(f), lambda a, b: (a > 0) - (a < 0)), ("sign(f-g)", lambda: sign(f - g), lambda a, b: (a > b) - (a < b)),
                               ("ge", lambda: conditional(ge(f, g), 1, 0), lambda a, b: int(a >= b)), ("le", lambda: conditional(le(f, g), 1, 0), lambda a, b: int(a <= b)),
                               ("gt", lambda: conditional(gt(f, g), 1, 0), lambda a, b: int(a > b)), ("lt", lambda: conditional(lt(f, g), 1, 0), lambda a, b: int(a < b)),
                               ("eq", lambda: conditional(eq(f, g), 1, 0), lambda a, b: int(a == b)), ("ne", lambda: conditional(ne(f, g), 1, 0), lambda a, b: int(a != b)),
                               ("max", lambda: max_value(f, g), lambda a, b: max(a, b)), ("min", lambda: min_value(f, g), lambda a, b: min(a, b)), ("abs", lambda: abs(f), lambda a, b: abs(a))]:
            e_ = mk_()
            for a_ in (0, 0.0, -0.0, 1.5, -1.5, 2, -2):
                for b_ in (0, 0.0, 1.5, -1.5, 2):
                    got = e_((0.3, 0.7), {f: a_, g: b_})
                    conc += 1
                    if got != want(a_, b_):
                        return violated(f"{nm_}: {e_} evaluates to {got} with f={a_!r}, g={b_!r}; the mathematical value is {want(a_, b_)}",
                                        replay={"expr": str(e_), "f": repr(a_), "g": repr(b_)}, reproduced=True, backend="exec")
        return proved("z3(path-exhaustive)", vcs=nv, sample=f"{len(cases)} operators against their definitions on all paths ({nv} VCs) and {conc} concrete boundary evaluations")
    run.add("operators/comparison-built-operators-have-their-mathematical-point-values", operator_definitions, kind="values")

    # ---- one-dimensional domains: a point may be given as a plain number; every expression over the coordinate evaluates there as at the 1-tuple
    def scalar_points():
        import ufv.elements as E_
        m1 = ufl.Mesh(E_.LagrangeElement(ufl.interval, 1, (1,)))
        x1 = ufl.SpatialCoordinate(m1)
        h1 = ufl.Coefficient(ufl.FunctionSpace(m1, E_.LagrangeElement(ufl.interval, 2)))
        cases = {"x": lambda: x1, "x[0]": lambda: x1[0], "sin(x[0])": lambda: sin(x1[0]), "x[0]**2 + 3*x[0]": lambda: x1[0] ** 2 + 3 * x1[0], "h*x[0]": lambda: h1 * x1[0],
                 "conditional(x[0] < 1/2, x[0], 1 - x[0])": lambda: conditional(lt(x1[0], 0.5), x1[0], 1 - x1[0]), "as_vector([x[0], 2*x[0]])[1]": lambda: as_vector([x1[0], 2 * x1[0]])[1]}
        n = 0
        for nm_, mk_ in cases.items():
            e_ = mk_()
            for pt in (0.3, 0.0, 1.0, -2.5):
                args = (({h1: 2.0},) if "h" in nm_ else ({},))
                comp = ((0,),) if e_.ufl_shape else ()
                try:
                    want = e_((pt,), *args, *comp)
                except Exception:  # noqa: BLE001
                    continue
                n += 1
                try:
                    got = e_(pt, *args, *comp)
                except (TypeError, IndexError, KeyError, AttributeError) as ex:
                    from ufv.core import crash_text
                    return violated(f"{nm_} on an interval mesh evaluates at the point ({pt},) but fails at the same point given as the number {pt}: {crash_text(ex)}",
                                    replay={"expr": nm_, "point": pt}, reproduced=True, backend="exec")
                if got != want:
                    return violated(f"{nm_} on an interval mesh: value {got} at the number {pt}, {want} at the tuple ({pt},)", replay={"expr": nm_, "point": pt}, reproduced=True, backend="exec")
        return bounded_ok(n, "7 expressions over the coordinate of an interval mesh x 4 points, each given as a number and as a 1-tuple", sample="same value for both spellings of the point")
    run.add("evaluate/points-of-one-dimensional-domains-given-as-numbers", scalar_points, kind="bounded")

    # ---- guarded conditionals: the UNSELECTED branch is undefined at the point (division by zero, ln / sqrt of a negative number, a mapped callable
    # that raises).  Contract: e(x, mapping) is the value of the selected branch; evaluating must not touch the other branch.
    def guarded():
        def undefined_for_nonpositive(xx, der=()):
            if xx[0] <= 0:
                raise ValueError("mapped function undefined for x <= 0")
            return 3.0
        cases = [
            ("guarded division", lambda: x[1] + conditional(gt(x[0], 0), 1 / x[0], 0), (0.0, 7.0), {}, 7.0),
            ("guarded division (selected branch is the division)", lambda: conditional(gt(x[0], 0), 1 / x[0], 1 / (x[0] - 2)), (2.0, 1.0), {}, 0.5),
            ("guarded ln", lambda: conditional(lt(x[0], 1), x[1], ln(x[0] - 1)), (0.5, 7.0), {}, 7.0),
            ("sqrt of |x| through a conditional", lambda: conditional(ge(x[0], 0), sqrt(x[0]), sqrt(-x[0])), (-4.0, 7.0), {}, 2.0),
            ("guarded mapped callable", lambda: x[1] * conditional(gt(x[0], 0), f, -1.0), (-2.0, 7.0), {f: undefined_for_nonpositive}, -7.0),
            ("nested guards", lambda: conditional(gt(x[0], 0), conditional(gt(x[0], 1), ln(x[0] - 1), 5.0), 1 / x[0] if False else sqrt(-x[0])), (0.5, 0.0), {}, 5.0),
            ("guard inside min/max", lambda: max_value(conditional(gt(x[0], 0), 1 / x[0], 0.0), 0.25), (0.0, 0.0), {}, 0.25),
        ]
        n = 0
        for nm_, mk_, pt, mp, want in cases:
            e_ = mk_()
            try:
                got = e_(pt, dict(mp))
            except Exception as ex:  # noqa: BLE001
                return violated(f"{nm_}: evaluating {e_} at x={pt} raised {type(ex).__name__}({ex}) although the selected branch is defined there and has the value {want}",
                                replay={"expr": str(e_), "point": list(pt), "expected": want, "error": f"{type(ex).__name__}: {ex}"}, reproduced=True, backend="exec")
            n += 1
            if abs(complex(got) - want) > 1e-12:
                return violated(f"{nm_}: e(x) = {got}, selected branch gives {want}", replay={"expr": str(e_), "point": list(pt)}, reproduced=True, backend="exec")
        return bounded_ok(n, f"{n} guarded conditionals at points where the unselected branch is undefined", sample="the selected branch's value is returned, the other branch is not evaluated")
    run.add("evaluate-guarded/conditional-does-not-evaluate-the-unselected-branch", guarded, kind="bounded")

    def canary():
        e = f * g
        paths, _ = explore(lambda: e((SymReal("x[0|]"), SymReal("x[1|]")), mapping_sym()), lambda: ())
        w = spec_world(True, None)
        spec = den(w, f + g)
        if not _is_zero_term(paths[0].value.t - N.base_value(spec)):
            return violated("canary refuted", reproduced=True)
        return proved("canary")
    run.add("canary/product-vs-sum", canary, kind="canary")
