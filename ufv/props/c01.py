"""C01 — form preprocessing preserves the meaning of every integral.

Functions under contract: compute_form_data, preprocess_form, attach_estimated_degrees, compute_integrand_scaling_factor,
apply_integral_scaling (incl. scale_coordinate_derivative), FormData.__init__ (integrand rewriting blocks), and -- through their own
properties -- every pass they call (C06 algebra lowering, C23 complex nodes, C02-C04 derivatives, C15 grouping, C08 pullbacks, C07 geometry
lowering, C09 jacobian cancellation, C10 component tensors, C17 restrictions, C21 replace).

Top-level postcondition (from the statement):  for every integral type, cell, subdomain id s
      sum den_ref(preprocessed integrands at s)  ==  scale(integral type, cell) * sum den_phys(original integrands that apply at s)
where den_phys evaluates with physical data and den_ref with reference-frame data in ONE world that relates them:
   geometry          symbolic affine simplex (vertex coordinates are symbols; ufv/geom.py), J, K = J^-1 (pseudo-inverse on manifolds), detJ from it;
   form arguments    physical f := textbook push-forward of the reference value rv_f (identity / Piola kinds / mixed), grad := K^T d/dX;
   scale             |detJ| qw (cell), detFJ qw (facets, '+' side for interior facets), detEJ qw (ridges), 1 (points), qw (custom) when
                     do_apply_integral_scaling, else 1;  high-level geometric quantities on the spec side are evaluated through their
                     lowering, whose correctness is C07's contract (assume-guarantee).
Obligations
  (A) compute_integrand_scaling_factor == the table above for every integral type x cell, for all values (proof);
      apply_integral_scaling multiplies exactly once, inside coordinate derivatives, and adds the scale degree to the estimate;
  (B) pipeline (AST of compute_form_data / preprocess_form / FormData.__init__): every statement rebinding the form calls a pass with a
      contract, in an order satisfying each pass's precondition (proof on the AST);
  (C) end-to-end: a corpus of forms x option combinations x cells, the equation above discharged for all values per form (bounded corpus).
"""
from __future__ import annotations

import ast
import inspect
import itertools
import textwrap
import warnings

import ufl
import ufl.classes as C
from ufl import (Coefficient, Constant, FunctionSpace, Measure, Mesh, TestFunction, TestFunctions, TrialFunction, TrialFunctions, as_tensor, as_vector, avg, conditional,
                 derivative, det, diff, div, dot, dS, ds, dx, exp, grad, inner, inv, jump, lt, sin, sym, tr, variable, CellVolume, FacetNormal, SpatialCoordinate)
from ufl.algorithms import compute_form_data as CFD
from ufl.algorithms.apply_geometry_lowering import apply_geometry_lowering
from ufl.algorithms.apply_integral_scaling import apply_integral_scaling, compute_integrand_scaling_factor
from ufl.algorithms.compute_form_data import attach_estimated_degrees, compute_form_data, preprocess_form
from ufl.algorithms.formdata import FormData
from ufl.core.multiindex import Index
from ufl.pullback import (contravariant_piola, covariant_piola, covariant_contravariant_piola, double_contravariant_piola, double_covariant_piola,
                          identity_pullback, l2_piola)
from ufl.sobolevspace import H1, HCurl, HDiv, HDivDiv, HEin, L2

from ufv import elements as E
from ufv import num as N
from ufv import sigforms as S
from ufv.core import bounded_ok, crash_text, deliberate, proved, undecided, violated
from ufv.den import World, den, leibniz_det, _cofactor
from ufv.geom import TDIM, CellModel
from ufv.smt import prove_equal

LEVEL = "other"
TECHNIQUE = ("top-level contract 'preprocessed integrand (reference data) == scale * original integrand (physical data)' in one symbolic world "
             "relating physical and reference data (affine simplex from symbolic vertices, push-forwards, K^T d/dX): scaling-factor VCs for every "
             "integral type x cell (all values), AST obligations on the pass pipeline, and the end-to-end equation discharged for all values "
             "on a corpus of forms x option combinations (bounded corpus)")
LEVEL_TEXT = "Scaling factors and the pipeline order are decided for all inputs; the end-to-end equation for all values per form of a finite corpus x option sets."
LEVEL_NOTE = ("Trusted: ufv/den.py, ufv/geom.py, push-forward formulas; high-level geometric quantities on the spec side go through UFL's lowering (C07's "
              "contract); real mode; affine simplex cells.")
TRUSTED = ["ufv/den.py", "ufv/geom.py", "push-forward formulas (this file, as in C08)", "z3 / exact normaliser (ufv/alg.py)", "C07 contract for geometric quantities on the spec side"]
ASSUMPTIONS = ["affine simplex cells: interval, triangle, tetrahedron, triangle in 3D", "real mode", "corpus of forms finite; option combinations: covering set (quick) / all valid (thorough)",
               "interior facets: both sides use the same local facet number", "identity, contravariant/covariant Piola, L2 and mixed elements"]
EXPLANATION = ("compute_form_data's integrals integrate scale x the original integrand with physical data replaced by reference data, for all "
               "values of the reference data and all cells of the listed shapes; the scale factors and the pass order are as required.")

FLAGS = ["do_apply_function_pullbacks", "do_apply_integral_scaling", "do_apply_geometry_lowering", "do_cancel_jacobian_products", "do_apply_default_restrictions",
         "do_apply_restrictions", "do_estimate_degrees", "do_append_everywhere_integrals", "do_replace_functions", "do_remove_component_tensors"]


# ------------------------------------------------------------------------------------------------- unified world
def tname(f):
    if isinstance(f, C.Argument):
        p = f.part()
        return f"v{f.number()}" + (f"p{p}" if p is not None else "")
    return f"w{f.count()}"


def kind_of(element):
    pb = element.pullback
    n = type(pb).__name__
    return {"IdentityPullback": "identity", "ContravariantPiola": "contra", "CovariantPiola": "cov", "L2Piola": "l2", "MixedPullback": "mixed",
            "SymmetricPullback": "symmetric", "DoubleContravariantPiola": "dcontra", "DoubleCovariantPiola": "dcov",
            "CovariantContravariantPiola": "covcontra"}.get(n, n)


def size(shape):
    n = 1
    for s in shape:
        n *= s
    return n


def unflat(i, shape):
    out = []
    for s in reversed(shape):
        out.append(i % s)
        i //= s
    return tuple(reversed(out))


def flat(c, shape):
    k = 0
    for x, s in zip(c, shape):
        k = k * s + x
    return k


class SharedFacetCell(CellModel):
    """Two cells sharing a facet (interior facet integrals): the vertices of the shared facet are the same points seen from both sides;
    only the vertex opposite to the facet differs.  (Same local facet number and vertex order on both sides: stated assumption.)"""

    def vtx(self, w, v, i):
        shared = w.two_sided and self.facet is not None and v != self.facet
        return w.symbol("vtx", (v, i), real=True, side_dependent=not shared)


class Unified:
    def __init__(self, cellname, gdim, facet=None, pullbacks=False, inv_replace=None):
        self.cm = SharedFacetCell(cellname, gdim, facet=facet, ridge=0)
        self.t, self.g = TDIM[cellname], gdim
        self.pullbacks = pullbacks
        self.inv = inv_replace or {}
        self._lowered = {}
        self.directions = set()

    def vb(self, w, v, i):
        # layer-aware: constant under spatial layers ("vtx" is in spatial_const) but varied by the shape-derivative layer
        return self.cm.vtx(w, v, i)

    def Jb(self, w, i, j):
        return N.sub(self.vb(w, j + 1, i), self.vb(w, 0, i))

    def Kb(self, w, j, i):
        t, g = self.t, self.g
        if t == g:
            M = lambda a, b: self.Jb(w, a, b)  # noqa: E731
            d = leibniz_det(M, t)
            w.require(N.cmp("!=", d, 0))
            return N.div(_cofactor(M, t, i, j), d)

        def G(r, c):
            tot = 0
            for q in range(g):
                tot = N.add(tot, N.mul(self.Jb(w, q, r), self.Jb(w, q, c)))
            return tot
        d = leibniz_det(G, t)
        w.require(N.cmp("!=", d, 0))
        tot = 0
        for q in range(t):
            tot = N.add(tot, N.mul(N.div(_cofactor(G, t, q, j), d), self.Jb(w, i, q)))
        return tot

    def detJb(self, w):
        if self.t != self.g:
            raise N.Unsupported("Piola map on a manifold")
        d = leibniz_det(lambda a, b: self.Jb(w, a, b), self.t)
        w.require(N.cmp("!=", d, 0))
        return d

    def push(self, w, element, R, comp):
        """physical component `comp` of the push-forward of reference components R(flat index)"""
        k = kind_of(element)
        t, g = self.t, self.g
        rshape = element.reference_value_shape
        if k == "identity":
            return R(flat(comp, rshape) if rshape else 0)
        if k == "l2":
            return N.div(R(flat(comp, rshape) if rshape else 0), self.detJb(w))
        if k in ("contra", "cov"):
            lead, i = comp[:-1], comp[-1]
            tot = 0
            for j in range(t):
                r = R(flat(lead + (j,), rshape))
                tot = N.add(tot, N.mul(self.Jb(w, i, j) if k == "contra" else self.Kb(w, j, i), r))
            return N.div(tot, self.detJb(w)) if k == "contra" else tot
        if k in ("dcontra", "dcov", "covcontra"):
            lead, i, j = comp[:-2], comp[-2], comp[-1]
            tot = 0
            for m_ in range(t):
                for n_ in range(t):
                    r = R(flat(lead + (m_, n_), rshape))
                    if k == "dcontra":
                        tot = N.add(tot, N.mul(N.mul(self.Jb(w, i, m_), r), self.Jb(w, j, n_)))
                    elif k == "dcov":
                        tot = N.add(tot, N.mul(N.mul(self.Kb(w, m_, i), r), self.Kb(w, n_, j)))
                    else:
                        tot = N.add(tot, N.mul(N.mul(self.Kb(w, m_, i), r), self.Jb(w, j, n_)))
            if k == "dcontra":
                d_ = self.detJb(w)
                return N.div(tot, N.mul(d_, d_))
            if k == "covcontra":
                return N.div(tot, self.detJb(w))
            return tot
        if k == "mixed":
            (pc,) = comp
            ro = po = 0
            for sub in element.sub_elements:
                psh = sub.pullback.physical_value_shape(sub, _FakeDomain(self.g, self.t))
                rs, ps = size(sub.reference_value_shape), size(psh)
                if po <= pc < po + ps:
                    return self.push(w, sub, lambda q, ro=ro: R(ro + q), unflat(pc - po, psh))
                ro += rs
                po += ps
            raise AssertionError("component out of range")
        raise N.Unsupported(f"push-forward kind {k}")

    def direction_value(self, w, V, comp):
        """A direction of a shape derivative lives in the (affine, P1 vector) coordinate space: V(X) = V_0 + sum_j X_j (V_{j+1} - V_0), V_v nodal values"""
        nm = "dvtx_" + tname(V)
        w.spatial_const.add(nm)
        (i,) = comp
        v0 = w.symbol(nm, (0, i), real=True)
        tot = v0
        for j in range(self.t):
            tot = N.add(tot, N.mul(self.cm.X(w, j), N.sub(w.symbol(nm, (j + 1, i), real=True), v0)))
        return tot

    def op_hook(self, w, e, comp, env):
        if isinstance(e, C.CoordinateDerivative):
            inner_, xs, vs, cd = e.ufl_operands
            if len(xs.ufl_operands) != 1 or not isinstance(xs.ufl_operands[0], C.SpatialCoordinate) or len(cd.ufl_operands) != 0:
                raise N.Unsupported("coordinate derivative w.r.t. something other than one SpatialCoordinate")
            V = vs.ufl_operands[0]
            V = V.ufl_operands[0] if isinstance(V, C.ReferenceValue) else V
            V = self.inv.get(V, V)
            if not isinstance(V, (C.Coefficient, C.Argument)) or V.ufl_shape != (self.g,):
                raise N.Unsupported("direction of a shape derivative must be a vector field in the coordinate space")
            self.directions.add(V)
            nm = "dvtx_" + tname(V)

            def seed(desc, world, nm=nm):
                name, c_, idx, dirs = desc
                from ufv.den import split_side
                base, sfx = split_side(name)
                return (nm + sfx, c_, idx, dirs)
            from ufv.den import GateauxLayer
            return w.derive(GateauxLayer({"vtx": seed}), lambda w2: den(w2, inner_, comp, env))
        return NotImplemented

    def hook(self, w, e, comp, env):
        if isinstance(e, C.ReferenceValue):
            f = e.ufl_operands[0]
            f = self.inv.get(f, f)
            if f in self.directions:
                return self.direction_value(w, f, comp)
            return w.symbol(f"rv_{tname(f)}", (flat(comp, e.ufl_shape) if e.ufl_shape else 0,))
        if isinstance(e, (C.Coefficient, C.Argument)):
            f = self.inv.get(e, e)
            if f in self.directions:
                return self.direction_value(w, f, comp)
            if self.pullbacks:
                el = f.ufl_element()
                return self.push(w, el, lambda q: w.symbol(f"rv_{tname(f)}", (q,)), comp)
            return w.symbol(tname(f), comp)
        if isinstance(e, C.Constant):
            w.spatial_const.add(f"c{e.count()}")
            return w.symbol(f"c{e.count()}", comp)
        if isinstance(e, C.QuadratureWeight):
            return w.symbol("qw", (), real=True, side_dependent=False)
        r = self.cm.hook(w, e, comp, env)
        if r is not NotImplemented:
            return r
        if isinstance(e, C.GeometricQuantity):
            key = (type(e).__name__,)
            low = self._lowered.get(key)
            if low is None:
                low = self._lowered[key] = apply_geometry_lowering(e)
            if low is e or isinstance(low, type(e)):
                raise N.Unsupported(f"geometric quantity {type(e).__name__} is not lowered")
            return den(w, low, comp, env)
        return NotImplemented

    def mk(self, two_sided=False):
        def f(symbolic, valuation):
            w = World(symbolic=symbolic, complex_mode=False, valuation=valuation, gdim=self.g)
            w.terminal_hook = self.hook
            w.operator_hook = self.op_hook
            w.spatial_const |= {"vtx", "co", "qw"}
            w.real_names |= {"vtx", "co", "X", "qw"}
            w.x_via_X = (self.t, self.Kb)
            w.two_sided = two_sided
            if symbolic:
                w.require(self.cm.nondegenerate(w))
            return w
        return f


class _FakeDomain:
    def __init__(self, g, t):
        self.geometric_dimension = g
        self.topological_dimension = t


# ------------------------------------------------------------------------------------------------- corpus
def mesh_of(cellname, gdim):
    cell = getattr(ufl, cellname)
    return Mesh(E.FiniteElement("Lagrange", cell, 1, (gdim,), identity_pullback, H1))


def corpus(cellname, gdim):
    cell = getattr(ufl, cellname)
    t = TDIM[cellname]
    m = mesh_of(cellname, gdim)

    def EL(fam, deg, shape, pb, sob):
        return E.FiniteElement(fam, cell, deg, shape, pb, sob)
    P1, P2 = EL("Lagrange", 1, (), identity_pullback, H1), EL("Lagrange", 2, (), identity_pullback, H1)
    Pv = EL("Lagrange", 1, (gdim,), identity_pullback, H1)
    Pt = EL("Lagrange", 1, (gdim, gdim), identity_pullback, H1)
    DG1, DG0 = EL("Discontinuous Lagrange", 1, (), identity_pullback, L2), EL("Discontinuous Lagrange", 0, (), identity_pullback, L2)
    V, V2, W, T, D = (FunctionSpace(m, e) for e in (P1, P2, Pv, Pt, DG1))
    u, v, f, g = TrialFunction(V), TestFunction(V), Coefficient(V2), Coefficient(V)
    c = Constant(m)
    uu, vv, ww = TrialFunction(W), TestFunction(W), Coefficient(W)
    A = Coefficient(T)
    du, dv = TrialFunction(D), TestFunction(D)
    n, x = FacetNormal(m), SpatialCoordinate(m)
    i, j, k, l = Index(), Index(), Index(), Index()  # noqa: E741
    F = {}
    F["mass"] = u * v * dx
    F["poisson+reaction+boundary"] = c * inner(grad(u), grad(v)) * dx + f * u * v * dx(1) + g * u * v * ds
    F["rhs"] = f * v * dx + g * v * ds(1) + c * v * dx(2)
    F["subdomains+metadata"] = f * v * dx(1) + g * v * dx((1, 2)) + f * g * v * dx + g * v * dx(2, metadata={"quadrature_degree": 2}) + f * v * ds(3) + g * v * ds
    # one and the same integrand contributed several times to one subdomain (everywhere + numbered, overlapping tuples, a form added to itself)
    F["same integrand on overlapping subdomains"] = f * g * v * dx + f * g * v * dx(1) + f * g * v * dx((1, 2)) + f * g * v * dx((2, 3)) + (g * v * ds(1) + g * v * ds(1))
    F["coordinates+math"] = x[0] * g * v * dx + sin(f) * v * dx + exp(g) * conditional(lt(f, 1), f, f * f) * v * ds
    F["variable-diff"] = (lambda w_: diff(w_ ** 3 + w_ * g, w_) * v * dx)(variable(f))
    F["index-notation"] = as_tensor(grad(uu)[i, k] * A[k, j], (i, j))[l, l] * vv[0] * dx + ww[i] * grad(vv)[i, j] * uu[j] * dx
    # geometry written by the user: J K is the identity only on non-immersed cells (the tangential projector otherwise), K J always
    Jm, Km = ufl.Jacobian(m), ufl.JacobianInverse(m)
    F["explicit J K contraction"] = (Jm[0, k] * Km[k, 0]) * g * v * dx + (Jm[i, k] * Km[k, i]) * v * dx(1)
    F["explicit K J contraction"] = (Km[0, k] * Jm[k, 0]) * g * v * dx + (Km[i, k] * Jm[k, i]) * v * dx(1)
    if gdim == t:
        F["jacobian of nonlinear residual"] = derivative((1 + f * f) * dot(grad(f), grad(v)) * dx, f, TrialFunction(V2))
        F["elasticity"] = inner(sym(grad(uu)), grad(vv)) * dx + div(uu) * div(vv) * dx(1)
        F["normal flux"] = dot(grad(u), n) * v * ds + u * v * ds(2)
        F["cell volume"] = CellVolume(m) * u * v * dx
        F["tensor algebra"] = det(A) * v * dx + tr(A * A.T) * v * dx(1)
        if t >= 2:
            RT = EL("Raviart-Thomas", 1, (t,), contravariant_piola, HDiv)
            NED = EL("N1curl", 1, (t,), covariant_piola, HCurl)
            M = FunctionSpace(m, E.MixedElement([RT, DG0]))
            (s_, p_), (t_, q_) = TrialFunctions(M), TestFunctions(M)
            F["mixed poisson (Piola)"] = (dot(s_, t_) + div(s_) * q_ + div(t_) * p_) * dx + p_ * dot(t_, n) * ds
            Nc = FunctionSpace(m, NED)
            F["covariant Piola mass"] = (lambda cf, un, tn: inner(un, tn) * dx + dot(cf, tn) * dot(cf, un) * dx(2))(Coefficient(Nc), TrialFunction(Nc), TestFunction(Nc))
            L2s = FunctionSpace(m, EL("DG L2", 0, (), l2_piola, L2))
            F["L2 Piola"] = TrialFunction(L2s) * TestFunction(L2s) * dx
            if t == 2:
                CC = FunctionSpace(m, EL("covcontra", 1, (t, t), covariant_contravariant_piola, L2))
                DC = FunctionSpace(m, EL("Regge", 1, (t, t), double_covariant_piola, HEin))
                DD = FunctionSpace(m, EL("HHJ", 1, (t, t), double_contravariant_piola, HDivDiv))
                F["tensor Piola kinds"] = (inner(Coefficient(CC), A) * v + inner(Coefficient(DC), grad(ww)) * v) * dx + inner(Coefficient(DD), A) * v * dx(1)
        if t >= 2:
            F["interior facets"] = jump(du) * jump(dv) * dS + dot(avg(grad(du)), n("+")) * jump(dv) * dS(1) + du * dv * dx
    if t == 2 and gdim == 3:
        # interior facets of an immersed manifold: the two cells sharing a facet are not coplanar, n('-') is not -n('+')
        F["manifold interior facets with both normals"] = dot(ww("+"), n("-")) * du("-") * jump(dv) * dS + dot(n("+"), n("-")) * du("+") * dv("-") * dS
    if t == 2 and gdim == 2:
        F["inverse of a tensor"] = tr(inv(A)) * v * dx
    if gdim == t and t <= 2:
        dirn = Coefficient(W)        # direction of the domain perturbation: a field in the (P1 vector) coordinate space
        F["shape derivative of a volume functional"] = derivative(f * g * dx, x, dirn)
        F["shape derivative with gradients and a boundary term"] = derivative(inner(grad(g), grad(g)) * dx + g * g * ds, x, dirn)
        F["shape derivative w.r.t. a test direction"] = derivative((g * g + dot(grad(g), ww)) * dx(1), x, TestFunction(W))
    return m, F


def option_sets(thorough):
    base = {k: False for k in FLAGS}
    base.update(do_apply_default_restrictions=True, do_apply_restrictions=True, do_estimate_degrees=True, do_append_everywhere_integrals=True)
    full = {k: True for k in FLAGS}
    out = [dict(base), dict(full), {**full, "do_cancel_jacobian_products": False},
           {**base, "do_apply_function_pullbacks": True, "do_apply_integral_scaling": True},
           {**base, "do_apply_function_pullbacks": True, "do_apply_geometry_lowering": True, "do_apply_integral_scaling": True},
           {**base, "do_apply_geometry_lowering": True}, {**base, "do_replace_functions": True, "do_remove_component_tensors": True},
           {**full, "do_apply_function_pullbacks": False}, {**base, "do_append_everywhere_integrals": False, "do_apply_integral_scaling": True}]
    n_cover = len(out)
    if thorough:
        for k in FLAGS:
            a = dict(base)
            a[k] = not a[k]
            out.append(a)
            b = dict(full)
            b[k] = False
            out.append(b)
    n_flip = len(out)
    if thorough == "all":
        for bits in itertools.product((False, True), repeat=len(FLAGS)):
            out.append(dict(zip(FLAGS, bits)))
    uniq, seen = [], set()
    for o in out:
        if o["do_cancel_jacobian_products"] and not o["do_apply_geometry_lowering"]:
            continue       # cancellation is only performed inside the geometry-lowering branch
        key = tuple(sorted(o.items()))
        if key not in seen:
            seen.add(key)
            uniq.append(o)
    return uniq


def scale_spec_expr(itype, domain):
    """The measure's scaling factor as a UFL expression built from MY table (not from compute_integrand_scaling_factor)."""
    t = domain.topological_dimension
    qw = C.QuadratureWeight(domain)
    if itype == "cell":
        return abs(C.JacobianDeterminant(domain)) * qw if t > 0 else 1
    if itype.startswith("exterior_facet"):
        return C.FacetJacobianDeterminant(domain) * qw if t > 1 else 1
    if itype.startswith("interior_facet"):
        return C.FacetJacobianDeterminant(domain)("+") * qw if t > 1 else 1
    if itype.startswith("ridge"):
        return C.RidgeJacobianDeterminant(domain) * qw if t > 2 else 1
    if itype in ufl.measure.custom_integral_types:
        return qw
    if itype in ufl.measure.point_integral_types:
        return 1
    raise KeyError(itype)


def ids_of(sid):
    return list(sid) if isinstance(sid, tuple) else [sid]


def build(run):
    thorough = run.tier == "thorough"
    for f in (compute_form_data, preprocess_form, attach_estimated_degrees, compute_integrand_scaling_factor, apply_integral_scaling, FormData.__init__):
        run.function(f)

    # ================================================================== (A) scaling factors
    def named_hook(w, e, comp, env):
        if isinstance(e, C.JacobianDeterminant):
            return w.symbol("detJ", real=True)
        if isinstance(e, C.FacetJacobianDeterminant):
            return w.symbol("detFJ", real=True)
        if isinstance(e, C.RidgeJacobianDeterminant):
            return w.symbol("detEJ", real=True)
        if isinstance(e, C.QuadratureWeight):
            return w.symbol("qw", real=True, side_dependent=False)
        if isinstance(e, C.Coefficient):
            return w.symbol(f"w{e.count()}", comp)
        return NotImplemented

    def named_world(two_sided):
        w = World(symbolic=True, complex_mode=False, valuation=None)
        w.terminal_hook = named_hook
        w.two_sided = two_sided
        return w

    cells = [("interval", 1), ("interval", 2), ("triangle", 2), ("triangle", 3), ("tetrahedron", 3)]
    for itype in ufl.measure.integral_types():
        for cellname, gdim in cells:
            def scaling(itype=itype, cellname=cellname, gdim=gdim):
                m = mesh_of(cellname, gdim)
                fcoef = Coefficient(FunctionSpace(m, E.FiniteElement("Lagrange", getattr(ufl, cellname), 1, (), identity_pullback, H1)))
                integrand = fcoef("+") if itype.startswith("interior_facet") else fcoef
                integral = ufl.Integral(integrand, itype, m, "everywhere", {}, None)
                try:
                    want = scale_spec_expr(itype, m)
                    want_err = None
                except KeyError:
                    return undecided(f"no spec for integral type {itype}")
                if itype.startswith("ridge") and m.topological_dimension < 2:
                    want_err = RuntimeError
                try:
                    scale, degree = compute_integrand_scaling_factor(integral)
                except (RuntimeError, ValueError) as ex:
                    if want_err is not None:
                        return proved("refused", sample=f"{itype} on {cellname}: {ex}")
                    return violated(f"compute_integrand_scaling_factor refuses {itype} on {cellname}: {ex}", replay={"integral_type": itype, "cell": cellname}, reproduced=True)
                if want_err is not None:
                    return violated(f"compute_integrand_scaling_factor accepts a ridge integral on a {cellname}", replay={"integral_type": itype, "cell": cellname}, reproduced=True)
                w = named_world(itype.startswith("interior_facet"))
                got = den(w, ufl.as_ufl(scale), (), {})
                spec = den(w, ufl.as_ufl(want), (), {})
                pre = ()
                if itype.startswith("interior_facet"):
                    # the facet is one physical entity: its measure factor is the same seen from either side
                    pre = (N.cmp("==", w.on_side("+").symbol("detFJ", real=True), w.on_side("-").symbol("detFJ", real=True)),)
                v = prove_equal(w, got, spec, 10000, pre)
                if v.status == "refuted":
                    return violated(f"scaling factor of a {itype} integral on a {cellname} is {scale} but the measure's factor is {want} (model {v.model})",
                                    replay={"integral_type": itype, "cell": cellname, "gdim": gdim, "got": str(scale), "want": str(want), "model": v.model}, reproduced=True,
                                    backend=v.backend)
                if v.status != "proved":
                    return undecided(f"{itype}/{cellname}: {v.detail}")
                # applied exactly once, also under a coordinate derivative, and degree bookkeeping
                for md, wantdeg in (({}, degree), ({"estimated_polynomial_degree": 3}, 3 + degree if not isinstance(degree, tuple) else tuple(3 + d for d in degree))):
                    it2 = ufl.Integral(integrand, itype, m, 1, dict(md), None)
                    out = apply_integral_scaling(it2)
                    got2 = den(w, out.integrand(), (), {})
                    spec2 = N.mul(spec, den(w, integrand, (), {}))
                    v2 = prove_equal(w, got2, spec2, 10000, pre)
                    if v2.status != "proved":
                        return violated(f"apply_integral_scaling on {itype}/{cellname}: integrand {out.integrand()} is not scale * original", replay={"integral_type": itype, "cell": cellname},
                                        reproduced=v2.status == "refuted", backend=v2.backend)
                    if out.metadata().get("estimated_polynomial_degree") != wantdeg:
                        return violated(f"apply_integral_scaling on {itype}/{cellname}: estimated degree {out.metadata().get('estimated_polynomial_degree')} != {wantdeg}",
                                        replay={"integral_type": itype, "cell": cellname, "metadata": md}, reproduced=True)
                    if (out.subdomain_id(), out.integral_type(), out.ufl_domain()) != (1, itype, m) or set(out.metadata()) - {"estimated_polynomial_degree"} != set(md) - {"estimated_polynomial_degree"}:
                        return violated(f"apply_integral_scaling changed the integral's domain/type/id/metadata keys on {itype}/{cellname}", reproduced=True)
                return proved(v.backend or "normaliser", vcs=3, sample=f"{itype} on {cellname}@{gdim}d: scale == {want}; applied once; degree added")
            run.add(f"scaling/{itype}/{cellname}@{gdim}d", scaling, kind="proof")

    def scaling_under_cd():
        m = mesh_of("triangle", 2)
        V = FunctionSpace(m, E.FiniteElement("Lagrange", ufl.triangle, 1, (), identity_pullback, H1))
        W = FunctionSpace(m, E.FiniteElement("Lagrange", ufl.triangle, 1, (2,), identity_pullback, H1))
        f, d = Coefficient(V), Coefficient(W)
        form = derivative(f * f * dx(m), SpatialCoordinate(m), d)
        (it,) = form.integrals()
        out = apply_integral_scaling(it)
        o = out.integrand()
        if not isinstance(o, C.CoordinateDerivative):
            return violated("apply_integral_scaling moved the scale outside the coordinate derivative", replay={"integrand": str(o)}, reproduced=True)
        w = named_world(False)
        inner_ = o.ufl_operands[0]
        want = N.mul(den(w, ufl.as_ufl(scale_spec_expr("cell", m)), (), {}), den(w, f * f, (), {}))
        v = prove_equal(w, den(w, inner_, (), {}), want, 10000)
        if v.status != "proved" or o.ufl_operands[1:] != it.integrand().ufl_operands[1:]:
            return violated("apply_integral_scaling under a coordinate derivative: inner integrand is not scale * original", replay={"integrand": str(o)}, reproduced=v.status == "refuted")
        return proved(v.backend or "normaliser", sample="scale is applied inside CoordinateDerivative, direction and variable untouched")
    run.add("scaling/inside-coordinate-derivative", scaling_under_cd, kind="proof")

    # ================================================================== (B) pipeline order (AST)
    REG = {"do_comparison_check": "C23", "apply_algebra_lowering": "C06", "remove_complex_nodes": "C23", "apply_derivatives": "C02-C04", "preprocess_form": "C01(B)",
           "group_form_integrals": "C15", "attach_estimated_degrees": "C18/C27", "apply_function_pullbacks": "C08", "apply_integral_scaling": "C01(A)",
           "apply_geometry_lowering": "C07", "remove_component_tensors": "C10", "cancel_jacobian_products": "C09", "apply_coordinate_derivatives": "C04",
           "build_integral_data": "C15", "replace": "C21", "apply_restrictions": "C17", "apply_default_restrictions": "C17", "coeff_splitter": "(coefficient splitting: not covered)",
           "CoefficientSplitter": "(coefficient splitting: not covered)"}

    def pipeline():
        problems, n = [], 0
        seqs = {}
        for fn in (preprocess_form, compute_form_data):
            tree = ast.parse(textwrap.dedent(inspect.getsource(fn)))
            calls = []
            for node in ast.walk(tree):
                if isinstance(node, ast.Assign) and len(node.targets) == 1 and isinstance(node.targets[0], ast.Name) and node.targets[0].id == "form" and isinstance(node.value, ast.Call):
                    nm = ast.unparse(node.value.func)
                    calls.append((node.lineno, nm, ast.unparse(node.value)))
                    n += 1
                    if nm not in REG:
                        problems.append(f"{fn.__name__} line +{node.lineno}: `form = {ast.unparse(node.value)[:80]}` calls a pass without a contract")
                    first = node.value.args[0] if node.value.args else None
                    if not (isinstance(first, ast.Name) and first.id == "form"):
                        problems.append(f"{fn.__name__}: `{ast.unparse(node)[:80]}` does not transform the current form")
            seqs[fn.__name__] = [c[1] for c in sorted(calls)]
        pre, cfd = seqs["preprocess_form"], seqs["compute_form_data"]

        def before(seq, a, b, what):
            if a in seq and b in seq and not (seq.index(a) < seq.index(b)):
                problems.append(what)
        before(pre, "apply_algebra_lowering", "apply_derivatives", "preprocess_form: derivatives must be applied after algebra lowering (GenericDerivativeRuleset has no rules for compound operators)")
        if "apply_algebra_lowering" not in pre or "apply_derivatives" not in pre:
            problems.append("preprocess_form no longer lowers algebra / applies derivatives")
        if cfd[:2] != ["preprocess_form", "group_form_integrals"]:
            problems.append(f"compute_form_data must start with preprocess_form, group_form_integrals; found {cfd[:2]}")
        before(cfd, "attach_estimated_degrees", "apply_function_pullbacks", "degrees must be estimated before pullbacks")
        before(cfd, "attach_estimated_degrees", "apply_integral_scaling", "degrees must be estimated before integral scaling (the scale degree is added to the estimate)")
        before(cfd, "apply_function_pullbacks", "apply_integral_scaling", "pullbacks before scaling")
        before(cfd, "apply_integral_scaling", "apply_geometry_lowering", "the scale factor contains geometric quantities and must be introduced before geometry lowering")
        if cfd.count("apply_integral_scaling") != 1 or cfd.count("group_form_integrals") != 1 or cfd.count("apply_function_pullbacks") != 1:
            problems.append("scaling / grouping / pullbacks must each be applied exactly once")
        if "cancel_jacobian_products" in cfd:
            k = cfd.index("cancel_jacobian_products")
            if cfd[k - 1] != "remove_component_tensors" or cfd[k + 1:k + 3] != ["apply_geometry_lowering", "apply_derivatives"]:
                problems.append("cancel_jacobian_products must follow remove_component_tensors and be followed by geometry lowering of the preserved types and apply_derivatives")
        last_low = max(i for i, c in enumerate(cfd) if c == "apply_geometry_lowering")
        if "apply_derivatives" not in cfd[last_low:]:
            problems.append("the last geometry lowering must be followed by apply_derivatives")
        src = inspect.getsource(compute_form_data)
        if "build_integral_data(form.integrals())" not in src or "return FormData(" not in src:
            problems.append("compute_form_data no longer builds the integral data from the processed form")
        # conditions: scaling only under its flag, etc.
        tree = ast.parse(textwrap.dedent(src))
        guards = {}
        for node in ast.walk(tree):
            if isinstance(node, ast.If):
                for st in node.body:
                    if isinstance(st, ast.Assign) and isinstance(st.value, ast.Call) and ast.unparse(st.targets[0]) == "form":
                        guards.setdefault(ast.unparse(st.value.func), []).append(ast.unparse(node.test))
        want_guard = {"apply_function_pullbacks": "do_apply_function_pullbacks", "apply_integral_scaling": "do_apply_integral_scaling", "attach_estimated_degrees": "do_estimate_degrees",
                      "cancel_jacobian_products": "do_cancel_jacobian_products"}
        for callee, flag in want_guard.items():
            if guards.get(callee) != [flag]:
                problems.append(f"{callee} must be guarded exactly by `{flag}` (found {guards.get(callee)})")
        # FormData.__init__: integrand rewrites
        ftree = ast.parse(textwrap.dedent(inspect.getsource(FormData.__init__)))
        for node in ast.walk(ftree):
            if isinstance(node, ast.Assign) and ast.unparse(node.targets[0]) in ("integrand", "new_integral") and isinstance(node.value, ast.Call):
                nm = ast.unparse(node.value.func)
                n += 1
                if nm not in REG:
                    problems.append(f"FormData.__init__: `{ast.unparse(node)[:80]}` rewrites an integrand with a pass without a contract")
        if problems:
            return violated("pipeline obligations fail: " + " | ".join(problems[:6]), replay={"problems": problems, "sequence": cfd}, reproduced=False, backend="ast")
        return proved("ast", vcs=n, sample=f"preprocess_form: {pre}; compute_form_data: {cfd}")
    run.add("pipeline/passes-and-order", pipeline, kind="proof")

    # ================================================================== (C) end-to-end
    def end_to_end(cellname, gdim, fname, opts, facets, numeric_only=False):
        def thunk():
            S.set_counters({k: 400 for k in S.COUNTER_FAMILIES})
            m, Fs = corpus(cellname, gdim)
            form = Fs[fname]
            from ufl.algorithms import expand_derivatives
            spec_form = expand_derivatives(form)      # spec side: unexpanded derivative nodes are defined by their expansion (C02-C04's contract)
            with warnings.catch_warnings():
                warnings.simplefilter("ignore")
                try:
                    fd = compute_form_data(form, **opts)
                except (ValueError, NotImplementedError, RuntimeError, TypeError, KeyError) as ex:
                    if not deliberate(ex):
                        return violated(f"crash instead of a result or a refusal: {crash_text(ex)}", reproduced=True, backend="exec")
                    return proved("refused", sample=f"compute_form_data raised {type(ex).__name__}: {str(ex)[:120]}")
                except BaseException as ex:  # noqa: BLE001
                    if isinstance(ex, (KeyboardInterrupt, SystemExit)):
                        raise
                    return proved("refused", sample=f"compute_form_data raised {type(ex).__name__}: {str(ex)[:120]}")
            inv = {new: old for old, new in fd.function_replace_map.items()} if opts.get("do_replace_functions") else {}
            # ---- what the preprocessed form integrates at each (type, id)
            got = {}
            for idata in fd.integral_data:
                for s in ids_of(idata.subdomain_id):
                    for itg in idata.integrals:
                        got.setdefault((idata.integral_type, s), []).append(itg.integrand())
            # ---- what the original form integrates there
            want = {}
            groups = {}
            for itg in spec_form.integrals():
                groups.setdefault(itg.integral_type(), []).append(itg)
            for itype, itgs in groups.items():
                explicit = sorted({s for i_ in itgs for s in ids_of(i_.subdomain_id()) if s != "everywhere"})
                for i_ in itgs:
                    if i_.subdomain_id() == "everywhere":
                        tg = ["otherwise"] + (explicit if opts.get("do_append_everywhere_integrals", True) else [])
                    else:
                        tg = list(dict.fromkeys(ids_of(i_.subdomain_id())))
                    for s in tg:
                        want.setdefault((itype, s), []).append(i_.integrand())
            # shape derivatives: directions, and the spec  D_V[ S e ] / S  (S = the measure's factor), which is what a coordinate derivative of an integral means
            directions = set()
            for key_, es in list(want.items()):
                new_es = []
                for e_ in es:
                    if isinstance(e_, C.CoordinateDerivative):
                        inner_, xs_, vs_, cd_ = e_.ufl_operands
                        if isinstance(inner_, C.CoordinateDerivative):
                            return undecided(f"{fname}: nested coordinate derivatives have no spec here")
                        directions.add(vs_.ufl_operands[0])
                        Sfull = ufl.as_ufl(scale_spec_expr(key_[0], m))
                        e_ = C.Division(C.CoordinateDerivative(Sfull * inner_, xs_, vs_, cd_), Sfull) if not isinstance(Sfull, C.ScalarValue) else e_
                    new_es.append(e_)
                want[key_] = new_es
            nvc = 0
            backs = set()
            for key in sorted(set(got) | set(want), key=str):
                itype, s = key
                two = itype.startswith("interior_facet")
                for facet in (facets if "facet" in itype else [0]):
                    U = Unified(cellname, gdim, facet=facet, pullbacks=bool(opts.get("do_apply_function_pullbacks")), inv_replace=inv)
                    U.directions = set(directions)
                    mk = U.mk(two_sided=two)
                    scale_e = ufl.as_ufl(scale_spec_expr(itype, m)) if opts.get("do_apply_integral_scaling") else ufl.as_ufl(1)

                    def sides(w):
                        a = 0
                        for e in got.get(key, []):
                            a = N.add(a, den(w, e, (), {}))
                        b = 0
                        for e in want.get(key, []):
                            b = N.add(b, den(w, e, (), {}))
                        return a, N.mul(den(w, scale_e, (), {}), b)
                    # numeric refutation first
                    q = quick(mk, sides)
                    if q is not None:
                        return violated(f"compute_form_data({fname}, {short(opts)}) on {cellname}@{gdim}d: {itype} integral over {s} (facet {facet}) integrates {q['got']} "
                                        f"but scale * original is {q['spec']} at a sample point",
                                        replay={"form": fname, "cell": cellname, "gdim": gdim, "options": opts, "key": list(map(str, key)), "facet": facet, **q}, reproduced=True,
                                        backend="numeric-search")
                    if numeric_only:
                        # the symbolic identity is too large for the solvers (minutes): exact agreement at random rational points only (bounded)
                        q2 = quick(mk, sides, tries=4, seed=777)
                        if q2 is not None:
                            return violated(f"compute_form_data({fname}, {short(opts)}) on {cellname}@{gdim}d: {itype} integral over {s}: {q2['got']} vs {q2['spec']} at a sample point",
                                            replay={"form": fname, "cell": cellname, "options": opts, **q2}, reproduced=True, backend="numeric-search")
                        nvc += 1
                        backs.add("numeric(6 random rational points)")
                        continue
                    w = mk(True, None)
                    try:
                        a, b = sides(w)
                    except N.Unsupported as ex:
                        return undecided(f"{fname}/{key}: {ex}")
                    v = prove_equal(w, a, b, 30000 if not thorough else 120000)
                    nvc += 1
                    if v.status == "proved":
                        backs.add(v.backend)
                        continue
                    if v.status == "refuted":
                        return violated(f"compute_form_data({fname}, {short(opts)}) on {cellname}@{gdim}d: {itype} integral over {s}: preprocessed integrand differs from scale * original "
                                        f"(counter-model {v.model})", replay={"form": fname, "cell": cellname, "options": opts, "key": list(map(str, key)), "model": v.model},
                                        reproduced=False, backend=v.backend)
                    return undecided(f"{fname}/{key}/{short(opts)}: {v.backend} {v.detail}")
            if numeric_only:
                return bounded_ok(nvc, "6 random rational points per equation (exact arithmetic up to sqrt/abs)", sample=f"{fname} on {cellname}@{gdim}d, {short(opts)}: {nvc} equations agree numerically")
            return proved("+".join(sorted(b for b in backs if b)) or "normaliser", vcs=max(nvc, 1), sample=f"{fname} on {cellname}@{gdim}d, {short(opts)}: {nvc} (type, subdomain, facet) equations")
        return thunk

    def short(opts):
        on = [k.replace("do_", "").replace("apply_", "") for k in FLAGS if opts.get(k)]
        return "+".join(on) or "none"

    def quick(mk, sides, tries=2, seed=4242):
        import random
        from fractions import Fraction
        rnd = random.Random(seed)
        for _ in range(tries):
            vals = {}

            def val(nm):
                if nm not in vals:
                    vals[nm] = Fraction(rnd.randint(-7, 7) or 2, rnd.randint(1, 3))
                return vals[nm]
            try:
                w = mk(False, val)
                a, b = sides(w)
                if not all(bool(x) for x in w.side):
                    continue
                fa, fb = N.flatten(a), N.flatten(b)
                d = max(abs(complex(float(p) - float(q_))) for p, q_ in zip(fa, fb))
                scale = max(1.0, max(abs(float(t_)) for t_ in fb))
                if d > 1e-7 * scale:
                    return {"got": str([float(p) for p in fa]), "spec": str([float(p) for p in fb]), "point": {k: str(v_) for k, v_ in sorted(vals.items())}}
            except Exception:  # noqa: BLE001
                continue
        return None

    cases = [("triangle", 2), ("tetrahedron", 3), ("interval", 1), ("triangle", 3)]
    # option sets: quick = a covering set of 9 (triangle) / 3 of them (other cells); thorough = covering set + every single-flag flip of
    # the minimal and the full pipeline on the triangle, the covering set on the other cells (all facets, heavy tetrahedron forms
    # included), and every valid combination of the 10 flags (~770) for three representative forms on the triangle
    osets = option_sets(thorough)
    osets_all = option_sets("all") if thorough else []
    ALL_FLAGS_FORMS = ("mass", "poisson+reaction+boundary", "mixed poisson (Piola)")
    for cellname, gdim in cases:
        S.set_counters({k: 400 for k in S.COUNTER_FAMILIES})
        _, Fs = corpus(cellname, gdim)
        for fname in Fs:
            heavy = cellname == "tetrahedron" and fname not in ("mass", "rhs", "poisson+reaction+boundary", "cell volume", "subdomains+metadata", "coordinates+math")
            sets_here = osets
            if thorough and (cellname, gdim) == ("triangle", 2) and fname in ALL_FLAGS_FORMS:
                sets_here = osets_all
            for k, opts in enumerate(sets_here):
                if not thorough:
                    if (cellname, gdim) != ("triangle", 2) and k not in (1, 4, 8):
                        continue
                    if heavy:
                        continue        # tetrahedron with Piola maps / tensor algebra: thorough tier only (minutes per equation)
                elif (cellname, gdim) != ("triangle", 2) and k >= 9:
                    continue            # single-flag flips: triangle only
                nfac = TDIM[cellname] + 1
                facets = list(range(nfac)) if thorough else [0, nfac - 1]
                numeric_only = fname.startswith("shape derivative") and TDIM[cellname] >= 2 and fname != "shape derivative of a volume functional"
                numeric_only = numeric_only or (fname.startswith("manifold interior facets") and opts["do_apply_geometry_lowering"])
                # tetrahedron, forms whose symbolic equation did not discharge within 20 minutes (3x3 inverse Jacobians under Piola maps,
                # facet geometry): compared numerically at random rational points instead, labelled bounded
                numeric_only = numeric_only or (heavy and fname in ("covariant Piola mass", "elasticity", "interior facets", "mixed poisson (Piola)", "normal flux")
                                                and (opts["do_apply_function_pullbacks"] or opts["do_apply_geometry_lowering"]))
                run.add(f"end-to-end/{cellname}@{gdim}d/{fname}/{short(opts)}", end_to_end(cellname, gdim, fname, opts, facets, numeric_only),
                        kind="bounded" if numeric_only else "values", budget=300 if not thorough else 1200)

    def canary():
        S.set_counters({k: 400 for k in S.COUNTER_FAMILIES})
        m, Fs = corpus("triangle", 2)
        form = Fs["mass"]
        fd = compute_form_data(form, do_apply_function_pullbacks=True, do_apply_integral_scaling=True, do_apply_geometry_lowering=True)
        U = Unified("triangle", 2, pullbacks=True)
        w = U.mk()(True, None)
        a = 0
        for idata in fd.integral_data:
            for itg in idata.integrals:
                a = N.add(a, den(w, itg.integrand(), (), {}))
        b = 0
        for itg in form.integrals():
            b = N.add(b, den(w, itg.integrand(), (), {}))
        v = prove_equal(w, a, b, 10000)     # scale omitted on purpose: must be refuted
        if v.status == "proved":
            return proved("canary")
        return violated("canary refuted", reproduced=True)
    run.add("canary/scale-omitted", canary, kind="canary")
