"""C13 — structural equality, hashing, repr and pickling are consistent.

Functions under contract: expr_equals, compute_expr_hash, every terminal __eq__/__repr__/_ufl_compute_hash_,
Operator._ufl_compute_hash_, Variable.__eq__, Form.equals/__hash__, Integral.__eq__/__hash__, __getnewargs__/__reduce__,
FunctionSpace/Mesh __eq__/__repr__ (they are fields of terminals).

Contract per class with constructor fields F:   a == b  <=>  fields(a) == fields(b);
   a == b ==> hash(a) == hash(b) and repr(a) == repr(b);  == is reflexive, symmetric, transitive;
   frame of expr_equals: it may only replace self.ufl_operands by an *equal* tuple (repr, hash, value unchanged);
   pickle.loads(pickle.dumps(x)) == x and eval(repr(x)) == x.
Obligations: (i) AST: in every __eq__ each compared attribute of self is compared with the same attribute of other;
(ii) differential field perturbation per class: two objects differing in exactly one field are unequal, two built from equal
fields are equal with equal hash/repr (integer fields symbolic where the code allows, else two values);
(iii) equivalence laws, hash/repr consistency and the frame condition over all pairs/triples of a corpus of expressions incl.
structurally-equal-but-distinct objects; (iv) round trips per class.
"""
from __future__ import annotations

import ast
import inspect
import itertools
import pickle
import textwrap

import ufl
import ufl.classes
import ufl.classes as C
import ufl.pullback
import ufl.sobolevspace
import ufl.core.compute_expr_hash
import ufl.measure
import ufl.integral
import ufl.form
from ufl import (Coefficient, Constant, FunctionSpace, Mesh, TestFunction, dx, ds, grad, inner, sin, variable, as_vector, as_tensor, conditional, lt)
from ufl.core.multiindex import FixedIndex, Index, MultiIndex
from ufl.exprequals import expr_equals
from ufl.pullback import identity_pullback
from ufl.sobolevspace import H1, L2

from ufv import corpus
from ufv import elements as E
from ufv.core import bounded_ok, proved, undecided, violated
from ufv.opq import mesh

LEVEL = "other"
TECHNIQUE = ("contract obligations on the real __eq__/__hash__/__repr__/pickle code: AST frame check of every __eq__ (each field of self "
             "compared with the same field of other), differential field perturbation per class, equivalence/hash/repr laws and the "
             "expr_equals frame condition over all pairs/triples of a corpus (bounded), round trips per class")
LEVEL_TEXT = ("Field-level obligations are complete per class over its constructor fields (two values per field); the laws over "
              "expressions are exhaustive over a finite corpus of DAGs (bounded stand-in).")
LEVEL_NOTE = "Trusted: the list of constructor fields per class (this file), Python's pickle; corpus finite."
TRUSTED = ["constructor-field tables in ufv/props/c13.py", "CPython pickle/eval"]
ASSUMPTIONS = ["each field perturbed with two values", "corpus of expressions/forms finite (pairs and triples enumerated)",
               "sequences of comparisons are covered through the frame condition of a single comparison (each comparison preserves repr/hash/value)"]
EXPLANATION = ("Equality is decided by exactly the constructor fields; equal objects share hash and repr; comparing never changes an "
               "expression; pickle and eval(repr) reproduce equal objects.")


def build(run):
    def L(cell, deg, shape=()):
        # plain FiniteElement (the LagrangeElement helper subclass of test/utils.py prints itself as its base class, an artefact of the test utility)
        return E.FiniteElement("Lagrange", cell, deg, shape, identity_pullback, H1)
    tri, tet = Mesh(L(ufl.triangle, 1, (2,)), ufl_id=9990), Mesh(L(ufl.tetrahedron, 1, (3,)), ufl_id=9980)
    P1, P2, P1v = L(ufl.triangle, 1), L(ufl.triangle, 2), L(ufl.triangle, 1, (2,))

    def terms():
        S, Vv, T = FunctionSpace(tri, P2), FunctionSpace(tri, L(ufl.triangle, 2, (2,))), FunctionSpace(tri, L(ufl.triangle, 2, (2, 2)))
        return dict(f=Coefficient(S), g=Coefficient(S), u=Coefficient(Vv), v=Coefficient(Vv), A=Coefficient(T), B=Coefficient(T), msh=tri, S=S, V=Vv, T=T)
    ns = {"utils": E}
    for k in dir(ufl.classes):
        ns[k] = getattr(ufl.classes, k)
    for k in dir(ufl):
        ns.setdefault(k, getattr(ufl, k))
    for k in ufl.pullback.__all_classes__:
        ns[k] = getattr(ufl.pullback, k)
    ns.update({"triangle": ufl.triangle, "tetrahedron": ufl.tetrahedron, "interval": ufl.interval, "H1": H1, "L2": L2,
               "SobolevSpace": ufl.sobolevspace.SobolevSpace, "FunctionSpace": FunctionSpace, "Mesh": Mesh})

    # ------------------------------------------------------------------ (i) AST frame obligation on every __eq__
    eq_classes = [C.Constant, C.Coefficient, C.Argument, C.Zero, C.ScalarValue, C.Identity, C.PermutationSymbol, C.MultiIndex, C.Variable,
                  C.GeometricQuantity, C.Terminal, ufl.core.multiindex.Index, ufl.core.multiindex.FixedIndex, ufl.integral.Integral,
                  ufl.form.Form, ufl.coefficient.BaseCoefficient, ufl.argument.BaseArgument, ufl.measure.Measure, ufl.core.ufl_type.UFLObject,
                  ufl.sobolevspace.SobolevSpace]

    def ast_eq(cls):
        def thunk():
            fn = cls.__dict__.get("__eq__") or cls.__dict__.get("equals")
            if fn is None:
                return proved("inherited", sample=f"{cls.__name__} defines no __eq__ of its own")
            try:
                tree = ast.parse(textwrap.dedent(inspect.getsource(fn)))
            except (OSError, TypeError) as ex:
                return undecided(f"no source for {cls.__name__}.__eq__: {ex}")
            fdef = tree.body[0]
            params = [a.arg for a in fdef.args.args]
            if len(params) < 2:
                return undecided("unexpected signature")
            me, other = params[0], params[1]
            n = 0
            for node in ast.walk(fdef):
                if isinstance(node, ast.Compare) and len(node.comparators) == 1 and isinstance(node.ops[0], (ast.Eq, ast.NotEq)):
                    l, r = node.left, node.comparators[0]

                    def roots(x):
                        return {nn.id for nn in ast.walk(x) if isinstance(nn, ast.Name)}
                    rl, rr = roots(l), roots(r)
                    n += 1
                    if me in rl and me in rr and other not in rl and other not in rr and ast.dump(l) == ast.dump(r):
                        return violated(f"{cls.__name__}.__eq__ compares {ast.unparse(l)} with itself ({ast.unparse(node)}): the corresponding field "
                                        f"of `{other}` is never read", replay={"class": cls.__name__, "comparison": ast.unparse(node)},
                                        reproduced=False, backend="ast")
            return proved("ast", vcs=max(n, 1), sample=f"{cls.__name__}.__eq__: {n} field comparisons, each reads both operands")
        run.function(cls.__dict__.get("__eq__") or cls.__dict__.get("equals") or (lambda: None), f"{cls.__module__}.{cls.__name__}.__eq__")
        run.add(f"ast-eq-frame/{cls.__name__}", thunk, kind="proof")
    for cls in eq_classes:
        ast_eq(cls)

    # ------------------------------------------------------------------ (ia) __eq__ reads every field that __repr__ prints
    REPR_ONLY_OK = {
        ("ScalarValue", "__class__"): "type is compared through isinstance/type checks", ("RealValue", "__class__"): "same",
        ("Variable", "_ufl_class_"): "class name only", ("FixedIndex", "_value"): "read through int(self)",
        ("FunctionSpace", "_label"): "equality goes through _ufl_hash_data_ (label, domain, element): decided by field-perturbation/FunctionSpace",
        ("FunctionSpace", "_ufl_domain"): "same", ("FunctionSpace", "_ufl_element"): "same",
    }

    def find_attr(cls, name):
        for k in cls.__mro__:
            if name in k.__dict__:
                return k.__dict__[name]
        return None

    def self_attrs(fn, cls, depth=1):
        try:
            tree = ast.parse(textwrap.dedent(inspect.getsource(fn)))
        except (OSError, TypeError):
            return None
        fd = tree.body[0]
        if not fd.args.args:
            return set()
        me = fd.args.args[0].arg
        out = {n.attr for n in ast.walk(fd) if isinstance(n, ast.Attribute) and isinstance(n.value, ast.Name) and n.value.id == me}
        if any(isinstance(n, ast.Call) and isinstance(n.func, ast.Name) and n.func.id == "repr" and n.args and isinstance(n.args[0], ast.Name) and n.args[0].id == me
               for n in ast.walk(fd)):
            out.add("<repr(self)>")
        if depth:
            for a in list(out):
                m = find_attr(cls, a)
                sub = self_attrs(m, cls, 0) if inspect.isfunction(m) else self_attrs(m.fget, cls, 0) if isinstance(m, property) and m.fget else None
                if sub:
                    out |= sub
        return out

    def eq_covers_repr(cls):
        def thunk():
            eq, rp = find_attr(cls, "__eq__"), find_attr(cls, "__repr__")
            if issubclass(cls, ufl.form.BaseForm) and not issubclass(cls, C.Expr):
                eq = find_attr(cls, "equals")       # BaseForm.__eq__ builds an Equation; bool(a == b) delegates to equals
            if not inspect.isfunction(eq) or not inspect.isfunction(rp):
                return proved("n/a", sample=f"{cls.__name__}: no python-level __eq__/__repr__ pair")
            ae, ar = self_attrs(eq, cls), self_attrs(rp, cls)
            if ae is None or ar is None:
                return undecided(f"{cls.__name__}: no source")
            if "<repr(self)>" in ae:
                return proved("ast", sample=f"{cls.__name__}.__eq__ compares repr strings")
            if "_repr" in ar:
                init = find_attr(cls, "__init__")
                for k in cls.__mro__:
                    f_ = k.__dict__.get("__init__")
                    if inspect.isfunction(f_) and "_repr" in inspect.getsource(f_):
                        tree = ast.parse(textwrap.dedent(inspect.getsource(f_)))
                        me = tree.body[0].args.args[0].arg
                        for node in ast.walk(tree):
                            if isinstance(node, ast.Assign) and ast.unparse(node.targets[0]) == f"{me}._repr":
                                ar |= {n.attr for n in ast.walk(node.value) if isinstance(n, ast.Attribute) and isinstance(n.value, ast.Name) and n.value.id == me}
                        break
                ar.discard("_repr")
                del init
            data = {a for a in ar if not inspect.isroutine(find_attr(cls, a)) and not isinstance(find_attr(cls, a), property) and a != "<repr(self)>"}
            missing = sorted(a for a in data - ae if (cls.__name__, a) not in REPR_ONLY_OK)
            if missing:
                return violated(f"{cls.__name__}.__repr__ prints {missing} but {cls.__name__}.__eq__ never reads them: two objects differing only there compare equal "
                                f"with different repr", replay={"class": cls.__name__, "fields": missing}, reproduced=False, backend="ast")
            return proved("ast", vcs=max(len(data), 1), sample=f"{cls.__name__}: every field printed by __repr__ ({sorted(data)}) is read by __eq__")
        run.add(f"ast-eq-covers-repr/{cls.__name__}", thunk, kind="proof")
    for cls in [C.Constant, C.Coefficient, C.Argument, C.Zero, C.ScalarValue, C.IntValue, C.RealValue, C.ComplexValue, C.Identity, C.PermutationSymbol, C.MultiIndex, C.Variable,
                C.GeometricQuantity, ufl.core.multiindex.Index, ufl.core.multiindex.FixedIndex, ufl.integral.Integral, ufl.measure.Measure, ufl.Mesh, ufl.FunctionSpace,
                C.Cofunction, C.Coargument, C.Matrix, C.ExternalOperator, C.Interpolate]:
        eq_covers_repr(cls)

    # ------------------------------------------------------------------ (ii) differential field perturbation
    def V(msh=tri, el=P1, label=""):
        return FunctionSpace(msh, el, label) if label else FunctionSpace(msh, el)

    tri_b = Mesh(L(ufl.triangle, 1, (2,)), ufl_id=9991)
    tri_c = Mesh(L(ufl.triangle, 1, (2,)), ufl_id=9992)
    FIELDS = {
        "Coefficient": (lambda function_space=V(), count=7001: Coefficient(function_space, count=count),
                        {"function_space": [V(), V(el=P2), V(msh=tri_b), V(label="b")], "count": [7001, 7002]}),
        "Constant": (lambda domain=tri, shape=(), count=7101: Constant(domain, shape, count=count),
                     {"domain": [tri, tri_b], "shape": [(), (2,), (3,), (2, 2)], "count": [7101, 7102]}),
        "Argument": (lambda function_space=V(), number=0, part=None: C.Argument(function_space, number, part),
                     {"function_space": [V(), V(el=P2), V(label="b")], "number": [0, 1], "part": [None, 0, 1]}),
        "Zero": (lambda shape=(), free_indices=(), index_dimensions=(): C.Zero(shape, free_indices, index_dimensions),
                 {"shape": [(), (2,), (3,)], "free_indices": [(), (901,), (902,)], "index_dimensions": [(), (2,), (3,)]}),
        "IntValue": (lambda value=3: C.IntValue(value), {"value": [3, 4, -3, 300, 301]}),
        "FloatValue": (lambda value=0.5: C.FloatValue(value), {"value": [0.5, 0.25, 1e-30]}),
        "ComplexValue": (lambda value=1 + 2j: C.ComplexValue(value), {"value": [1 + 2j, 1 - 2j, 2 + 2j]}),
        "Identity": (lambda dim=2: C.Identity(dim), {"dim": [2, 3]}),
        "PermutationSymbol": (lambda dim=2: C.PermutationSymbol(dim), {"dim": [2, 3]}),
        "SpatialCoordinate": (lambda domain=tri: C.SpatialCoordinate(domain), {"domain": [tri, tri_b, tet]}),
        "FacetNormal": (lambda domain=tri: C.FacetNormal(domain), {"domain": [tri, tri_b, tet]}),
        "CellVolume": (lambda domain=tri: C.CellVolume(domain), {"domain": [tri, tri_b]}),
        "Jacobian": (lambda domain=tri: C.Jacobian(domain), {"domain": [tri, tri_c]}),
        "MultiIndex": (lambda indices=(FixedIndex(0),): MultiIndex(indices),
                       {"indices": [(FixedIndex(0),), (FixedIndex(1),), (Index(911),), (Index(912),), (FixedIndex(0), Index(911))]}),
        "Label": (lambda count=7201: C.Label(count), {"count": [7201, 7202]}),
        "FunctionSpace": (lambda domain=tri, element=P1, label="": FunctionSpace(domain, element, label),
                          {"domain": [tri, tri_b], "element": [P1, P2, P1v], "label": ["", "boundary"]}),
        "Mesh": (lambda coordinate_element=P1v, ufl_id=7301: Mesh(coordinate_element, ufl_id=ufl_id),
                 {"coordinate_element": [P1v, L(ufl.triangle, 2, (2,))], "ufl_id": [7301, 7302]}),
        "Index": (lambda count=7401: Index(count), {"count": [7401, 7402]}),
        # order-sensitive containers: the same members in another order are a different object
        "MeshSequence": (lambda meshes=(tri, tri_b): ufl.MeshSequence(list(meshes)), {"meshes": [(tri, tri_b), (tri_b, tri), (tri, tri_c), (tri_c, tri_b)]}),
        "MixedFunctionSpace": (lambda spaces=(FunctionSpace(tri, P1), FunctionSpace(tri, P2)): ufl.MixedFunctionSpace(*spaces),
                               {"spaces": [(FunctionSpace(tri, P1), FunctionSpace(tri, P2)), (FunctionSpace(tri, P2), FunctionSpace(tri, P1)),
                                           (FunctionSpace(tri, P1), FunctionSpace(tri_b, P2))]}),
        "FunctionSpace over a MeshSequence": (lambda meshes=(tri, tri_b): FunctionSpace(ufl.MeshSequence(list(meshes)), E.MixedElement([P1, P2], make_cell_sequence=True)),
                                              {"meshes": [(tri, tri_b), (tri_b, tri)]}),
        "Coefficient over a MeshSequence": (lambda meshes=(tri, tri_b), count=7501: Coefficient(
            FunctionSpace(ufl.MeshSequence(list(meshes)), E.MixedElement([P1, P2], make_cell_sequence=True)), count=count),
            {"meshes": [(tri, tri_b), (tri_b, tri)], "count": [7501, 7502]}),
    }
    for cname, (ctor, fields) in FIELDS.items():
        def perturb(cname=cname, ctor=ctor, fields=fields):
            n = 0
            base = {k: vs[0] for k, vs in fields.items()}
            a0, a1 = ctor(**base), ctor(**base)
            if not (a0 == a1) or (a0 != a1):
                return violated(f"{cname}: two objects built from equal fields are not equal", replay={"class": cname, "fields": repr(base)}, reproduced=True)
            try:
                if hash(a0) != hash(a1):
                    return violated(f"{cname}: equal objects have different hashes", replay={"class": cname, "fields": repr(base)}, reproduced=True)
            except TypeError:
                pass
            if repr(a0) != repr(a1):
                return violated(f"{cname}: equal objects have different repr", replay={"class": cname, "fields": repr(base)}, reproduced=True)
            bases = [base, {k: (vs[1] if len(vs) > 1 else vs[0]) for k, vs in fields.items()}]
            for base_, (fld, vals) in itertools.product(bases, fields.items()):
                for v0, v1 in itertools.combinations(vals, 2):
                    try:
                        x = ctor(**{**base_, fld: v0})
                        y = ctor(**{**base_, fld: v1})
                    except (ValueError, TypeError, AssertionError, KeyError, IndexError):
                        continue
                    n += 1
                    if x is y:
                        continue
                    if (x == y) or (y == x):
                        return violated(f"{cname}: objects differing only in field `{fld}` ({v0!r} vs {v1!r}) compare equal: "
                                        f"{x!r} == {y!r}",
                                        replay={"class": cname, "field": fld, "values": [repr(v0), repr(v1)], "a": repr(x), "b": repr(y)},
                                        reproduced=True, backend="exec")
            return proved("exec(field perturbation)", vcs=n, sample=f"{cname}: {n} single-field perturbations are all unequal; equal fields => equal, same hash/repr")
        run.add(f"field-perturbation/{cname}", perturb, kind="values")

    # ------------------------------------------------------------------ (iii) laws over a corpus
    def corpus_exprs():
        t = terms()
        f, g, u, v, A = t["f"], t["g"], t["u"], t["v"], t["A"]
        i = Index(931)
        mk = [
            lambda: f * g, lambda: g * f, lambda: f + g, lambda: f * g + u[0], lambda: u[i] * v[i], lambda: inner(grad(f), grad(g)),
            lambda: sin(f) * g, lambda: C.Variable(f * g, C.Label(961)), lambda: C.Variable(f * g, C.Label(962)), lambda: C.Variable(f + g, C.Label(961)), lambda: as_vector([f, g]), lambda: conditional(lt(f, g), f, g), lambda: A[0, 1] * f,
            lambda: C.Zero((2,)), lambda: C.IntValue(2) * f, lambda: f("+"), lambda: f("-"), lambda: grad(grad(f)), lambda: C.Constant(t["msh"], (2,), count=7555),
            lambda: C.Constant(t["msh"], (3,), count=7555), lambda: C.Constant(t["msh"], (), count=7555) * f,
        ]
        # operators that carry data besides their operands (external operators, interpolation): the data must take part in ==
        # also when the node sits inside another expression
        S2 = FunctionSpace(t["msh"], P1)
        EO = lambda fs, d: C.ExternalOperator(f, g, function_space=fs, derivatives=d)      # noqa: E731
        mk += [lambda: EO(t["S"], (0, 0)), lambda: EO(t["S"], (0, 1)), lambda: EO(S2, (0, 0)),
               lambda: 2 * EO(t["S"], (0, 0)) + f, lambda: 2 * EO(t["S"], (0, 1)) + f, lambda: 2 * EO(S2, (0, 0)) + f,
               lambda: sin(EO(t["S"], (1, 0))) * g, lambda: sin(EO(t["S"], (0, 1))) * g,
               lambda: ufl.interpolate(f * g, t["S"]) * g, lambda: ufl.interpolate(f * g, S2) * g]
        out = []
        for m in mk:
            out.append(m())
            out.append(m())      # structurally equal, distinct object
        return out

    def laws():
        xs = corpus_exprs()
        snap = [(repr(x), hash(x), str(x)) for x in xs]
        n = 0
        eq = {}
        for a_i, a in enumerate(xs):
            for b_i, b in enumerate(xs):
                r1 = a == b
                eq[(a_i, b_i)] = r1
                n += 1
                if not isinstance(r1, bool):
                    return violated(f"== returned {type(r1).__name__}", reproduced=True)
                if r1 and (hash(a) != hash(b) or repr(a) != repr(b)):
                    return violated(f"equal expressions with different hash/repr: {a!r} vs {b!r}", replay={"a": repr(a), "b": repr(b)}, reproduced=True)
                if r1 and (a.ufl_shape != b.ufl_shape or a.ufl_free_indices != b.ufl_free_indices):
                    return violated(f"equal expressions with different shape/indices: {a!r} vs {b!r}", replay={"a": repr(a), "b": repr(b)}, reproduced=True)
        for a_i in range(len(xs)):
            if not eq[(a_i, a_i)]:
                return violated(f"== not reflexive on {xs[a_i]!r}", reproduced=True)
            for b_i in range(len(xs)):
                if eq[(a_i, b_i)] != eq[(b_i, a_i)]:
                    return violated(f"== not symmetric: {xs[a_i]!r} vs {xs[b_i]!r}", replay={"a": repr(xs[a_i]), "b": repr(xs[b_i])}, reproduced=True)
                for c_i in range(len(xs)):
                    if eq[(a_i, b_i)] and eq[(b_i, c_i)] and not eq[(a_i, c_i)]:
                        return violated("== not transitive", replay={"a": repr(xs[a_i]), "b": repr(xs[b_i]), "c": repr(xs[c_i])}, reproduced=True)
        # frame condition: nothing observable changed by all those comparisons
        for x, (r, h, s) in zip(xs, snap):
            if repr(x) != r or hash(x) != h or str(x) != s:
                return violated(f"comparisons changed an expression: repr/hash/str of {r} differ afterwards", replay={"before": r, "after": repr(x)}, reproduced=True)
        # pairs built twice must be equal (structural equality), different ones must not collide
        for k in range(0, len(xs), 2):
            if not eq[(k, k + 1)]:
                return violated(f"two structurally identical expressions compare unequal: {xs[k]!r}", replay={"a": repr(xs[k])}, reproduced=True)
        return bounded_ok(n, f"all pairs and triples of {len(xs)} corpus expressions (each built twice)",
                          sample="reflexive, symmetric, transitive; == implies equal hash, repr, shape; comparisons leave repr/hash/str unchanged")
    run.function(expr_equals)
    run.function(ufl.core.compute_expr_hash.compute_expr_hash)
    run.add("laws/expression-corpus", laws, kind="bounded")

    def expr_equals_frame():
        """expr_equals may assign self.ufl_operands only to an equal tuple."""
        t = terms()
        f, g = t["f"], t["g"]
        a, b = sin(f * g) + f, sin(f * g) + f
        ops_before = a.ufl_operands
        r = expr_equals(a, b)
        if not r:
            return violated("expr_equals says two identical expressions differ", reproduced=True)
        if tuple(map(repr, a.ufl_operands)) != tuple(map(repr, ops_before)) or not all(x == y for x, y in zip(a.ufl_operands, ops_before)):
            return violated("expr_equals replaced self.ufl_operands by a different tuple", reproduced=True)
        c = sin(f * g) + g
        ops_c = c.ufl_operands
        if expr_equals(a, c) or c.ufl_operands is not ops_c or a.ufl_operands is c.ufl_operands:
            return violated("expr_equals modified operands of unequal expressions", reproduced=True)
        src = inspect.getsource(expr_equals)
        tree = ast.parse(src)
        stores = [ast.unparse(nn) for nn in ast.walk(tree) if isinstance(nn, (ast.Assign, ast.AugAssign)) and
                  any(isinstance(tg, (ast.Attribute, ast.Subscript)) for tg in (nn.targets if isinstance(nn, ast.Assign) else [nn.target]))]
        allowed = [s_ for s_ in stores if s_.replace(" ", "") == "self.ufl_operands=other.ufl_operands"]
        if len(stores) != len(allowed):
            return violated(f"expr_equals writes to object state other than the operand sharing: {stores}", replay={"stores": stores}, reproduced=False, backend="ast")
        return proved("exec+ast", vcs=3, sample="expr_equals only shares operand tuples of equal expressions")
    run.add("frame/expr_equals", expr_equals_frame, kind="proof")

    def forms_laws():
        t = terms()
        f, g, u = t["f"], t["g"], t["u"]
        v = TestFunction(t["S"])
        mk = [lambda: f * v * dx, lambda: f * v * dx(1), lambda: f * v * ds, lambda: f * v * dx + g * v * ds, lambda: f * v * dx(metadata={"quadrature_degree": 2}),
              lambda: f * v * dx(metadata={"quadrature_degree": 3}), lambda: g * v * dx]
        fs = []
        for m in mk:
            fs += [m(), m()]
        n = 0
        for a_i, a in enumerate(fs):
            for b_i, b in enumerate(fs):
                n += 1
                e1, e2 = a.equals(b), b.equals(a)
                if e1 != e2:
                    return violated("Form.equals not symmetric", replay={"a": repr(a), "b": repr(b)}, reproduced=True)
                if e1 and (hash(a) != hash(b) or repr(a) != repr(b) or a.signature() != b.signature()):
                    return violated("equal forms with different hash/repr/signature", replay={"a": repr(a), "b": repr(b)}, reproduced=True)
                if (a_i // 2 == b_i // 2) and not e1:
                    return violated("identically built forms are not equal", replay={"a": repr(a)}, reproduced=True)
                if (a_i // 2 != b_i // 2) and e1:
                    return violated(f"different forms compare equal: {a} vs {b}", replay={"a": repr(a), "b": repr(b)}, reproduced=True)
        return bounded_ok(n, f"all pairs of {len(fs)} forms", sample="Form.equals symmetric, consistent with hash/repr/signature")
    run.add("laws/forms", forms_laws, kind="bounded")

    def forms_equal_pairs():
        """Forms built from different but EQUAL terminals (an instance of a user subclass of Coefficient / Constant equals the plain object with
        the same count and space): equal forms are interchangeable, in particular they have the same signature."""
        from ufv import sigforms as S_
        t = terms()
        Sp = t["S"]
        v = TestFunction(Sp)
        fP = Coefficient(Sp, count=7600)
        gU, gP = S_.UserCoefficient(Sp, count=7601), Coefficient(Sp, count=7601)
        kU, kP = S_.UserConstant(t["msh"], count=7602), Constant(t["msh"], count=7602)
        kQ = Constant(t["msh"], count=7603)
        pairs = [("coefficient of a user subclass next to a plain one", lambda: fP * gU * v * dx, lambda: fP * gP * v * dx),
                 ("constants", lambda: kQ * kU * fP * v * dx, lambda: kQ * kP * fP * v * dx),
                 ("both", lambda: (kU * gU + kQ * fP) * v * dx + gU * fP * v * ds, lambda: (kP * gP + kQ * fP) * v * dx + gP * fP * v * ds)]
        n = 0
        for name, mkA, mkB in pairs:
            A, B = mkA(), mkB()
            sA, sB = A.signature(), B.signature()      # before any ==: a successful == shares operand tuples
            hA, hB, rA, rB = hash(A), hash(B), repr(A), repr(B)
            n += 1
            if A.equals(B) and (sA != sB or hA != hB or rA != rB):
                return violated(f"{name}: the two forms are equal (==, hash, repr: {hA == hB}, {rA == rB}) but their signatures differ "
                                f"({sA[:16]}... vs {sB[:16]}...): equal forms are not interchangeable",
                                replay={"pair": name, "sigA": sA, "sigB": sB, "reprA": rA[:500]}, reproduced=True, backend="exec")
        return bounded_ok(n, f"{len(pairs)} pairs of equal forms built from different objects", sample="equal forms have equal signature, hash and repr")
    run.add("laws/equal-forms-from-different-objects", forms_equal_pairs, kind="bounded")

    # ------------------------------------------------------------------ equal expressions are interchangeable whatever objects they share
    def sharing():
        """e1 and e2 are equal; in e1 a repeated sub-expression is ONE object, in e2 it is built afresh at each occurrence.  Signature, hash, repr and
        the numbering of indices / terminals are functions of the structure only, and evaluating == (which may share operand tuples) changes none of them."""
        from ufl import dx as _dx
        t = terms()
        f, g, u, A = t["f"], t["g"], t["u"], t["A"]
        w2 = Coefficient(t["V"])

        j_, k_ = Index(), Index()

        def X():            # a new object at each call, structurally the same expression (same bound index)
            return u[j_] * u[j_]

        def P():
            return w2[k_] * w2[k_]
        builders = [
            ("X/(P/X)", lambda x1, x2: x1 / (P() / x2)), ("X*(P + X) + f", lambda x1, x2: x1 * (P() + x2) + f), ("conditional(X < P, X, f)", lambda x1, x2: conditional(lt(x1, P()), x2, f)),
            ("sin(X)*P*sin(X)", lambda x1, x2: sin(x1) * P() * sin(x2)), ("as_vector([X, P, X])[1]*g", lambda x1, x2: as_vector([x1, P(), x2])[1] * g),
            ("(X + P)/(X*P)", lambda x1, x2: (x1 + P()) / (x2 * P())), ("P/(X/(P/X))", lambda x1, x2: P() / (x1 / (P() / x2))),
        ]
        n = 0
        for nm, bld in builders:
            xs = X()
            e1 = bld(xs, xs)              # shared
            e2 = bld(X(), X())            # nothing shared
            xs3 = X()
            e3 = bld(xs3, X())            # first occurrence shared with nothing
            forms = [e_ * _dx(t["msh"]) for e_ in (e1, e2, e3)]
            sig0 = [F_.signature() for F_ in forms]
            snap0 = [(repr(e_), hash(e_)) for e_ in (e1, e2, e3)]
            n += 1
            if len(set(sig0)) != 1:
                return violated(f"'{nm}' built with a shared / an unshared repeated sub-expression: the expressions are equal (repr {snap0[0][0] == snap0[1][0]}) but the form "
                                f"signatures differ: {[s_[:12] for s_ in sig0]}", replay={"expr": nm, "signatures": sig0}, reproduced=True, backend="exec")
            eqs = (e1 == e2, e2 == e3, e3 == e1, e2 == e1)
            if not all(eqs):
                return violated(f"'{nm}': structurally equal expressions compare unequal {eqs}", replay={"expr": nm}, reproduced=True, backend="exec")
            # fresh Form objects over the same expressions (signatures are cached per Form)
            sig1 = [(e_ * _dx(t["msh"])).signature() for e_ in (e1, e2, e3)]
            snap1 = [(repr(e_), hash(e_)) for e_ in (e1, e2, e3)]
            if sig1 != sig0 or snap1 != snap0:
                return violated(f"'{nm}': evaluating == changed the signature / repr / hash of an operand: before {[s_[:12] for s_ in sig0]}, after {[s_[:12] for s_ in sig1]}",
                                replay={"expr": nm, "before": sig0, "after": sig1}, reproduced=True, backend="exec")
        return bounded_ok(n, f"{len(builders)} expressions x 3 sharing patterns", sample="signature, repr and hash depend on the structure only; == leaves them unchanged")
    run.add("laws/sharing-pattern-does-not-matter", sharing, kind="bounded")

    # ------------------------------------------------------------------ (iv) round trips
    def roundtrip():
        t = terms()
        f, g, u, A = t["f"], t["g"], t["u"], t["A"]
        i = Index(941)
        objs = [f, u, A, C.Constant(t["msh"], (2,)), TestFunction(t["S"]), C.Argument(t["V"], 1, 0), C.SpatialCoordinate(t["msh"]), C.FacetNormal(t["msh"]),
                C.IntValue(3), C.FloatValue(0.125), C.ComplexValue(1 + 2j), C.Zero((2,), (i.count(),), (3,)), C.Identity(3), C.PermutationSymbol(2),
                MultiIndex((FixedIndex(1), i)), C.Label(951), variable(f * g), f * g + 1, u[i] * u[i], as_vector([f, g]), conditional(lt(f, g), f, 2.0),
                grad(f), sin(f) ** 2, f("+"), inner(grad(u), grad(u)), A.T, abs(f), C.Conj(f), f / g,
                Coefficient(FunctionSpace(t["msh"], P1, "labelled")), C.CellVolume(t["msh"]), C.Jacobian(t["msh"])]
        # operands that the canonical operand order cannot separate (they differ only in free-index / label numbers), given to
        # every commutative constructor in both orders: the printed operand order must be reproduced by eval(repr(.))
        j = Index(942)
        va, vb = C.Variable(f, C.Label(952)), C.Variable(f, C.Label(953))
        ties = [(A[i, j], A[j, i]), (va, vb), (A[i, 0], A[j, 0]), (u[i], u[j])]
        for p_, q_ in ties:
            for x_, y_ in ((p_, q_), (q_, p_)):
                if x_.ufl_free_indices == y_.ufl_free_indices:
                    objs += [x_ + y_, C.Sum(x_, y_), C.Abs(x_ + y_) * f]
                    if not x_.ufl_free_indices:
                        objs += [x_ * y_, C.Product(x_, y_)]
                else:
                    objs += [C.Product(x_, y_)]
        objs += [as_tensor(A[i, j] + A[j, i], (i, j)), as_tensor(A[j, i] + A[i, j], (i, j)), inner(as_tensor(A[i, 0], (i,)), as_tensor(A[j, 0], (j,)))]
        # zeros carrying free indices (several distinct ones in one container), and a probe of freshly built literals: un-pickling / re-evaluating one
        # object must not alter what any OTHER expression is (shared cached literals)
        k_ = Index(943)
        objs += [C.Zero((), (i.count(),), (2,)), 0 * u[i], C.ExprList(0 * u[i], 0 * u[j]), C.ExprList(0 * u[j], 0 * u[i], C.Zero()), as_vector([f, 0]),
                 conditional(lt(f, g), 0 * u[i], u[i]), C.Zero((2, 2), (j.count(), k_.count()), (2, 3)), C.ExprList(C.Zero((2,)), C.Zero((2,), (i.count(),), (3,)))]

        def probe():
            return [repr(x_) for x_ in (C.Zero(), C.Zero((2,)), C.Zero((2, 2)), as_vector([f, 0]), C.IntValue(0) * f, C.Identity(2), C.IntValue(1), C.FloatValue(0.5),
                                        MultiIndex((FixedIndex(0),)), MultiIndex(()))]
        probe0 = probe()
        n = 0
        for o in objs:
            n += 1
            try:
                p = pickle.loads(pickle.dumps(o))
            except Exception as ex:  # noqa: BLE001
                return violated(f"pickle round trip of {type(o).__name__} failed: {type(ex).__name__}: {ex}", replay={"object": repr(o)}, reproduced=True)
            if not (p == o) or repr(p) != repr(o):
                return violated(f"pickle round trip of {type(o).__name__} gives an unequal object: {p!r} vs {o!r}", replay={"object": repr(o)}, reproduced=True)
            try:
                e = eval(repr(o), dict(ns))
            except Exception as ex:  # noqa: BLE001
                return violated(f"eval(repr(x)) failed for {type(o).__name__}: {type(ex).__name__}: {ex}", replay={"repr": repr(o)}, reproduced=True)
            if not (e == o):
                return violated(f"eval(repr(x)) != x for {type(o).__name__}: {o!r}", replay={"repr": repr(o), "roundtrip": repr(e)}, reproduced=True)
            if probe() != probe0:
                chg = [(a_, b_) for a_, b_ in zip(probe0, probe()) if a_ != b_][0]
                return violated(f"the round trip of {o!r:.120} changed an unrelated, freshly built literal: {chg[0]} is now {chg[1]}",
                                replay={"object": repr(o)[:600], "before": chg[0], "after": chg[1]}, reproduced=True, backend="exec")
        return proved("exec", vcs=n, sample=f"{n} representatives: pickle and eval(repr) round trips give equal objects and leave cached literals alone")
    run.add("roundtrip/pickle-and-repr", roundtrip, kind="values")

    # base forms and integrals: eval(repr(.)) and pickle give an equal object (forms are compared with .equals: == builds an Equation); integrals that compare equal
    # have one hash and one repr whatever the order in which their extra-domain map was written
    def baseform_roundtrip():
        from ufl import Action, Adjoint, Coargument, Cofunction, Form, FormSum, Integral, Matrix, Measure, ZeroBaseForm
        t = terms()
        f, g = t["f"], t["g"]
        S_, V_ = t["S"], t["V"]
        v, u = TestFunction(S_), C.Argument(S_, 1)
        M = Matrix(S_, S_, count=971)
        M2 = Matrix(S_, V_, count=972)
        cof = Cofunction(S_.dual(), count=973)
        dxm = Measure("dx", domain=t["msh"])
        L_ = f * v * dxm
        objs = [M, M2, cof, Coargument(S_.dual(), 0), ZeroBaseForm((v, u)), ZeroBaseForm((v,)), ZeroBaseForm(()), L_, f * g * dxm(1, degree=2) + f * v * Measure("ds", domain=t["msh"]),
                L_.integrals()[0], FormSum((L_, 2), (cof, 3)), Action(M, f), Adjoint(M), Action(M2, t["u"])]
        same = lambda a_, b_: a_.equals(b_) if hasattr(a_, "equals") else bool(a_ == b_)     # noqa: E731
        n = 0
        for o in objs:
            n += 1
            try:
                e = eval(repr(o), dict(ns))
            except Exception as ex:  # noqa: BLE001
                return violated(f"eval(repr(x)) failed for a {type(o).__name__}: {type(ex).__name__}: {ex}", replay={"repr": repr(o)[:800]}, reproduced=True, backend="exec")
            if not same(e, o) or not same(o, e) or repr(e) != repr(o):
                return violated(f"eval(repr(x)) of a {type(o).__name__} is not equal to x: {e!r:.200} vs {o!r:.200}", replay={"repr": repr(o)[:800]}, reproduced=True, backend="exec")
            try:
                p_ = pickle.loads(pickle.dumps(o))
            except Exception as ex:  # noqa: BLE001
                return violated(f"pickle round trip of a {type(o).__name__} failed: {type(ex).__name__}: {ex}", replay={"repr": repr(o)[:800]}, reproduced=True, backend="exec")
            if not same(p_, o) or repr(p_) != repr(o) or hash(p_) != hash(o):
                return violated(f"pickle round trip of a {type(o).__name__} gives an unequal object", replay={"repr": repr(o)[:800]}, reproduced=True, backend="exec")
        # integrals over several meshes: the extra-domain map written in either order
        m0, m1, m2 = (ufl.Mesh(E.LagrangeElement(ufl.triangle, 1, (2,)), ufl_id=k_) for k_ in (981, 982, 983))
        f0 = Coefficient(FunctionSpace(m0, P1), count=984)
        for maps in (({m1: "exterior_facet", m2: "cell"}, {m2: "cell", m1: "exterior_facet"}), ({m2: "interior_facet", m1: "cell"}, {m1: "cell", m2: "interior_facet"})):
            Ia, Ib = (Integral(f0, "cell", m0, 1, {}, None, extra_domain_integral_type_map=mp_) for mp_ in maps)
            n += 1
            if Ia == Ib:
                bad = [w_ for w_, ok_ in (("hash", hash(Ia) == hash(Ib)), ("repr", repr(Ia) == repr(Ib)), ("a set of the two has one member", len({Ia, Ib}) == 1),
                                          ("Form.equals", Form([Ia]).equals(Form([Ib]))), ("form hash", hash(Form([Ia])) == hash(Form([Ib]))),
                                          ("form signature", Form([Ia]).signature() == Form([Ib]).signature())) if not ok_]
                if bad:
                    return violated(f"two integrals over three meshes whose extra-domain maps have the same entries in another order compare equal, but differ in: {', '.join(bad)}",
                                    replay={"maps": [str(list(map(str, mp_.values()))) for mp_ in maps], "differ": bad}, reproduced=True, backend="exec")
        return proved("exec", vcs=n, sample=f"{n} base forms / integrals: eval(repr) and pickle round trips equal; equal integrals have one hash, repr and signature")
    run.add("roundtrip/base-forms-and-integrals", baseform_roundtrip, kind="values")

    # pickles travel between PROCESSES (other hash seed): an object hashed and pickled in one process equals, and hashes like, the same object built in another
    def pickle_across_processes():
        import base64
        import os
        import subprocess
        import sys
        src = ("import warnings; warnings.simplefilter('ignore')\n"
               "import ufl, ufv.opq\n"
               "from ufv import sigforms as S\n"
               "def build():\n"
               "    S.set_counters({k: 300 for k in S.COUNTER_FAMILIES})\n"
               "    m = S.new_mesh()\n"
               "    V = ufl.FunctionSpace(m, S.L(ufl.triangle, 1)); W = ufl.FunctionSpace(m, S.L(ufl.triangle, 2, (2,)))\n"
               "    f, g, w = ufl.Coefficient(V), ufl.Coefficient(V), ufl.Coefficient(W)\n"
               "    v = ufl.TestFunction(V)\n"
               "    i = ufl.Index(7)\n"
               "    dx = ufl.Measure('dx', domain=m)\n"
               "    return {'f*f + 1': f * f + 1, 'sin(f)*g': ufl.sin(f) * g, 'w[i]*w[i]': w[i] * w[i], 'grad(f)': ufl.grad(f), 'conditional': ufl.conditional(ufl.lt(f, g), f, 2.0),\n"
               "            'form': f * g * v * dx + f * v * ufl.Measure('ds', domain=m)(1), 'integral': (f * v * dx).integrals()[0], 'matrix': ufl.Matrix(V, V, count=301),\n"
               "            'cofunction': ufl.Cofunction(V.dual(), count=302), 'zero base form': ufl.ZeroBaseForm((v,)), 'coefficient': f, 'literal': ufl.as_ufl(2.5) * f}\n")
        dump = src + ("import pickle, base64, sys\nobjs = build()\nfor o in objs.values():\n    hash(o); repr(o)\n"
                      "    getattr(o, 'signature', lambda: None)()\nsys.stdout.write(base64.b64encode(pickle.dumps(objs)).decode())\n")
        ns_ = {}
        exec(src, ns_)
        mine = ns_["build"]()
        n = 0
        for seed in ("123", "4567"):
            r = subprocess.run([sys.executable, "-c", dump], env=dict(os.environ, PYTHONHASHSEED=seed), capture_output=True, text=True, timeout=300)
            if r.returncode != 0:
                return undecided(f"child process failed: {r.stderr[-300:]}")
            theirs = pickle.loads(base64.b64decode(r.stdout.strip().splitlines()[-1]))
            for nm_, o in mine.items():
                p_ = theirs[nm_]
                n += 1
                same = (p_.equals(o) and o.equals(p_)) if hasattr(o, "equals") else (bool(p_ == o) and bool(o == p_))
                if repr(p_) != repr(o):
                    return undecided(f"{nm_}: the child process built a different object")
                if not same or hash(p_) != hash(o) or len({p_, o}) != 1:
                    return violated(f"{nm_}: hashed and pickled in a process with PYTHONHASHSEED={seed}, un-pickled here: same repr as the object built here, but "
                                    f"== is {same}, equal hashes: {hash(p_) == hash(o)}, a set of the two has {len({p_, o})} member(s)",
                                    replay={"object": nm_, "seed": seed}, reproduced=True, backend="subprocess")
        return bounded_ok(n, "12 objects x 2 child processes with other hash seeds", sample="an un-pickled object equals and hashes like its twin built in the receiving process")
    run.add("roundtrip/pickle-across-processes", pickle_across_processes, kind="bounded")

    # literals: the printed text of a real / complex literal must denote the same double (shortest round-trip text or more digits)
    def literal_roundtrip():
        import math
        import random
        import struct
        t = terms()
        f = t["f"]
        rnd = random.Random(1313)
        vals = [0.1 + 0.2, 0.3, 1 / 3, 2 / 3, math.pi, math.sqrt(2), 1.1 * 1.1, 5e-324, 2.2250738585072014e-308, 1.7976931348623157e308, 1e16 + 2, 123456789.12345678,
                0.1, 1e22, 1e23, 9007199254740993.0, -0.30000000000000004, 1 - 2 ** -53, 1 + 2 ** -52, 4.35, 0.5000000000000001]
        while len(vals) < 260:
            x = struct.unpack("<d", struct.pack("<Q", rnd.getrandbits(64)))[0]
            if x == x and abs(x) != float("inf") and x != 0:
                vals.append(x)
        n = 0
        for x in vals:
            for lit in (C.FloatValue(x), C.ComplexValue(complex(x, 1.0)), C.ComplexValue(complex(2.0, x))):
                for o in (lit, lit * f, as_vector([lit, f])):
                    n += 1
                    try:
                        e = eval(repr(o), dict(ns))
                    except Exception as ex:  # noqa: BLE001
                        return violated(f"eval(repr(x)) failed for a literal with value {x!r}: {type(ex).__name__}: {ex}", replay={"repr": repr(o)}, reproduced=True)
                    if not (e == o) or not (o == e):
                        return violated(f"eval(repr(x)) != x for the literal value {x!r} (printed as {lit!r}): the printed text denotes another number",
                                        replay={"value": repr(x), "repr": repr(o), "roundtrip": repr(e)}, reproduced=True, backend="exec")
                    p_ = pickle.loads(pickle.dumps(o))
                    if not (p_ == o):
                        return violated(f"pickle round trip changes the literal value {x!r}", replay={"value": repr(x)}, reproduced=True, backend="exec")
        return bounded_ok(n, f"{len(vals)} doubles (values needing 16-17 significant digits, subnormal, extreme, 239 random bit patterns) as real and complex literals, "
                             "alone and inside expressions", sample="eval(repr(.)) and pickle reproduce every literal exactly")
    run.add("roundtrip/float-and-complex-literals", literal_roundtrip, kind="bounded")

    def canary():
        a, b = C.IntValue(3), C.IntValue(4)
        if a == b:
            return proved("canary")
        return violated("canary refuted", reproduced=True)
    run.add("canary/3-equals-4", canary, kind="canary")
