"""C20 — type dispatch stays valid when new expression types are registered later.

Functions under contract: MultiFunction.__init__/__call__, Transformer.__init__/visit,
ufl_type/update_ufl_type_attributes, DAGTraverser.__call__/process (singledispatch).

Contract
  post(__init__):  for EVERY type T registered at the time of the call, the handler bound for T is the
                   method named by the nearest ancestor of T (in MRO order) for which the algorithm class
                   has a handler — independently of what was cached for the class before.
  inv(__call__/visit): an instance created when n0 types existed, applied to an object of any type
                   registered now (typecode < n0 or >= n0), dispatches to that same handler.
The control flow of __init__ depends only on the state of the class-level cache, so the case partition
{no cache entry, entry computed for the current registry, entry computed for a smaller registry} is
complete; each cell is executed on the real code and the postcondition is checked for ALL registered types
and a family of synthetic handler tables (every subset of a chain of ancestor handlers).
Bounded stand-in: all histories of length <= L over {register a new type, instantiate} with every live
instance applied to every type after each step.
"""
from __future__ import annotations

import itertools

from ufl.algorithms.transformer import Transformer
from ufl.classes import IntValue, Sum
from ufl.core.expr import Expr
from ufl.core.operator import Operator
from ufl.core.terminal import Terminal
from ufl.core.ufl_type import UFLType, ufl_type, update_ufl_type_attributes
from ufl.corealg.dag_traverser import DAGTraverser
from ufl.corealg.multifunction import MultiFunction

from ufv.core import crash_text, deliberate, bounded_ok, proved, undecided, violated
from ufv.opq import Opq

LEVEL = "other"
TECHNIQUE = ("contract postcondition/invariant of the dispatch-table constructors executed on the real code for every cell of the "
             "AST-derived case partition of the class-level cache state, checked for all registered types and a family of handler "
             "tables against an independently computed nearest-ancestor oracle; bounded exhaustive histories as stand-in")
LEVEL_TEXT = ("Per-cell contract check on the real constructors (complete partition of the cache state; all registered types; "
              "synthetic and all real algorithm classes) plus exhaustive enumeration of short histories. Not a symbolic proof over "
              "registry sizes: the registry is concrete in each run.")
LEVEL_NOTE = ("Trusted: the oracle (nearest ancestor in T.mro() whose handler name is an attribute of the algorithm class) written "
              "independently in ufv/props/c20.py; CPython. Histories are bounded (length <= 4 quick / 6 thorough). "
              "Assumes the partition of __init__'s behaviour by cache state is complete (branches read from the source: "
              "one `if` on the cache entry).")
TRUSTED = ["nearest-ancestor oracle in ufv/props/c20.py", "CPython"]
ASSUMPTIONS = ["registry sizes are concrete in each run (cells: cache miss / fresh cache / stale cache; typecode below / above the size at instantiation)",
               "histories bounded in length", "new types are registered through the public @ufl_type decorator"]
EXPLANATION = ("Dispatch constructors and call paths of the three frameworks are executed for every state of the class-level "
               "handler cache relative to the type registry; the handler actually reached for every registered type is compared with "
               "an independently computed nearest-ancestor oracle; all real algorithm classes of ufl.algorithms are re-instantiated "
               "after registry growth and compared with a fresh-cache instantiation.")

_counter = [0]


_CLASSNAME = {"term": "LateTerminal", "op": "LateOperator", "sumchild": "LateSum", "opchild": "LateParent"}


def reserve(flavor):
    """Reserve the name of a type to be registered later: (uniq, handler name the decorator will derive from the class name)."""
    from ufl.utils.formatting import camel2underscore
    _counter[0] += 1
    import os
    uniq = f"{_counter[0]}x{os.getpid()}"
    return uniq, camel2underscore(_CLASSNAME[flavor] + uniq)


def register_new_type(flavor, uniq=None):
    """Register a new Expr subclass through the public decorator (unique class name per call).
    flavor: term | op | sumchild"""
    if uniq is None:
        uniq, _ = reserve(flavor)
    if flavor == "term":
        def __init__(self):
            Terminal.__init__(self)
        ns = {"__slots__": (), "ufl_shape": (), "__init__": __init__, "ufl_domains": lambda self: (),
              "is_cellwise_constant": lambda self: True, "__repr__": lambda self: type(self).__name__ + "()",
              "_ufl_signature_data_": lambda self, r: repr(self)}
        NewT = ufl_type()(UFLType(f"LateTerminal{uniq}", (Terminal,), ns))
        return NewT, (lambda: NewT())
    if flavor == "op":
        def __init__(self, a):
            Operator.__init__(self, (a,))
        NewO = ufl_type(num_ops=1, inherit_shape_from_operand=0, inherit_indices_from_operand=0)(
            UFLType(f"LateOperator{uniq}", (Operator,), {"__slots__": (), "__init__": __init__}))
        return NewO, (lambda: NewO(IntValue(3)))
    if flavor == "opchild":
        # a late type whose PARENT is a late type too (a plugin shipping a small class hierarchy): the child has no handler of its own, so
        # the nearest-ancestor rule sends it to the handler named after its late parent when the algorithm has one (round-11 seed c20-k)
        def __init__(self, a):
            Operator.__init__(self, (a,))
        NewP = ufl_type(num_ops=1, inherit_shape_from_operand=0, inherit_indices_from_operand=0)(
            UFLType(f"LateParent{uniq}", (Operator,), {"__slots__": (), "__init__": __init__}))
        NewC = ufl_type(num_ops=1, inherit_shape_from_operand=0, inherit_indices_from_operand=0)(
            UFLType(f"LateChildOf{uniq}", (NewP,), {"__slots__": ()}))
        return NewC, (lambda: NewC(IntValue(3)))

    def __new__(cls, a, b):
        self = Operator.__new__(cls)
        self._init(a, b)
        return self
    NewS = ufl_type(num_ops=2, inherit_shape_from_operand=0, inherit_indices_from_operand=0)(
        UFLType(f"LateSum{uniq}", (Sum,), {"__slots__": (), "__new__": __new__}))
    return NewS, (lambda: NewS(Opq("p"), Opq("q")))


def oracle(alg_cls, T):
    """Nearest ancestor rule, computed from class attributes only."""
    for c in T.mro():
        name = c.__dict__.get("_ufl_handler_name_")
        if name is None:
            if isinstance(c, UFLType):
                continue
            # non-UFL class in the MRO (object): default handler name
            name = UFLType._ufl_handler_name_
        if hasattr(alg_cls, name):
            return name
    return None


def make_alg(framework, handled, post=False):
    """Fresh algorithm class (fresh cache key) whose handlers return their own name (post=True: handlers take the transformed
    operands and return (name, operands))."""
    ns = {}
    for name in handled:
        if post:
            ns[name] = (lambda nm: (lambda self, o, *ops: (nm, tuple(ops))))(name)
        elif framework == "mf":
            ns[name] = (lambda nm: (lambda self, o: nm))(name)
        else:
            ns[name] = (lambda nm: (lambda self, o: nm))(name)
    base = MultiFunction if framework == "mf" else Transformer
    return type(f"Alg_{framework}_{'_'.join(handled)}_{_counter[0]}_{id(ns) % 9999}", (base,), ns)


def apply(framework, inst, obj, entry="call"):
    if entry == "direct-postorder":
        # the documented direct use of a MultiFunction with post-order handlers: transformed operands are passed along
        def rec(o):
            return inst(o, *[rec(op) for op in o.ufl_operands])
        return rec(obj)
    if framework == "mf" and entry == "map_expr_dag":
        from ufl.corealg.map_dag import map_expr_dag
        return map_expr_dag(inst, obj)
    if framework == "mf" and entry == "map_expr_dags":
        from ufl.corealg.map_dag import map_expr_dags
        return map_expr_dags(inst, [obj])[0]
    return inst(obj) if framework == "mf" else inst.visit(obj)


def old_samples():
    return [IntValue(2), Sum(Opq("a"), Opq("b")), Opq("c")]


HANDLER_SETS = [("expr",), ("expr", "terminal"), ("expr", "operator", "sum"), ("expr", "terminal", "operator", "sum", "int_value"),
                ("ufl_type", "sum")]


def build(run):
    thorough = run.tier == "thorough"
    run.function(MultiFunction.__init__)
    run.function(MultiFunction.__call__)
    run.function(Transformer.__init__)
    run.function(Transformer.visit)
    run.function(ufl_type)
    run.function(update_ufl_type_attributes)
    run.function(DAGTraverser.__call__)

    # ---- contract cells for the table-based frameworks
    def cell(framework, cellname, handled, entry="call", dedicated=False):
        def thunk():
            handled_ = tuple(handled)
            res = {}
            if dedicated:
                # the algorithm class defines a handler named after each type that is registered later (a plugin shipping its
                # own node type together with an algorithm that handles it by name)
                for fl in ("term", "op", "sumchild", "opchild"):
                    res[fl] = reserve(fl)
                handled_ = handled_ + tuple(hn for _, hn in res.values())
            reg = lambda fl: register_new_type(fl, res[fl][0] if dedicated else None)      # noqa: E731
            cls = make_alg(framework, handled_, post=(entry == "direct-postorder"))
            insts = []
            news = []
            if cellname == "cache-miss":
                news.append(reg("sumchild"))
                news.append(reg("opchild"))
                insts.append(cls())
            elif cellname == "cache-fresh":
                news.append(reg("op"))
                news.append(reg("opchild"))
                cls()
                insts.append(cls())
            elif cellname == "cache-stale":
                cls()                                   # populates the class-level cache
                news.append(reg("term"))
                news.append(reg("sumchild"))
                news.append(reg("opchild"))
                insts.append(cls())                     # must see the new types
            elif cellname == "old-instance-new-type":
                # one old instance per late type, so that the FIRST use of each old instance after the registrations is an instance of a late
                # type (a lone terminal, an operator, a Sum subclass): no earlier call may have refreshed its tables
                insts.extend(cls() for _ in range(5))
                news.append(reg("term"))
                news.append(reg("op"))
                news.append(reg("sumchild"))
                news.append(reg("opchild"))
            inst = insts[-1]
            inst_for = {T: (insts[k] if cellname == "old-instance-new-type" else inst) for k, (T, _mk) in enumerate(news)}
            n = 0
            # postcondition of __init__ for ALL registered types (table level); for the old-instance cell the table is
            # refreshed lazily, so only the call-level invariant below applies
            def fn(x):
                return getattr(x, "__func__", x)
            if cellname != "old-instance-new-type":
                for T in list(Expr._ufl_all_classes_):
                    want = oracle(cls, T)
                    tc = T._ufl_typecode_
                    n += 1
                    try:
                        h = inst._handlers[tc]
                        h = h[0] if isinstance(h, tuple) else h
                    except (IndexError, TypeError) as ex:
                        return violated(f"{framework}/{cellname}: no dispatch entry for registered type {T.__name__} "
                                        f"(typecode {tc}): {type(ex).__name__}: {ex}",
                                        replay={"history": cellname, "framework": framework, "handlers": list(handled_), "type": T.__name__},
                                        reproduced=True, backend="exec")
                    if want is None:
                        continue
                    if fn(h) is not fn(getattr(cls, want)):
                        return violated(f"{framework}/{cellname}: type {T.__name__} bound to {fn(h).__qualname__}, nearest-ancestor rule "
                                        f"gives handler {want!r}",
                                        replay={"history": cellname, "framework": framework, "handlers": list(handled_), "type": T.__name__},
                                        reproduced=True, backend="exec")
            # invariant of __call__/visit: by actually calling
            for (T, mk) in news:
                for o in [mk()] + old_samples():
                    want = oracle(cls, type(o))
                    n += 1
                    inst = inst_for[T]
                    try:
                        got = apply(framework, inst, o, entry)
                    except ValueError as ex:
                        if want in (None, "ufl_type", "undefined"):
                            continue
                        return violated(f"{framework}/{cellname}: applying to {type(o).__name__} raised {ex}", reproduced=True,
                                        replay={"history": cellname, "type": type(o).__name__})
                    except (IndexError, TypeError, AttributeError) as ex:
                        return violated(f"{framework}/{cellname}: applying the algorithm to an instance of registered type "
                                        f"{type(o).__name__} failed with {type(ex).__name__}: {ex}",
                                        replay={"history": cellname, "framework": framework, "handlers": list(handled),
                                                "type": type(o).__name__}, reproduced=True, backend="exec")
                    if entry == "direct-postorder":
                        def exp_rec(x):
                            wn = oracle(cls, type(x))
                            return (wn, tuple(exp_rec(op) for op in x.ufl_operands))
                        exp = exp_rec(o)
                    else:
                        exp = getattr(inst, want)(o) if want not in handled_ else want
                    if not (got is exp or got == exp):
                        return violated(f"{framework}/{cellname}: {type(o).__name__} dispatched to a handler returning {got!r}, "
                                        f"expected handler {want!r}",
                                        replay={"history": cellname, "type": type(o).__name__}, reproduced=True, backend="exec")
            return proved("exec+oracle(all registered types)", vcs=n,
                          sample=f"{framework} {cellname} handlers={handled}: {n} (type, handler) pairs agree with nearest-ancestor oracle")
        return thunk

    for fw in ("mf", "tr"):
        for cn in ("cache-miss", "cache-fresh", "cache-stale", "old-instance-new-type"):
            for hs in HANDLER_SETS:
                if fw == "tr" and "ufl_type" in hs:
                    continue
                run.add(f"{fw}/{cn}/handlers[{','.join(hs)}]", cell(fw, cn, hs), kind="values")
                if fw == "mf":
                    # the same history, entered through the DAG mappers first (no direct call has refreshed the tables)
                    for entry in ("map_expr_dag", "map_expr_dags"):
                        run.add(f"{fw}/{cn}/handlers[{','.join(hs)}]/via-{entry}", cell(fw, cn, hs, entry), kind="values")
                    if "ufl_type" not in hs:
                        run.add(f"{fw}/{cn}/handlers[{','.join(hs)}]/direct call with transformed operands", cell(fw, cn, hs, "direct-postorder"), kind="values")
            for hs in HANDLER_SETS[:3]:
                if fw == "tr" and "ufl_type" in hs:
                    continue
                run.add(f"{fw}/{cn}/handlers[{','.join(hs)}]+handler-named-after-the-late-type", cell(fw, cn, hs, dedicated=True), kind="values")
                if fw == "mf":
                    run.add(f"{fw}/{cn}/handlers[{','.join(hs)}]+handler-named-after-the-late-type/via-map_expr_dag",
                            cell(fw, cn, hs, "map_expr_dag", dedicated=True), kind="values")

    # ---- algorithm class HIERARCHIES: a derived algorithm class adds handlers its base lacks (one named after a late type, one for `sum`); the derived
    # class dispatches by ITS OWN handlers whatever the history of its base class (base used before / after the registration, derived class first / last)
    def hierarchy(framework, history):
        def thunk():
            res = {fl: reserve(fl) for fl in ("term", "op", "sumchild")}
            base_handlers = ("expr", "terminal")
            P = make_alg(framework, base_handlers)
            late_names = tuple(hn for _, hn in res.values())
            ns = {}
            for name in late_names + ("sum", "operator"):
                ns[name] = (lambda nm: (lambda self, o: nm))(name)
            S_ = type("Derived_" + P.__name__, (P,), ns)
            handled_S = base_handlers + late_names + ("sum", "operator")
            news = []
            live = {}
            for step in history:
                if step == "R":
                    news = [register_new_type(fl, res[fl][0]) for fl in ("term", "op", "sumchild")]
                elif step == "P":
                    live["P"] = P()
                    for (T, mk) in news:
                        apply(framework, live["P"], mk())
                    for o in old_samples():
                        apply(framework, live["P"], o)
                elif step == "S":
                    live["S"] = S_()
            n = 0
            for cname, cls, handled_ in (("derived", S_, handled_S), ("base", P, base_handlers)):
                for inst in [cls()] + ([live[cname[0].upper()]] if cname[0].upper() in live else []):
                    for (T, mk) in news:
                        for o in [mk()] + old_samples():
                            want = oracle(cls, type(o))
                            n += 1
                            try:
                                got = apply(framework, inst, o)
                            except (IndexError, TypeError, AttributeError, ValueError) as ex:
                                return violated(f"{framework} hierarchy, history {history}: {cname} class applied to {type(o).__name__} failed with {type(ex).__name__}: {ex}",
                                                replay={"history": history, "class": cname, "type": type(o).__name__}, reproduced=True, backend="exec")
                            if got != want:
                                return violated(f"{framework} hierarchy, history {history} (R = late types registered, P = base algorithm class used, S = derived class instantiated): "
                                                f"the {cname} algorithm class sends {type(o).__name__} to handler {got!r}; by the nearest-ancestor rule over its own handlers it is {want!r}",
                                                replay={"history": history, "class": cname, "type": type(o).__name__, "got": got, "want": want}, reproduced=True, backend="exec")
            return proved("exec+oracle", vcs=n, sample=f"{framework} base/derived algorithm classes, history {history}: {n} (class, object, type) dispatches agree with the oracle")
        return thunk
    for fw in ("mf", "tr"):
        for history in ("RPS", "RSP", "PRS", "PRPS", "SRP", "PSRP", "PSR", "SPRS"):
            run.add(f"{fw}/algorithm-class-hierarchy/history-{history}", hierarchy(fw, history), kind="values")

    # ---- DAGTraverser (singledispatch): new subclass must reach nearest registered ancestor
    def dagt():
        from functools import singledispatchmethod

        class DT(DAGTraverser):
            @singledispatchmethod
            def process(self, o):
                return "expr"

            @process.register(Sum)
            def _(self, o):
                return "sum"

            @process.register(Terminal)
            def _(self, o):
                return "terminal"
        d0 = DT()
        d0(IntValue(1))
        d0(Sum(Opq("a"), Opq("b")))
        (T1, m1), (T2, m2), (T3, m3) = register_new_type("sumchild"), register_new_type("term"), register_new_type("op")
        for inst in (d0, DT()):
            for mk, want in ((m1, "sum"), (m2, "terminal"), (m3, "expr")):
                got = inst(mk())
                if got != want:
                    return violated(f"DAGTraverser: late type {type(mk()).__name__} dispatched to {got}, want {want}", reproduced=True)
        return proved("exec+oracle", vcs=6, sample="DAGTraverser singledispatch: late subclasses reach nearest ancestor rule")
    run.add("dagtraverser/late-registration", dagt, kind="values")

    # ---- every real algorithm class: instantiation after registry growth == fresh-cache instantiation
    def real_classes():
        import ufl.algorithms  # noqa: F401
        import ufl.algorithms.apply_coefficient_split  # noqa: F401
        import ufl.algorithms.balancing  # noqa: F401
        import ufl.algorithms.change_to_reference  # noqa: F401
        import ufl.algorithms.check_restrictions  # noqa: F401
        import ufl.algorithms.coordinate_derivative_helpers  # noqa: F401
        import ufl.algorithms.formsplitter  # noqa: F401
        import ufl.algorithms.replace_derivative_nodes  # noqa: F401
        import ufl.algorithms.strip_terminal_data  # noqa: F401
        out = []

        def rec(c):
            for s in c.__subclasses__():
                if s.__module__.startswith("ufl.") and s not in out:
                    out.append(s)
                rec(s)
        rec(MultiFunction)
        rec(Transformer)
        return out

    def try_make(cls):
        for args in ((), ({},), (None,), ("+",), ({}, False), (None, None)):
            try:
                return cls(*args), args
            except Exception:  # noqa: BLE001
                continue
        return None, None

    def real():
        classes = real_classes()
        if len(classes) < 10:
            return undecided(f"only {len(classes)} real algorithm classes found")
        n = 0
        skipped = []
        # use every class once (populate caches), then grow the registry
        first = {}
        for cls in classes:
            inst, args = try_make(cls)
            if inst is None:
                skipped.append(cls.__name__)
                continue
            first[cls] = args
        news = [register_new_type("sumchild"), register_new_type("term"), register_new_type("op")]
        for cls, args in first.items():
            cache = MultiFunction._handlers_cache if issubclass(cls, MultiFunction) else Transformer._handlers_cache
            try:
                used = cls(*args)
            except Exception as ex:  # noqa: BLE001
                return violated(f"{cls.__name__}: instantiation after a later type registration raised {type(ex).__name__}: {ex}",
                                replay={"class": cls.__name__}, reproduced=True)
            cache.pop(cls, None)
            fresh = cls(*args)
            for T in Expr._ufl_all_classes_:
                tc = T._ufl_typecode_
                n += 1
                try:
                    hu = used._handlers[tc]
                except IndexError:
                    return violated(f"{cls.__name__} (used before {news[0][0].__name__} was registered) has no dispatch entry for "
                                    f"registered type {T.__name__} (typecode {tc}, table length {len(used._handlers)})",
                                    replay={"class": cls.__name__, "history": "instantiate; register type; instantiate; dispatch",
                                            "type": T.__name__}, reproduced=True, backend="exec")
                hf = fresh._handlers[tc]
                nu = (hu[0] if isinstance(hu, tuple) else hu)
                nf = (hf[0] if isinstance(hf, tuple) else hf)
                if getattr(nu, "__func__", nu) is not getattr(nf, "__func__", nf):
                    return violated(f"{cls.__name__}: handler for {T.__name__} depends on whether the class was used before the "
                                    f"type was registered", replay={"class": cls.__name__, "type": T.__name__}, reproduced=True)
        # ... and by actually applying every real algorithm object (created before / after the registrations) to instances of the late
        # types, among them a late subclass of a geometric quantity that has a dedicated handler: any per-typecode table an algorithm
        # keeps besides the handler table must cover the late types too.  Only 'index out of range' escaping from a table look-up counts
        # (an algorithm may refuse a node it cannot treat; it may not fail to dispatch it).
        from ufl.corealg.map_dag import map_expr_dag
        from ufv.opq import mesh as _mesh
        import ufl.classes as C_
        msh = _mesh("triangle")
        _counter[0] += 1
        # algorithm OBJECTS that exist before the late geometric types are registered (an object kept between calls)
        old_objects = {}
        for cls, args in first.items():
            try:
                old_objects[cls] = cls(*args)
            except Exception:  # noqa: BLE001
                pass
        LateJ = ufl_type()(UFLType(f"LateJacobian{_counter[0]}x{__import__('os').getpid()}", (C_.Jacobian,), {"__slots__": ()}))
        LateN = ufl_type()(UFLType(f"LateFacetNormal{_counter[0]}x{__import__('os').getpid()}", (C_.FacetNormal,), {"__slots__": ()}))
        objs = [mk() for _, mk in news] + [LateJ(msh), LateN(msh), C_.Indexed(LateJ(msh), C_.MultiIndex((C_.FixedIndex(0), C_.FixedIndex(1))))]
        for cls, args in first.items():
            insts = []
            try:
                insts.append(("created after the registration", cls(*args)))
            except Exception:  # noqa: BLE001
                pass
            if cls in old_objects:
                insts.append(("an object created before the registration", old_objects[cls]))
            for hist, inst in insts:
                for o in objs:
                    n += 1
                    try:
                        if isinstance(inst, MultiFunction):
                            map_expr_dag(inst, o)
                        else:
                            inst.visit(o)
                    except IndexError as ex:
                        if "out of range" in str(ex) and not deliberate(ex):
                            return violated(f"{cls.__name__} ({hist}) applied to an instance of the late-registered type {type(o).__name__}: "
                                            f"{crash_text(ex)}", replay={"class": cls.__name__, "type": type(o).__name__}, reproduced=True, backend="exec")
                    except BaseException:  # noqa: BLE001
                        pass
        from ufl.algorithms.apply_geometry_lowering import apply_geometry_lowering
        try:
            apply_geometry_lowering(C_.Indexed(LateJ(msh), C_.MultiIndex((C_.FixedIndex(0), C_.FixedIndex(0)))), (LateJ,))
            n += 1
        except IndexError as ex:
            return violated(f"apply_geometry_lowering(expr, preserve_types=(late type,)): {crash_text(ex)}", replay={"type": LateJ.__name__}, reproduced=True)
        except Exception:  # noqa: BLE001
            pass
        return proved("exec(all real algorithm classes x all registered types)", vcs=n,
                      sample=f"{len(first)} real MultiFunction/Transformer classes; skipped (ctor args unknown): {skipped}")
    run.add("real-algorithm-classes/used-before-registration", real, kind="values")

    # ---- plain FUNCTIONS handed to map_expr_dag / map_expr_dags (no handler table of their own): used before and after a registration they reach every
    # node of an expression containing the late types, with the result of applying them recursively
    def plain_functions():
        from ufl.corealg.map_dag import map_expr_dag, map_expr_dags

        def fn(o, *ops):
            return (type(o).__name__, ops)

        def rec(o):
            return (type(o).__name__, tuple(rec(x_) for x_ in o.ufl_operands))
        n = 0
        for history in ("RU", "URU", "UURUU", "URURU"):
            late = []
            for step in history:
                if step == "R":
                    late += [register_new_type("term"), register_new_type("op"), register_new_type("sumchild")]
                else:
                    for e in old_samples() + [mk() for _, mk in late]:
                        for route, call in (("map_expr_dag", lambda e_: map_expr_dag(fn, e_)), ("map_expr_dags", lambda e_: map_expr_dags(fn, [e_, e_])[1]),
                                            ("map_expr_dag(compress=False)", lambda e_: map_expr_dag(fn, e_, compress=False))):
                            n += 1
                            try:
                                got = call(e)
                            except (IndexError, TypeError, AttributeError, KeyError) as ex:
                                return violated(f"a plain function through {route}, history {history} (R = types registered, U = function used), applied to {type(e).__name__}: {crash_text(ex)}",
                                                replay={"history": history, "route": route, "type": type(e).__name__}, reproduced=True, backend="exec")
                            if got != rec(e):
                                return violated(f"a plain function through {route}, history {history}, on {type(e).__name__}: {got} instead of {rec(e)}",
                                                replay={"history": history, "route": route}, reproduced=True, backend="exec")
        return proved("exec+recursive-oracle", vcs=n, sample=f"{n} (history, route, expression) cases for plain functions")
    run.add("plain-functions/used-before-and-after-registration", plain_functions, kind="values")

    # ---- the public entry FUNCTIONS (they may keep algorithm objects between calls): using one before a type is registered must not change what it
    # does to an instance of that type afterwards.  Two child processes run the same script, with / without a warm-up call before the registration.
    def entry_functions():
        import os
        import pickle as _pk

        def script(warm):
            import warnings as _w
            import ufl as _u
            import ufl.classes as C_
            from ufl.algorithms import (apply_algebra_lowering as _aal, apply_derivatives as _ad, expand_derivatives, expand_indices, estimate_total_polynomial_degree,
                                        remove_complex_nodes as _rcn, renumbering as _rn, remove_component_tensors as _rct, comparison_checker as _cc, apply_restrictions as _ar,
                                        strip_variables, replace, apply_geometry_lowering as _agl)
            from ufv.opq import mesh as _mesh
            from ufv import elements as _E
            msh = _mesh("triangle")
            Vs = _u.FunctionSpace(msh, _E.LagrangeElement(msh.ufl_cell(), 1))
            f = _u.Coefficient(Vs)
            funcs = {
                "apply_geometry_lowering()": lambda e: _agl.apply_geometry_lowering(e), "apply_geometry_lowering(preserve CellVolume)": lambda e: _agl.apply_geometry_lowering(e, (C_.CellVolume,)),
                "apply_algebra_lowering": lambda e: _aal.apply_algebra_lowering(e), "apply_derivatives": lambda e: _ad.apply_derivatives(e), "expand_derivatives": expand_derivatives,
                "expand_indices": expand_indices, "estimate_total_polynomial_degree": estimate_total_polynomial_degree, "remove_complex_nodes": lambda e: _rcn.remove_complex_nodes(e),
                "renumber_indices": lambda e: _rn.renumber_indices(e), "remove_component_tensors": lambda e: _rct.remove_component_tensors(e),
                "do_comparison_check": lambda e: _cc.do_comparison_check(e), "apply_restrictions": lambda e: _ar.apply_restrictions(e), "strip_variables": strip_variables,
                "replace({})": lambda e: replace(e, {f: f}),
            }
            old = [f * f + _u.sin(f), C_.Jacobian(msh)[0, 0] * f, _u.CellVolume(msh) * f]
            if warm:
                for fn in funcs.values():
                    for e in old:
                        try:
                            with _w.catch_warnings():
                                _w.simplefilter("ignore")
                                fn(e)
                        except BaseException:  # noqa: BLE001
                            pass
            LateJ = ufl_type()(UFLType("LateJacobianEntry", (C_.Jacobian,), {"__slots__": ()}))
            LateN = ufl_type()(UFLType("LateFacetNormalEntry", (C_.FacetNormal,), {"__slots__": ()}))
            LateV = ufl_type()(UFLType("LateCellVolumeEntry", (C_.CellVolume,), {"__slots__": ()}))
            new = [LateJ(msh)[0, 1] * f, LateN(msh)[0] * f + 1, LateV(msh) * f, _u.sin(LateV(msh)) + LateJ(msh)[1, 1]]
            out = {}
            for nm, fn in funcs.items():
                for k, e in enumerate(new):
                    try:
                        with _w.catch_warnings():
                            _w.simplefilter("ignore")
                            r = fn(e)
                        out[(nm, k)] = ("ok", str(r)[:300])
                    except BaseException as ex:  # noqa: BLE001
                        out[(nm, k)] = ("raised", f"{type(ex).__name__}: {str(ex)[:150]}", not deliberate(ex))
            return out

        def in_child(warm):
            r_, w_ = os.pipe()
            pid = os.fork()
            if pid == 0:
                try:
                    os.close(r_)
                    data = _pk.dumps(script(warm))
                    os.write(w_, len(data).to_bytes(8, "big") + data)
                finally:
                    os._exit(0)
            os.close(w_)
            buf = b""
            while True:
                chunk = os.read(r_, 1 << 16)
                if not chunk:
                    break
                buf += chunk
            os.close(r_)
            os.waitpid(pid, 0)
            if len(buf) < 8:
                return None
            return _pk.loads(buf[8:8 + int.from_bytes(buf[:8], "big")])
        fresh, used = in_child(False), in_child(True)
        if fresh is None or used is None:
            return undecided("entry functions: a child process did not report")
        n = 0
        for key in fresh:
            n += 1
            if fresh[key][:2] != used[key][:2]:
                return violated(f"{key[0]} applied to an instance of a type registered after its first use: {used[key][:2]}; the same call in a process that had not used "
                                f"{key[0]} before the registration: {fresh[key][:2]}", replay={"function": key[0], "expression": key[1], "used": list(used[key][:2]), "fresh": list(fresh[key][:2])},
                                reproduced=True, backend="exec(two processes)")
        return proved("exec(two processes)", vcs=n, sample=f"{n} (entry function, late-type expression) pairs: the same outcome with and without a call before the registration")
    run.add("public-entry-functions/used-before-registration", entry_functions, kind="values")

    # ---- bounded stand-in: exhaustive histories
    L = 6 if thorough else 4

    def histories(framework):
        def thunk():
            n = 0
            for length in range(1, L + 1):
                for hist in itertools.product("RI", repeat=length):
                    if "I" not in hist:
                        continue
                    cls = make_alg(framework, ("expr", "terminal", "operator", "sum"))
                    insts, news = [], []
                    fl = itertools.cycle(["sumchild", "term", "op", "opchild"])
                    for step in hist:
                        if step == "R":
                            news.append(register_new_type(next(fl)))
                        else:
                            try:
                                insts.append(cls())
                            except Exception as ex:  # noqa: BLE001
                                return violated(f"{framework} history {''.join(hist)}: instantiation raised {type(ex).__name__}: {ex}",
                                                replay={"history": "".join(hist)}, reproduced=True)
                        for inst in insts:
                            for o in [mk() for _, mk in news] + old_samples():
                                n += 1
                                want = oracle(cls, type(o))
                                try:
                                    got = apply(framework, inst, o, entry)
                                except Exception as ex:  # noqa: BLE001
                                    return violated(f"{framework} history {''.join(hist)}: applying to {type(o).__name__} raised "
                                                    f"{type(ex).__name__}: {ex}", replay={"history": "".join(hist), "type": type(o).__name__},
                                                    reproduced=True)
                                exp = want if want in ("expr", "terminal", "operator", "sum") else None
                                if got != exp:
                                    return violated(f"{framework} history {''.join(hist)}: {type(o).__name__} -> {got}, want {want}",
                                                    replay={"history": "".join(hist)}, reproduced=True)
            return bounded_ok(n, f"all histories over {{register, instantiate}} of length <= {L}; every live instance applied to every late type after each step",
                              sample=f"{framework}: e.g. history I,R,I then apply old and new instance to LateSum/LateTerminal/LateOperator")
        return thunk
    run.add("mf/histories", histories("mf"), kind="bounded")
    run.add("tr/histories", histories("tr"), kind="bounded")

    def canary():
        cls = make_alg("mf", ("expr", "sum"))
        T, mk = register_new_type("sumchild")
        got = cls()(mk())
        if got != "expr":      # deliberately wrong expectation (must dispatch to 'sum')
            return violated("canary refuted", reproduced=True)
        return proved("canary")
    run.add("canary/wrong-oracle", canary, kind="canary")
