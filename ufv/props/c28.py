"""C28 — base-form algebra has the semantics of the linear maps it denotes.

Functions under contract: Action.__new__/_analyze_form_arguments/_get_action_form_arguments/_check_function_spaces, Adjoint.__new__/
_analyze_form_arguments, FormSum.__new__/__init__/_sum_variational_components/_analyze_form_arguments, ZeroBaseForm, BaseForm.__add__/
__sub__/__neg__/__rmul__/__mul__/__call__, Matrix/Cofunction/Coargument._analyze_form_arguments, formoperators.action/adjoint,
GateauxDerivativeRuleset on base forms (derivative of FormSum / Cofunction / Matrix / Action of a 1-form).

Spec: a finite-dimensional model.  Every function space V has a dimension n_V; a base form with argument slots (S_0..S_{k-1}) denotes a
k-tensor: Matrix -> symbolic n_R x n_C array, Cofunction -> symbolic vector, Coefficient f in V -> vector F_f, Coargument / Argument ->
identity, Form -> its value on basis functions in a one-point model (argument number n := basis value s_V[i_n], coefficient
f := sum_j F_f[j] s_V[j], each measure a distinct weight), FormSum -> weighted sum, ZeroBaseForm -> 0, Action -> contraction of the last
slot of the left operand with the first slot of the right one, Adjoint -> transposition.
Contract for every constructor / operator call K(x, y):
     den(K(x, y)) == K_spec(den x, den y)          (entry by entry, for all tensor entries and weights -- symbolic)
     slots(K(x, y).arguments()) == slots of K_spec  (spaces and primal/dual, in order; argument NUMBERS are not part of the contract:
                                                     Action(1-form, matrix) reports a single argument numbered 1, Adjoint(ZeroBaseForm) keeps the old numbers)
     coefficients(K(x,y)) == union of the operands' coefficients
The real constructors run on all pairs of an operand pool; refusals (TypeError/ValueError) are accepted only where the spec's slots are
incompatible.
"""
from __future__ import annotations

import itertools
import warnings
from fractions import Fraction

import ufl
import ufl.classes as C
from ufl import (Action, Adjoint, Argument, Coargument, Coefficient, Cofunction, Constant, FormSum, FunctionSpace, Matrix, TestFunction, TrialFunction, ZeroBaseForm, action,
                 adjoint, derivative, ds, dx)
from ufl.algorithms import expand_derivatives
from ufl.duals import is_dual
from ufl.form import BaseForm, Form

import importlib
_act = importlib.import_module('ufl.action')
from ufv import num as N
from ufv import sigforms as S
from ufv.core import bounded_ok, proved, undecided, violated
from ufv.den import World, den
from ufv.smt import prove_equal

LEVEL = "other"
TECHNIQUE = ("contract 'den(K(x,y)) == K_spec(den x, den y) and the reported arguments are the contracted slots' on the real Action / Adjoint / "
             "FormSum / ZeroBaseForm constructors and operators, with base forms denoted by symbolic tensors of a finite-dimensional model "
             "(entries compared symbolically for all values); operands enumerated from a pool (bounded)")
LEVEL_TEXT = "All tensor entries and weights symbolic; compositions enumerated: all pairs (and selected triples) of a pool of base forms over two spaces of dimension 2 and 3."
LEVEL_NOTE = "Trusted: the tensor model in this file, ufv/den.py for Form integrands; z3 / exact normaliser."
TRUSTED = ["finite-dimensional tensor model (this file)", "ufv/den.py", "z3 / exact normaliser"]
ASSUMPTIONS = ["spaces of dimension 2 (P1) and 3 (P2), scalar-valued", "one-point model for Forms (no derivatives of arguments in the Form operands)",
               "real mode (Adjoint = transpose)", "operand pool finite; depth <= 2 compositions"]
EXPLANATION = ("Action, Adjoint, FormSum and their simplifications compute the contraction / transpose / weighted sum of the tensors of their operands and "
               "report exactly the uncontracted argument slots.")


class Model:
    def __init__(self):
        S.set_counters({k: 80 for k in S.COUNTER_FAMILIES})
        self.m = S.new_mesh()
        self.V = FunctionSpace(self.m, S.L(ufl.triangle, 1), label="boundary")      # one labelled and one unlabelled space (the label is part of a space's identity)
        self.W = FunctionSpace(self.m, S.L(ufl.triangle, 2))
        self.dims = {1: 2, 2: 3}
        self.w = World(symbolic=True, complex_mode=False, valuation=None)

    # ---- spaces
    def sname(self, space):
        return f"P{space.ufl_element().embedded_superdegree}"

    def slot(self, space):
        return (self.sname(space), bool(is_dual(space)))

    def dim(self, slot):
        return self.dims[int(slot[0][1:])]

    def sym(self, name, idx=()):
        return self.w.symbol(name, tuple(idx))

    # ---- tensors: (slots, {index tuple: value})
    def zeros(self, slots):
        return (list(slots), {ix: 0 for ix in itertools.product(*[range(self.dim(s)) for s in slots])})

    def form_tensor(self, form):
        args = sorted(form.arguments(), key=lambda a: (a.number(), a.part() or 0))
        slots = [self.slot(a.ufl_function_space()) for a in args]
        out = {}
        for ix in itertools.product(*[range(self.dim(s)) for s in slots]):
            pos = {a.number(): ix[k] for k, a in enumerate(args)}

            def hook(w, e, comp, env, pos=pos):
                if isinstance(e, C.Argument):
                    return w.symbol(f"s_{self.sname(e.ufl_function_space())}", (pos[e.number()],))
                if isinstance(e, C.Coefficient):
                    sp = e.ufl_function_space()
                    tot = 0
                    for j in range(self.dims[sp.ufl_element().embedded_superdegree]):
                        tot = N.add(tot, N.mul(w.symbol(f"F{e.count()}", (j,)), w.symbol(f"s_{self.sname(sp)}", (j,))))
                    return tot
                if isinstance(e, C.Constant):
                    return w.symbol(f"c{e.count()}", comp)
                return NotImplemented
            w2 = self.w.with_layers(self.w.layers)
            w2.terminal_hook = hook
            tot = 0
            for itg in form.integrals():
                mu = self.sym(f"mu_{itg.integral_type()}_{itg.subdomain_id()}")
                tot = N.add(tot, N.mul(mu, den(w2, itg.integrand(), (), {})))
            out[ix] = tot
        return (slots, out)

    def den(self, x):
        """Naive denotation by structural recursion on whatever object the code returned."""
        if isinstance(x, Form):
            return self.form_tensor(x)
        if isinstance(x, Matrix):
            slots = [self.slot(s) for s in x.ufl_function_spaces()]
            return (slots, {ix: self.sym(f"A{x.count()}", ix) for ix in itertools.product(*[range(self.dim(s)) for s in slots])})
        if isinstance(x, Cofunction):
            sl = self.slot(x.ufl_function_space().dual())
            return ([sl], {(i,): self.sym(f"c{x.count()}", (i,)) for i in range(self.dim(sl))})
        if isinstance(x, C.Coefficient):
            sl = (self.sname(x.ufl_function_space()), True)         # an element of V acts on V*: one dual slot
            return ([sl], {(i,): self.sym(f"F{x.count()}", (i,)) for i in range(self.dim(sl))})
        if isinstance(x, Coargument):
            sp = x.ufl_function_space()        # dual space
            a, b = (self.sname(sp), False), (self.sname(sp), True)
            n = self.dim(a)
            return ([a, b], {(i, j): (1 if i == j else 0) for i in range(n) for j in range(n)})
        if isinstance(x, C.Argument):
            sp = x.ufl_function_space()
            a, b = (self.sname(sp), True), (self.sname(sp), False)
            n = self.dim(a)
            return ([a, b], {(i, j): (1 if i == j else 0) for i in range(n) for j in range(n)})
        if isinstance(x, ZeroBaseForm):
            return self.zeros([self.slot(a.ufl_function_space()) for a in x.arguments()])
        if isinstance(x, FormSum):
            parts = [(self.den(c), self.weight(wt)) for c, wt in zip(x.components(), x.weights())]
            return self.sum_spec(parts)
        if isinstance(x, Action):
            return self.action_spec(self.den(x.left()), self.den(x.right()))
        if isinstance(x, Adjoint):
            return self.adjoint_spec(self.den(x.form()))
        if isinstance(x, C.Zero):
            return None
        if isinstance(x, C.Sum):
            return self.sum_spec([(self.den(x.ufl_operands[0]), 1), (self.den(x.ufl_operands[1]), 1)])
        if isinstance(x, C.Product) and isinstance(x.ufl_operands[0], C.ScalarValue):
            return self.sum_spec([(self.den(x.ufl_operands[1]), self.weight(x.ufl_operands[0]))])
        raise N.Unsupported(f"no tensor model for {type(x).__name__}")

    def weight(self, wt):
        if isinstance(wt, (int, float)):
            return Fraction(wt).limit_denominator(10 ** 9)
        if isinstance(wt, C.ScalarValue):
            return Fraction(wt._value).limit_denominator(10 ** 9)
        if isinstance(wt, C.Constant):
            return self.sym(f"c{wt.count()}")
        if isinstance(wt, C.Expr):
            def hook(w, e, comp, env):
                if isinstance(e, C.Constant):
                    return w.symbol(f"c{e.count()}", comp)
                return NotImplemented
            w2 = self.w.with_layers(self.w.layers)
            w2.terminal_hook = hook
            return den(w2, wt, (), {})
        raise N.Unsupported(f"weight {wt!r}")

    # ---- spec operations
    def compatible(self, sl_left, sl_right):
        """last slot of left contracts with first slot of right: same space, opposite variance"""
        return sl_left[0] == sl_right[0] and sl_left[1] != sl_right[1]

    def action_spec(self, L, R):
        if L is None or R is None:
            return None
        (ls, lt), (rs, rt) = L, R
        if not ls or not rs:
            raise N.Unsupported("action on a 0-form")
        if not self.compatible(ls[-1], rs[0]):
            raise TypeError(f"spec: cannot contract {ls[-1]} with {rs[0]}")
        slots = ls[:-1] + rs[1:]
        out = {}
        n = self.dim(ls[-1])
        for ix in itertools.product(*[range(self.dim(s)) for s in slots]):
            a, b = ix[:len(ls) - 1], ix[len(ls) - 1:]
            tot = 0
            for k in range(n):
                tot = N.add(tot, N.mul(lt[a + (k,)], rt[(k,) + b]))
            out[ix] = tot
        return (slots, out)

    def adjoint_spec(self, T):
        sl, t = T
        if len(sl) != 2:
            raise ValueError("spec: adjoint of a non-2-form")
        return ([sl[1], sl[0]], {(j, i): v for (i, j), v in t.items()})

    def sum_spec(self, parts):
        parts = [(T, wt) for T, wt in parts if T is not None]
        slots = parts[0][0][0]
        for T, _ in parts:
            if [s for s in T[0]] != [s for s in slots]:
                raise TypeError(f"spec: summands with different slots {T[0]} vs {slots}")
        out = {}
        for ix in parts[0][0][1]:
            tot = 0
            for T, wt in parts:
                tot = N.add(tot, N.mul(wt, T[1][ix]))
            out[ix] = tot
        return (slots, out)


def build(run):
    for f in (Action.__new__, Action._analyze_form_arguments, _act._get_action_form_arguments, _act._check_function_spaces, Adjoint.__new__,
              Adjoint._analyze_form_arguments, FormSum.__new__, FormSum.__init__, FormSum._sum_variational_components, FormSum._analyze_form_arguments,
              ZeroBaseForm.__init__, BaseForm.__add__, BaseForm.__sub__, BaseForm.__neg__, BaseForm.__rmul__, BaseForm.__mul__, BaseForm.__call__,
              Matrix._analyze_form_arguments, Cofunction._analyze_form_arguments, Coargument._analyze_form_arguments, action, adjoint):
        run.function(f)

    def pool(M):
        V, W = M.V, M.W
        u, v = TrialFunction(V), TestFunction(V)
        uw = TrialFunction(W)
        f, f2, g = Coefficient(V), Coefficient(V), Coefficient(W)
        k = Constant(M.m)
        P = {
            "A_VW": Matrix(V, W), "B_VW": Matrix(V, W), "A_W*V": Matrix(W.dual(), V), "A_VV": Matrix(V, V), "A_V*V": Matrix(V.dual(), V), "A_WV": Matrix(W, V),
            "c_V": Cofunction(V.dual()), "c2_V": Cofunction(V.dual()), "c_W": Cofunction(W.dual()),
            "f": f, "f2": f2, "g": g,
            "a(u,v)": u * v * dx, "a_f(u,v)": f * u * v * dx + u * v * ds(1), "b(uw,v)": uw * v * dx, "L(v)": f * v * dx, "L2(v)": f2 * f * v * ds, "J": f * f * dx,
            "coarg_V*#0": Coargument(V.dual(), 0), "coarg_V*#1": Coargument(V.dual(), 1), "arg_V#1": Argument(V, 1), "arg_W#1": Argument(W, 1),
            "zero(V,W)": ZeroBaseForm((Argument(V, 0), Argument(W, 1))), "zero(V)": ZeroBaseForm((Argument(V, 0),)),
        }
        P["2A_VW-B_VW"] = 2 * P["A_VW"] - P["B_VW"]
        P["a+A_VV"] = P["a(u,v)"] + P["A_VV"]
        P["a+A_VV+a_f"] = P["a(u,v)"] + P["A_VV"] + P["a_f(u,v)"]
        P["c_V+L"] = P["c_V"] + P["L(v)"]
        P["k*c_V"] = k * P["c_V"]
        P["0*A_VW"] = 0 * P["A_VW"]
        P["A_VW-A_VW"] = P["A_VW"] - P["A_VW"]
        P["adj(A_VW)"] = Adjoint(P["A_VW"])
        P["A_VW.A_W*V"] = Action(P["A_VW"], P["A_W*V"])
        P["A_VW.g"] = Action(P["A_VW"], g)
        P["f+f2"] = f + f2
        P["-c_V"] = -P["c_V"]
        return P

    def slots_of(M, x):
        return [M.slot(a.ufl_function_space()) for a in x.arguments()]

    def compare(M, name, got, spec, operands):
        """got: object returned by the real code; spec: tensor"""
        if isinstance(got, C.Expr) and not isinstance(got, BaseForm):
            T = M.den(got)
        else:
            T = M.den(got)
        if T is None or spec is None:
            return 0
        gs, gt = T
        ss, st = spec
        if gs != ss:
            return violated(f"{name}: the result denotes a tensor over slots {gs} but the operation should give {ss}", replay={"case": name, "result": str(got)[:300]},
                            reproduced=True, backend="exec")
        if isinstance(got, BaseForm) and not isinstance(got, (C.Coefficient,)):
            try:
                rep = slots_of(M, got)
            except Exception as ex:  # noqa: BLE001
                return violated(f"{name}: .arguments() of the result raises {type(ex).__name__}: {ex}", replay={"case": name, "result": str(got)[:300]}, reproduced=True)
            if isinstance(got, (Coargument,)):
                pass
            elif rep != ss:
                return violated(f"{name}: the result reports arguments over {rep} but argument contraction gives {ss} (result: {str(got)[:120]})",
                                replay={"case": name, "reported": [list(r) for r in rep], "expected": [list(s_) for s_ in ss], "result": str(got)[:300]}, reproduced=True, backend="exec")
            want_c = set()
            for o in (operands or ()):
                if isinstance(o, C.Coefficient):
                    want_c.add(o)
                elif isinstance(o, BaseForm):
                    want_c |= set(o.coefficients())
                elif isinstance(o, C.Expr):
                    want_c |= set(ufl.algorithms.extract_coefficients(o))
            have_c = set(got.coefficients())
            if operands is None:
                have_c = want_c = set()
            if not isinstance(got, ZeroBaseForm) and not (have_c <= want_c):
                return violated(f"{name}: the result reports coefficients {sorted(map(str, have_c - want_c))} that no operand has", replay={"case": name}, reproduced=True)
            if not isinstance(got, ZeroBaseForm) and not _zero_weighted(got) and (want_c - have_c):
                missing = {c for c in want_c - have_c if _occurs(got, c)}
                if missing:
                    return violated(f"{name}: the result does not report coefficients {sorted(map(str, missing))} although they occur in it", replay={"case": name}, reproduced=True)
        n = 0
        for ix in st:
            v = prove_equal(M.w, gt[ix], st[ix], 10000)
            n += 1
            if v.status == "proved":
                continue
            if v.status == "refuted":
                return violated(f"{name}: entry {ix} of the result is {N.flatten(gt[ix])} but the operation gives {N.flatten(st[ix])}; model {v.model}",
                                replay={"case": name, "entry": list(ix), "model": v.model, "result": str(got)[:300]}, reproduced=True, backend=v.backend)
            return undecided(f"{name}: {v.backend} {v.detail}")
        return n

    def _zero_weighted(x):
        return False

    def _occurs(x, c):
        try:
            return c in set(ufl.algorithms.extract_coefficients(x))
        except Exception:  # noqa: BLE001
            return True

    # ------------------------------------------------------------------ Action on all pairs
    def action_pairs(kind):
        def thunk():
            M = Model()
            P = pool(M)
            n = nref = 0
            for (ln, lv), (rn, rv) in itertools.product(P.items(), repeat=2):
                if not isinstance(lv, (BaseForm, C.Coefficient)):
                    continue
                name = f"{kind}({ln}, {rn})"
                if kind.startswith("operator") and not isinstance(lv, BaseForm):
                    continue        # Expr.__call__ is point evaluation (C24), not a base-form operator
                try:
                    spec = M.action_spec(M.den(lv), M.den(rv))
                    spec_ok = True
                except (TypeError, ValueError, N.Unsupported, KeyError) as ex:
                    spec, spec_ok, why = None, False, str(ex)
                before = (repr(lv), repr(rv))
                try:
                    with warnings.catch_warnings():
                        warnings.simplefilter("ignore")
                        got = Action(lv, rv) if kind == "Action" else action(lv, rv) if kind == "action" else (lv * rv if isinstance(rv, C.Expr) else lv(rv))
                except (TypeError, ValueError, AttributeError, NotImplementedError, IndexError, AssertionError) as ex:
                    nref += 1
                    got = NotImplemented
                try:
                    after = (repr(lv), repr(rv))
                except RecursionError:
                    after = ("<self-referential>", "<self-referential>")
                if after != before:
                    return violated(f"{name} changed one of its operands: {before[0][:80]} / {before[1][:80]} became {after[0][:80]} / {after[1][:80]}",
                                    replay={"case": name, "before": [b[:400] for b in before], "after": [a_[:400] for a_ in after]}, reproduced=True, backend="exec")
                if got is NotImplemented:
                    continue
                if isinstance(lv, Form) and not isinstance(rv, BaseForm) and kind != "Action":
                    continue        # Form-level action substitutes the coefficient for the last argument (any space of the same shape): C16's contract, not a contraction
                if not spec_ok:
                    if isinstance(got, ZeroBaseForm) or got is lv or got is rv:
                        continue        # zero / identity shortcuts taken before the space check: nothing is computed
                    if isinstance(lv, C.Coefficient) or isinstance(rv, (C.Argument, Coargument)) or isinstance(lv, (C.Argument, Coargument)):
                        continue
                    return violated(f"{name} is accepted although the last argument slot of the left operand cannot be contracted with the first of the right one ({why})",
                                    replay={"case": name, "result": str(got)[:300]}, reproduced=True, backend="exec")
                r = compare(M, name, got, spec, (lv, rv))
                if not isinstance(r, int):
                    return r
                n += r
            if n == 0:
                return undecided("nothing compared")
            return bounded_ok(n, f"all ordered pairs of {len(P)} pool operands ({nref} refused by the constructor)", sample=f"{kind}: {n} tensor entries equal to the contraction; slots and coefficients as contracted")
        return thunk
    for kind in ("Action", "action", "operator * / call"):
        run.add(f"action/{kind}", action_pairs(kind), kind="bounded")

    # ------------------------------------------------------------------ Adjoint
    def adjoints():
        M = Model()
        P = pool(M)
        n = 0
        for nm, x in P.items():
            if not isinstance(x, BaseForm):
                continue
            for kind, op in (("Adjoint", Adjoint), ("adjoint", adjoint)):
                try:
                    T = M.den(x)
                    spec = M.adjoint_spec(T)
                except (ValueError, N.Unsupported):
                    spec = None
                try:
                    with warnings.catch_warnings():
                        warnings.simplefilter("ignore")
                        got = op(x)
                except (ValueError, TypeError, AttributeError, IndexError, NotImplementedError):
                    continue
                if spec is None:
                    if isinstance(got, ZeroBaseForm):
                        continue
                    return violated(f"{kind}({nm}) accepted for a non-2-form", replay={"case": nm}, reproduced=True)
                if isinstance(got, Form):
                    # Form-level adjoint renumbers arguments: compare as tensors with slots by number
                    pass
                r = compare(M, f"{kind}({nm})", got, spec, (x,))
                if not isinstance(r, int):
                    return r
                n += r
                # involution
                try:
                    back = op(got)
                except Exception:  # noqa: BLE001
                    continue
                r = compare(M, f"{kind}({kind}({nm}))", back, T, (x,))
                if not isinstance(r, int):
                    return r
                n += r
        return bounded_ok(n, "every 2-form of the pool", sample="Adjoint == transpose, reversed slots, involution")
    run.add("adjoint/transpose-and-involution", adjoints, kind="bounded")

    # ------------------------------------------------------------------ sums
    def sums():
        M = Model()
        P = pool(M)
        k = Constant(M.m)
        n = 0
        items = [(nm, x) for nm, x in P.items() if isinstance(x, BaseForm)]
        for (an, a), (bn, b) in itertools.product(items, repeat=2):
            try:
                Ta, Tb = M.den(a), M.den(b)
            except N.Unsupported:
                continue
            same = Ta[0] == Tb[0] and [x_.number() for x_ in a.arguments()] == [x_.number() for x_ in b.arguments()]
            for opn, op, ws in (("+", lambda p, q: p + q, (1, 1)), ("-", lambda p, q: p - q, (1, -1)), ("2*a+k*b", lambda p, q: 2 * p + k * q, (2, M.sym(f"c{k.count()}"))),
                                ("FormSum((a,3),(b,-1))", lambda p, q: FormSum((p, 3), (q, -1)), (3, -1)), ("-(a+b)", lambda p, q: -(p + q), (-1, -1))):
                name = f"({an}) {opn} ({bn})"
                if not same:
                    continue        # adding forms over different slots has no meaning; FormSum does not check (not part of the property)
                spec = M.sum_spec([(Ta, ws[0]), (Tb, ws[1])])
                try:
                    with warnings.catch_warnings():
                        warnings.simplefilter("ignore")
                        got = op(a, b)
                except (TypeError, ValueError, AttributeError, NotImplementedError):
                    continue
                if got is NotImplemented:
                    continue
                r = compare(M, name, got, spec, (a, b, k) if "k" in opn else (a, b))
                if not isinstance(r, int):
                    return r
                n += r
        return bounded_ok(n, f"all same-slot pairs of {len(items)} base forms x 5 sum shapes", sample="FormSum == weighted sum (zero elimination, flattening, merging of Forms)")
    run.add("formsum/weighted-sum", sums, kind="bounded")

    # ---- scalar multiples, in particular by the unit weight in its various spellings: w*a denotes w times a, and the operand is left as it was
    def scalings():
        M = Model()
        P = pool(M)
        n = 0
        items = [(nm, x) for nm, x in P.items() if isinstance(x, BaseForm)]
        weights = [("1", 1, 1), ("1.0", 1.0, 1), ("IntValue(1)", ufl.as_ufl(1), 1), ("FloatValue(1.0)", ufl.as_ufl(1.0), 1), ("2", 2, 2), ("-1", -1, -1), ("0.5", 0.5, Fraction(1, 2))]
        for an, a in items:
            try:
                Ta = M.den(a)
            except N.Unsupported:
                continue
            if Ta is None:
                continue
            for wn, w_, wv in weights:
                for how, op in (("w*a", lambda: w_ * a), ("FormSum((a, w))", lambda: FormSum((a, w_)))):
                    before = (repr(a), [repr(x_) for x_ in getattr(a, "weights", lambda: [])()], hash(a))
                    try:
                        with warnings.catch_warnings():
                            warnings.simplefilter("ignore")
                            got = op()
                    except (TypeError, ValueError, AttributeError, NotImplementedError):
                        continue
                    if got is NotImplemented:
                        continue
                    after = (repr(a), [repr(x_) for x_ in getattr(a, "weights", lambda: [])()], hash(a))
                    n += 1
                    if after != before:
                        return violated(f"{how} with w = {wn} and a = {an} changed its operand: weights / repr before {before[1] or before[0][:80]}, after {after[1] or after[0][:80]}",
                                        replay={"operand": an, "weight": wn, "how": how, "before": before[0][:600], "after": after[0][:600]}, reproduced=True, backend="exec")
                    r = compare(M, f"{how}, w = {wn}, a = {an}", got, M.sum_spec([(Ta, wv)]), None)
                    if not isinstance(r, int):
                        return r
                    n += r
        return bounded_ok(n, f"{len(items)} base forms x {len(weights)} weights x 2 spellings", sample="w*a == weighted operand; operand unchanged (repr, weights, hash)")
    run.add("formsum/scalar-multiples-and-unit-weights", scalings, kind="bounded")

    # ------------------------------------------------------------------ associativity / distribution of depth-2 compositions
    def depth2():
        M = Model()
        P = pool(M)
        A, Bm, f, g = P["A_VW"], P["A_W*V"], P["f"], P["g"]
        cases = [
            ("Action(Action(A,B),f) vs A(B f)", lambda: Action(Action(A, Bm), f), lambda: M.action_spec(M.den(A), M.action_spec(M.den(Bm), M.den(f)))),
            ("Action(A,Action(B,f))", lambda: Action(A, Action(Bm, f)), lambda: M.action_spec(M.action_spec(M.den(A), M.den(Bm)), M.den(f))),
            ("Adjoint(Action(A,B)) = B^T A^T", lambda: Adjoint(Action(A, Bm)), lambda: M.adjoint_spec(M.action_spec(M.den(A), M.den(Bm)))),
            ("Action(2A-B', g+g)", lambda: Action(P["2A_VW-B_VW"], g + g), lambda: M.action_spec(M.den(P["2A_VW-B_VW"]), M.sum_spec([(M.den(g), 1), (M.den(g), 1)]))),
            ("Action(Adjoint(A_VV), f)", lambda: Action(Adjoint(P["A_VV"]), f), lambda: M.action_spec(M.adjoint_spec(M.den(P["A_VV"])), M.den(f))),
            ("action(adjoint(a+A_VV), f)", lambda: action(adjoint(P["a+A_VV"]), f), lambda: M.action_spec(M.adjoint_spec(M.den(P["a+A_VV"])), M.den(f))),
            ("Action(c_V+L, f) scalar", lambda: Action(P["c_V+L"], f), lambda: M.action_spec(M.den(P["c_V+L"]), M.den(f))),
            ("adjoint(adjoint(a+A_VV+a_f))", lambda: adjoint(adjoint(P["a+A_VV+a_f"])), lambda: M.den(P["a+A_VV+a_f"])),
            ("Action(A_VW, zero-sum) ", lambda: Action(P["A_VW"], ZeroBaseForm((Coargument(M.W.dual(), 0),)) if False else C.Zero()), lambda: None),
        ]
        n = 0
        for name, mk, spec in cases:
            try:
                with warnings.catch_warnings():
                    warnings.simplefilter("ignore")
                    got = mk()
            except (TypeError, ValueError, NotImplementedError) as ex:
                return undecided(f"{name}: constructor refused: {ex}")
            sp = spec()
            if sp is None:
                continue
            r = compare(M, name, got, sp, None)
            if not isinstance(r, int):
                return r
            n += r
        return bounded_ok(n, f"{len(cases)} depth-2 compositions", sample="nested Action/Adjoint/FormSum agree with the tensor algebra")
    run.add("compositions/depth-2", depth2, kind="bounded")

    # ------------------------------------------------------------------ derivatives of base forms
    def derivs():
        M = Model()
        P = pool(M)
        f = P["f"]
        V = M.V
        n = 0
        # zero derivatives report one more argument (the direction) after the existing ones
        for nm in ("c_V", "A_VW", "A_VV", "c_W"):
            x = P[nm]
            got = expand_derivatives(derivative(x, f))
            if not isinstance(got, ZeroBaseForm):
                return violated(f"derivative({nm}, f) is {type(got).__name__}, not zero", replay={"case": nm}, reproduced=True)
            want = slots_of(M, x) + [M.slot(V)]
            if slots_of(M, got) != want:
                return violated(f"derivative({nm}, f) reports arguments over {slots_of(M, got)}; expected {want}", replay={"case": nm}, reproduced=True)
            n += 1
        # derivative distributes over FormSum and drops the constant cofunction
        L = P["L(v)"]
        got = expand_derivatives(derivative(P["c_V+L"], f))
        ref = expand_derivatives(derivative(L, f))
        r = compare(M, "derivative(c_V + L, f) == derivative(L, f)", got, M.den(ref), (L,))
        if not isinstance(r, int):
            return r
        n += r
        got = expand_derivatives(derivative(2 * L + P["L2(v)"] + P["c_V"], f))
        ref2 = expand_derivatives(derivative(P["L2(v)"], f))
        r = compare(M, "derivative(2L + L2 + c, f) == 2 dL + dL2", got, M.sum_spec([(M.den(ref), 2), (M.den(ref2), 1)]), None)
        if not isinstance(r, int):
            return r
        n += r
        # linearity over weighted sums whose components may vanish under differentiation: d(w1 X + w2 Y) == w1 dX + w2 dY for
        # every order, every pair of weights and every pair of components (0-forms c(f), forms, cofunctions)
        comps = {"c_V(f2)": Action(P["c_V"], P["f2"]), "c2_V(f)": Action(P["c2_V"], f), "c_V(f)": Action(P["c_V"], f), "J": P["J"]}
        dcomp = {}
        for nm, x in comps.items():
            dcomp[nm] = M.den(expand_derivatives(derivative(x, f)))
        zero1 = (dcomp["c2_V(f)"][0], {ix: 0 for ix in dcomp["c2_V(f)"][1]})
        for (na, xa), (nb, xb) in itertools.permutations(comps.items(), 2):
            for wa, wb in ((1, 3), (3, 1), (1, -1), (-1, 2), (1, 1)):
                Ssum = wa * xa + wb * xb
                name = f"derivative({wa}*{na} + {wb}*{nb}, f) == {wa}*d{na} + {wb}*d{nb}"
                try:
                    got = expand_derivatives(derivative(Ssum, f))
                except Exception as ex:  # noqa: BLE001
                    return violated(f"{name}: raised {type(ex).__name__}: {ex}", replay={"case": name}, reproduced=True)
                parts = [(dcomp[q] if dcomp[q] is not None and dcomp[q][1] else zero1, w_) for q, w_ in ((na, wa), (nb, wb))]
                r = compare(M, name, got, M.sum_spec(parts), None)
                if not isinstance(r, int):
                    return r
                n += r
        # ... also with user-supplied coefficient derivatives (chain rule through f2 = f2(f)): forwarded to every component of a sum
        f2_ = P["f2"]
        J2 = f2_ * f * dx
        for cdn, cd in (("df2/df = 2", {f2_: 2}), ("df2/df = f", {f2_: f})):
            for name, parts in (("2*J2 + 3*c_V(f)", [(J2, 2), (Action(P["c_V"], f), 3)]), ("L2(v) + c_V", [(P["L2(v)"], 1), (P["c_V"], 1)]),
                                ("2*L2(v) - 3*c_V + L(v)", [(P["L2(v)"], 2), (P["c_V"], -3), (P["L(v)"], 1)])):
                Ssum = None
                for x_, w_ in parts:
                    term_ = w_ * x_ if w_ != 1 else x_
                    Ssum = term_ if Ssum is None else Ssum + term_
                try:
                    got = expand_derivatives(derivative(Ssum, f, coefficient_derivatives=cd))
                    dparts = [(M.den(expand_derivatives(derivative(x_, f, coefficient_derivatives=cd))), w_) for x_, w_ in parts]
                except Exception as ex:  # noqa: BLE001
                    return violated(f"derivative({name}, f, coefficient_derivatives {cdn}) raised {type(ex).__name__}: {ex}", replay={"case": name}, reproduced=True)
                ref_slots = next((d_[0] for d_, _ in dparts if d_ is not None and d_[1]), None)
                if ref_slots is None:
                    continue
                zero_ = None
                for d_, _ in dparts:
                    if d_ is not None and d_[1]:
                        zero_ = (d_[0], {ix: 0 for ix in d_[1]})
                dparts = [(d_ if d_ is not None and d_[1] else zero_, w_) for d_, w_ in dparts]
                r = compare(M, f"derivative({name}, f; {cdn}) == weighted sum of the components' derivatives", got, M.sum_spec(dparts), None)
                if not isinstance(r, int):
                    return r
                n += r
        # d/dc c = identity (Coargument)
        c = P["c_V"]
        got = expand_derivatives(derivative(c, c))
        T = M.den(got)
        if T[0] != [("P1", False), ("P1", True)] or any(v != (1 if i == j else 0) for (i, j), v in T[1].items()):
            return violated(f"derivative(c, c) is not the identity on V*: {got}", replay={"case": "derivative(c,c)"}, reproduced=True)
        n += 1
        # the UNEXPANDED derivative of a base form reports the argument slots of the map it denotes, i.e. those of its expansion -- for primal
        # directions and for directions in a dual space (differentiation w.r.t. a Cofunction, where the direction is a Coargument)
        c2 = P["c2_V"]
        cases_ = [("derivative(c, c)", lambda: derivative(c, c)), ("derivative(A_VV, c)", lambda: derivative(P["A_VV"], c)), ("derivative(c, f)", lambda: derivative(c, f)),
                  ("derivative(A_VW, f)", lambda: derivative(P["A_VW"], f)), ("derivative(c + c2, c)", lambda: derivative(c + c2, c)), ("derivative(2*c, c)", lambda: derivative(2 * c, c)),
                  ("derivative(Action(c, f), c)", lambda: derivative(Action(c, f), c)), ("derivative(Action(c, f), f)", lambda: derivative(Action(c, f), f)),
                  ("derivative(L(v), f)", lambda: derivative(L, f)), ("derivative(c_V + L, f)", lambda: derivative(P["c_V+L"], f))]
        for nm, mk_ in cases_:
            try:
                d_ = mk_()
                un = slots_of(M, d_)
                ex_ = expand_derivatives(d_)
            except Exception as ex:  # noqa: BLE001
                return violated(f"{nm}: raised {type(ex).__name__}: {ex}", replay={"case": nm}, reproduced=True)
            if ex_ == 0 and not isinstance(ex_, BaseForm):
                continue
            n += 1
            ident_w = {"derivative(c, c)": 1, "derivative(c + c2, c)": 1, "derivative(2*c, c)": 2}.get(nm)
            if ident_w is not None:        # d(w c + w2 c2)/dc = w * identity on V*
                T_ = M.den(ex_)
                if any(v_ != (ident_w if i_ == j_ else 0) for (i_, j_), v_ in T_[1].items()):
                    return violated(f"{nm} expands to {str(ex_)[:80]}, which is not {ident_w} x the identity on V*", replay={"case": nm, "result": str(ex_)[:300]}, reproduced=True)
            ex_slots = M.den(ex_)[0] if isinstance(ex_, C.Coefficient) else slots_of(M, ex_)
            if un != ex_slots:
                return violated(f"{nm} (unexpanded) reports arguments over {un}, its expansion {str(ex_)[:80]} over {ex_slots}: the derivative node does not report the "
                                f"slots of the map it denotes", replay={"case": nm, "unexpanded": str(un), "expanded": str(ex_slots)}, reproduced=True, backend="structural")
        return bounded_ok(n, "derivatives of Cofunction / Matrix / FormSum / Cofunction w.r.t. itself", sample="zero derivatives with the extra argument, linearity over FormSum, identity")
    run.add("derivative/base-forms", derivs, kind="bounded")

    # ---- coefficients: an Action depends on exactly the coefficients of its two operands (a Coefficient operand is its own coefficient), each reported once
    def action_coefficients():
        from ufl import Action, Cofunction, Matrix
        M_ = Model()
        V_ = M_.V
        u_, g_ = ufl.Coefficient(V_), ufl.Coefficient(V_)
        c_ = Cofunction(V_.dual())
        A_ = Matrix(V_, V_)
        v_, w_ = ufl.TestFunction(V_), ufl.TrialFunction(V_)
        dx_ = ufl.Measure("dx", domain=M_.m)
        own = lambda x_: (x_,) if isinstance(x_, (ufl.Coefficient, Cofunction)) else tuple(x_.coefficients())     # noqa: E731
        pairs = [("Action(u, c)", u_, c_), ("Action(c, u)", c_, u_), ("Action(u*v*dx, u)", u_ * v_ * dx_, u_), ("Action(g*u*v*dx, u)", g_ * u_ * v_ * dx_, u_),
                 ("Action(A, u)", A_, u_), ("Action(g*w*v*dx, u)", g_ * w_ * v_ * dx_, u_), ("Action(Action(A, u), c)", Action(A_, u_), c_), ("Action(u*w*v*dx, Action(A, u))", u_ * w_ * v_ * dx_, Action(A_, u_))]
        n = 0
        for nm_, l_, r_ in pairs:
            try:
                a_ = Action(l_, r_)
            except (TypeError, ValueError):
                continue
            if not hasattr(a_, "coefficients"):
                continue
            got = tuple(a_.coefficients())
            want = set(own(l_)) | set(own(r_))
            n += 1
            if isinstance(a_, Action) and (set(got) != want or len(got) != len(set(got))):
                return violated(f"{nm_}.coefficients() = {tuple(map(str, got))}; its operands depend on {tuple(sorted(map(str, want)))} (each once)",
                                replay={"action": nm_, "got": [str(x_) for x_ in got], "want": sorted(str(x_) for x_ in want)}, reproduced=True, backend="exec")
        return bounded_ok(n, f"{n} actions over coefficients, cofunctions, forms and matrices", sample="coefficients of an Action = union of its operands' coefficients, without duplicates")
    run.add("action/coefficients-are-those-of-the-operands", action_coefficients, kind="bounded")

    def canary():
        M = Model()
        P = pool(M)
        A, g = P["A_VW"], P["g"]
        got = Action(A, g)
        spec = M.action_spec(M.den(P["B_VW"]), M.den(g))      # wrong matrix: must be refuted
        r = compare(M, "canary", got, spec, (A, g))
        if isinstance(r, int):
            return proved("canary")
        return violated("canary refuted", reproduced=True)
    run.add("canary/other-matrix", canary, kind="canary")
