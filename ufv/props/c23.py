"""C23 — complex and real mode node handling is sound.

Functions under contract: every handler of CheckComparisons (complex mode) and of ComplexNodeRemoval (real mode).

Contract, complex mode (abstract domain {real, complex, bool}):
   soundness:  nodetype[o] == 'real'  ==>  Im den(o) == 0   whenever every real-typed operand is real;
   comparison / min / max handlers raise if any operand may be complex, otherwise return a node whose value equals the
   original for real data.
Contract, real mode: removing Conj / Real nodes leaves den unchanged for real data; Imag nodes and complex literals raise.
Real-valued math functions that are not closed over the reals (sqrt, ln, acos, asin, bessel_Y, bessel_K; non-integer powers) are modelled with an
unconstrained imaginary part, so typing their result 'real' is refuted.
"""
from __future__ import annotations

import itertools

import ufl
import ufl.classes as C
from ufl.algorithms.comparison_checker import CheckComparisons, ComplexComparisonError, do_comparison_check
from ufl.algorithms.remove_complex_nodes import ComplexNodeRemoval, remove_complex_nodes
from ufl.core.expr import Expr
from ufl.corealg.map_dag import map_expr_dag

from ufv import num as N
from ufv.core import bounded_ok, crash_text, deliberate, proved, undecided, violated
from ufv.den import World, components, den, envs
from ufv.nodes import templates
from ufv.num import Unsupported
from ufv.opq import Opq, mesh
from ufv.semv import check_same, complex_world
from ufv.smt import prove_equal

LEVEL = "other"
TECHNIQUE = ("abstract-interpretation soundness contracts on the real CheckComparisons handlers (run on opaque operands typed real / complex; "
             "'typed real => imaginary part is zero' and value preservation are VCs for all values) and value-preservation contracts on "
             "ComplexNodeRemoval; dispatch table checked for all registered types")
LEVEL_TEXT = "All-values proofs per (handler, operand typing); shapes enumerated; every registered operator class is either covered by a template or reported."
LEVEL_NOTE = ("Trusted: ufv/den.py complex-pair semantics; the table of real functions not closed over the reals (sqrt, ln, acos, asin, "
              "non-integer powers) modelled with a free imaginary part; z3.")
TRUSTED = ["ufv/den.py, ufv/num.py (complex pairs)", "table: sqrt/ln/acos/asin/bessel_Y/bessel_K/non-integer powers of reals may be complex", "z3"]
ASSUMPTIONS = ["operand shapes per ufv/nodes.py", "Bessel functions of the first kind (J, I) are real on real arguments; those of the second kind (Y, K) may be complex (negative arguments)", "index-notation nodes carry a MultiIndex terminal "
               "which the checker types complex (conservative rejections are allowed by the property)"]
EXPLANATION = ("Soundness of the real/complex type inference used to admit ordering comparisons in complex mode, and value preservation of "
               "both mode-specific rewrites, per handler for all operand values.")


def build(run):
    tri = mesh("triangle")
    for nm in ("expr", "compare", "max_value", "min_value", "real", "imag", "sqrt", "power", "abs", "terminal", "indexed"):
        run.function(getattr(CheckComparisons, nm), f"CheckComparisons.{nm}")
    for nm in ("conj", "real", "imag", "terminal"):
        run.function(getattr(ComplexNodeRemoval, nm), f"ComplexNodeRemoval.{nm}")
    tmo = 20000

    def cm_ob(t, typing):
        tag = f"complex-mode/{t.name}/" + ",".join(typing)

        def thunk():
            ops = [Opq(name, shape, fi, fid, dom=tri, real=(ty == "real")) for (name, shape, fi, fid), ty in zip(t.specs, typing)]
            try:
                o = t.build(ops)
            except Exception as ex:  # noqa: BLE001
                return undecided(f"{tag}: template could not be built: {ex}")
            if not isinstance(o, t.cls):
                return proved("constructor-simplified", sample=f"{tag}: constructor returned {type(o).__name__}")
            rules = CheckComparisons()
            vcache = {}
            for op, ty in zip(ops, typing):
                rules.nodetype[op] = ty
                vcache[op] = op
            try:
                r = map_expr_dag(rules, o, compress=False, vcache=vcache)
            except ComplexComparisonError as ex:
                if "complex" in typing or _may_be_complex_inside(o):
                    return proved("rejected", sample=f"{tag}: rejected ({ex})")
                # rejecting although every operand is real is conservative, allowed by the property
                return proved("rejected-conservatively", sample=f"{tag}: rejected although operands are real-typed")
            ty = rules.nodetype.get(r)
            mk = complex_world()
            # value preservation for real data
            if r is o or r == o:
                res = proved("unchanged", sample=f"{tag}: node returned unchanged")
            else:
                res = check_same(mk, r, lambda w, c, env: den(w, o, c, env), o.ufl_shape, o.ufl_free_indices, o.ufl_index_dimensions,
                                 timeout_ms=tmo, what=tag + " value")
            if res.status != "proved":
                return res
            if ty == "real":
                nv = 0
                for c in components(r.ufl_shape):
                    for env in envs(r.ufl_free_indices, r.ufl_index_dimensions):
                        w = mk(True, None)
                        try:
                            v = den(w, r, c, env)
                        except Unsupported as ex:
                            return undecided(f"{tag}: no denotation: {ex}")
                        im = N.imag(v)
                        vd = prove_equal(w, im, 0, tmo)
                        nv += 1
                        if vd.status == "refuted" or (vd.status != "proved" and not N.is_base(im)):
                            return violated(f"{tag}: node typed 'real' by CheckComparisons but its imaginary part need not vanish "
                                            f"(operand types {typing}); counter-model {vd.model}",
                                            replay={"template": t.name, "typing": list(typing), "model": vd.model, "node": repr(r)[:1200]},
                                            reproduced=True, backend=vd.backend)
                        if vd.status != "proved":
                            return violated(f"{tag}: node typed 'real' by CheckComparisons although the language gives it a value that may "
                                            f"be complex for real operands (imaginary part {str(im)[:120]})",
                                            replay={"template": t.name, "typing": list(typing), "node": repr(r)[:1200]}, reproduced=True,
                                            backend=vd.backend)
                return proved("z3-simplify", vcs=nv + res.vcs, sample=f"{tag}: typed real, Im == 0 proved; value preserved")
            return proved(res.backend, vcs=res.vcs, sample=f"{tag}: typed {ty}; value preserved")
        run.add(tag, thunk, kind="values")

    def _may_be_complex_inside(o):
        return False

    for t in templates():
        if t.name in ("CellAvg", "FacetAvg") or issubclass(t.cls, (C.CompoundTensorOperator, C.CompoundDerivative)):
            continue
        k = len(t.specs)
        for typing in itertools.product(("real", "complex"), repeat=k):
            if k > 2 and typing.count("complex") not in (0, 1, k):
                continue
            cm_ob(t, typing)

    # powers with LITERAL exponents of every kind (int, float, complex; as nodes and as Python numbers): a real base raised to e is real for every value of the base
    # exactly when e is a real integer -- any other exponent typed 'real' lets an ordering comparison of complex values through
    def literal_powers():
        import cmath
        import ufv.elements as E
        from ufl.algorithms import compute_form_data
        S_ = ufl.FunctionSpace(tri, E.LagrangeElement(tri.ufl_cell(), 1))
        f, v = ufl.Coefficient(S_), ufl.TestFunction(S_)
        exps = [2, -1, 0, 3, 2.0, -2.0, 0.5, 2.5, -0.5, 1j, 2 + 1j, 3 - 2j, -1 + 0.5j, 0.5 + 0.5j, 2.5 + 1j, C.IntValue(4), C.FloatValue(1.5), C.ComplexValue(2 + 1j), C.ComplexValue(1j)]
        n = 0
        for e_ in exps:
            ev = complex(e_._value) if isinstance(e_, C.ScalarValue) else complex(e_)
            # ground truth by definition: b**e for real b of either sign
            always_real = all(abs((complex(b_) ** ev).imag) < 1e-12 for b_ in (0.5, 2.0, 3.0, -0.5, -2.0, -3.0))
            want_real_ok = ev.imag == 0 and ev.real == int(ev.real)
            assert always_real == want_real_ok or (ev == 0), (e_, always_real, want_real_ok)
            base = Opq("a", (), (), (), dom=tri, real=True)
            o = C.Power(base, ufl.as_ufl(e_))
            rules = CheckComparisons()
            rules.nodetype[base] = "real"
            try:
                r = map_expr_dag(rules, o, compress=False, vcache={base: base})
                ty = rules.nodetype.get(r)
            except ComplexComparisonError:
                ty = "rejected"
            n += 1
            if ty == "real" and not want_real_ok:
                return violated(f"CheckComparisons types (real base)**({e_!r}) as real; with base 3 the value is {3.0 ** ev}", replay={"exponent": repr(e_), "value_at_3": str(3.0 ** ev)},
                                reproduced=True, backend="exec")
            # through the pipeline: an ordering comparison / min / max of such a power
            for cname, mk in (("lt", lambda p_: ufl.conditional(ufl.lt(p_, 1), 1.0, 2.0)), ("max_value", lambda p_: ufl.max_value(p_, 1)), ("min_value", lambda p_: ufl.min_value(1, p_))):
                form = mk(abs(f) ** e_) * ufl.conj(v) * ufl.Measure("dx", domain=tri)
                n += 1
                try:
                    compute_form_data(form, complex_mode=True)
                    accepted = True
                except ComplexComparisonError:
                    accepted = False
                except BaseException as ex:  # noqa: BLE001
                    if isinstance(ex, (KeyboardInterrupt, SystemExit)):
                        raise
                    accepted = False
                if accepted and not want_real_ok:
                    return violated(f"complex mode accepts {cname} of |f|**({e_!r}) although that power is complex valued (at |f| = 3: {3.0 ** ev})",
                                    replay={"exponent": repr(e_), "comparison": cname}, reproduced=True, backend="exec")
        # infinite and not-a-number exponents: a decision (accepted or rejected with ComplexComparisonError), never an internal error
        for e_ in (float("inf"), float("-inf"), float("nan")):
            for cname, mk in (("lt", lambda p_: ufl.conditional(ufl.lt(p_, 1), 1.0, 2.0)), ("max_value", lambda p_: ufl.max_value(p_, 1))):
                n += 1
                try:
                    compute_form_data(mk(abs(f) ** e_) * ufl.conj(v) * ufl.Measure("dx", domain=tri), complex_mode=True)
                except ComplexComparisonError:
                    pass
                except BaseException as ex:  # noqa: BLE001
                    if isinstance(ex, (KeyboardInterrupt, SystemExit)):
                        raise
                    return violated(f"complex-mode preprocessing of {cname} of |f|**({e_!r}) fails with {type(ex).__name__}: {ex} (neither accepted nor rejected as a complex comparison)",
                                    replay={"exponent": repr(e_), "comparison": cname, "error": f"{type(ex).__name__}: {ex}"}, reproduced=True, backend="exec")
        return proved("exec(finite)", vcs=n, sample=f"{len(exps)} literal exponents: typed real only for real integers; comparisons of complex-valued powers rejected; non-finite exponents decided")
    run.add("complex-mode/powers-with-literal-exponents", literal_powers, kind="values")

    # powers with SYMBOLIC exponents (a coefficient, its real part, its modulus, a constant): the preprocessing must come to a decision -- accept (only when base and
    # exponent are provably real) or reject -- and not hang converting the exponent to a number.  Each case runs in a child process with a time limit (bounded).
    def symbolic_powers():
        import ufv.elements as E
        S_ = ufl.FunctionSpace(tri, E.LagrangeElement(tri.ufl_cell(), 1))
        f, g, v = ufl.Coefficient(S_), ufl.Coefficient(S_), ufl.TestFunction(S_)
        c = ufl.Constant(tri)
        dxm = ufl.Measure("dx", domain=tri)
        cases = [("|f|**g < 1", lambda: ufl.conditional(ufl.lt(abs(f) ** g, 1), 1.0, 2.0), True), ("|f|**Re(g) < 1", lambda: ufl.conditional(ufl.lt(abs(f) ** ufl.real(g), 1), 1.0, 2.0), False),
                 ("max(Re(f)**g, 0)", lambda: ufl.max_value(ufl.real(f) ** g, 0), True), ("min(2**c, 1)", lambda: ufl.min_value(2 ** c, 1), True),
                 ("|f|**|g| < 1", lambda: ufl.conditional(ufl.lt(abs(f) ** abs(g), 1), 1.0, 2.0), False), ("f**g (no comparison)", lambda: f ** g, False),
                 ("x**x < 1 (coordinates)", lambda: ufl.conditional(ufl.lt(ufl.SpatialCoordinate(tri)[0] ** ufl.SpatialCoordinate(tri)[1], 1), 1.0, 2.0), False)]
        LIMIT = 100

        def child(mk):
            from ufl.algorithms import compute_form_data
            try:
                compute_form_data(mk() * ufl.conj(v) * dxm, complex_mode=True)
                return "accepted"
            except ComplexComparisonError:
                return "rejected"
            except BaseException as ex:  # noqa: BLE001
                return f"raised {type(ex).__name__}: {ex}"[:200]
        import os
        import time
        n = 0
        for nm, mk, must_reject in cases:
            rfd, wfd = os.pipe()
            pid = os.fork()
            if pid == 0:
                try:
                    os.close(rfd)
                    os.write(wfd, child(mk).encode())
                finally:
                    os._exit(0)
            os.close(wfd)
            t0 = time.time()
            done = False
            while time.time() - t0 < LIMIT:
                r_, _st = os.waitpid(pid, os.WNOHANG)
                if r_ == pid:
                    done = True
                    break
                time.sleep(0.05)
            if not done:
                os.kill(pid, 9)
                os.waitpid(pid, 0)
                os.close(rfd)
                return violated(f"complex-mode preprocessing of an integrand with {nm} did not finish within {LIMIT} s: it neither accepts nor rejects the comparison "
                                f"(the exponent is converted to a number by evaluating it, which does not end for a symbolic exponent)",
                                replay={"integrand": nm, "time_limit_s": LIMIT}, reproduced=True, backend="exec(child process, time limit)")
            out = os.read(rfd, 4096).decode() or "no answer"
            os.close(rfd)
            n += 1
            if must_reject and out == "accepted":
                return violated(f"complex mode accepts {nm}, whose power may be complex valued", replay={"integrand": nm}, reproduced=True, backend="exec")
            if out.startswith("raised") and "Arity" not in out:
                return violated(f"complex-mode preprocessing of {nm} crashed: {out}", replay={"integrand": nm, "outcome": out}, reproduced=True, backend="exec")
        return bounded_ok(n, f"{len(cases)} integrands with symbolic exponents, each decided within {LIMIT} s in a child process", sample="a decision (accept / reject) is reached; possibly complex powers rejected")
    run.add("complex-mode/powers-with-symbolic-exponents-are-decided", symbolic_powers, kind="bounded", budget=600)

    # compound conditions (And / Or / Not) and the equality tests eq / ne in complex mode: only the ORDERING comparisons inside are checked and wrapped; the logical
    # connectives stay conditions, and eq / ne are defined for complex values (accepted, not wrapped)
    def compound_conditions():
        import ufv.elements as E
        from ufl.algorithms import compute_form_data
        S_ = ufl.FunctionSpace(tri, E.LagrangeElement(tri.ufl_cell(), 1))
        f, v = ufl.Coefficient(S_), ufl.TestFunction(S_)
        x = ufl.SpatialCoordinate(tri)
        dxm = ufl.Measure("dx", domain=tri)
        cases = [("And(lt(x0, 1/2), gt(x1, 1/10))", ufl.And(ufl.lt(x[0], 0.5), ufl.gt(x[1], 0.1)), True), ("Or(lt(|f|, 1), gt(x0, 0))", ufl.Or(ufl.lt(abs(f), 1), ufl.gt(x[0], 0)), True),
                 ("Not(le(x0, x1))", ufl.Not(ufl.le(x[0], x[1])), True), ("And(Or(lt, ge), Not(gt))", ufl.And(ufl.Or(ufl.lt(x[0], 0), ufl.ge(x[1], 1)), ufl.Not(ufl.gt(abs(f), 2))), True),
                 ("eq(f, 0)", ufl.eq(f, 0), True), ("ne(f, 1j)", ufl.ne(f, 1j), True), ("And(eq(f, 0), lt(x0, 1))", ufl.And(ufl.eq(f, 0), ufl.lt(x[0], 1)), True),
                 ("And(lt(f, 0), gt(x0, 0))  [complex f ordered]", ufl.And(ufl.lt(f, 0), ufl.gt(x[0], 0)), False), ("Not(ge(f, x0))  [complex f ordered]", ufl.Not(ufl.ge(f, x[0])), False)]
        n = 0
        for nm, cond, accept in cases:
            form = ufl.conditional(cond, 1.0, 2.0) * f * ufl.conj(v) * dxm
            n += 1
            try:
                fd = compute_form_data(form, complex_mode=True)
                outcome = "accepted"
            except ComplexComparisonError:
                outcome = "rejected"
            except BaseException as ex:  # noqa: BLE001
                if isinstance(ex, (KeyboardInterrupt, SystemExit)):
                    raise
                return violated(f"complex-mode preprocessing of conditional({nm}, 1, 2)*f*conj(v)*dx failed with {type(ex).__name__}: {ex}", replay={"condition": nm, "error": str(ex)[:300]},
                                reproduced=True, backend="exec")
            if (outcome == "accepted") != accept:
                return violated(f"complex mode {outcome} conditional({nm}, ...): " + ("its ordering comparisons have provably real operands and equality is defined for complex values" if accept
                                                                                       else "it orders a possibly complex quantity"), replay={"condition": nm, "outcome": outcome}, reproduced=True, backend="exec")
            if accept:
                # the logical structure is kept: same number of And / Or / Not / EQ / NE nodes, and no Real() wrapped around a condition
                count = lambda e_, T_: sum(isinstance(nd, T_) for nd in ufl.corealg.traversal.unique_pre_traversal(e_))     # noqa: E731
                itg = fd.preprocessed_form.integrals()[0].integrand()
                for T_ in (C.AndCondition, C.OrCondition, C.NotCondition, C.EQ, C.NE):
                    if count(itg, T_) != count(form.integrals()[0].integrand(), T_):
                        return violated(f"complex mode changed the number of {T_.__name__} nodes in conditional({nm}, ...)", replay={"condition": nm}, reproduced=True, backend="structural")
        return proved("exec(finite)", vcs=n, sample=f"{n} compound / equality conditions: accepted with their logical structure when every ordered operand is real, rejected otherwise")
    run.add("complex-mode/compound-and-equality-conditions", compound_conditions, kind="values")

    # terminals: which are typed real
    def terminals():
        import ufv.elements as E
        S = ufl.FunctionSpace(tri, E.LagrangeElement(tri.ufl_cell(), 1))
        rules = CheckComparisons()
        n = 0
        for term, must_be in [(C.IntValue(2), "real"), (C.FloatValue(0.5), "real"), (C.Zero(), "real"), (ufl.TestFunction(S), "real"),
                              (C.SpatialCoordinate(tri), "real"), (C.ComplexValue(1 + 2j), "complex"), (ufl.Coefficient(S), "complex"),
                              (ufl.Constant(tri), "complex")]:
            rules.terminal(term)
            n += 1
            got = rules.nodetype[term]
            if got == "real" and must_be == "complex":
                return violated(f"terminal {type(term).__name__} typed real although it may be complex", reproduced=True,
                                replay={"terminal": repr(term)})
        return proved("exec", vcs=n, sample="complex literals, coefficients and constants are never typed real")
    run.add("complex-mode/terminals", terminals, kind="proof")

    # ---- real mode
    def rm_ob(t):
        tag = f"real-mode/{t.name}"

        def thunk():
            ops = [Opq(name, shape, fi, fid, dom=tri, real=True) for (name, shape, fi, fid) in t.specs]
            try:
                o = t.build(ops)
            except Exception as ex:  # noqa: BLE001
                return undecided(f"{tag}: template could not be built: {ex}")
            rules = ComplexNodeRemoval()
            # the operands have already been transformed (to stand-ins t_<name>): the rule must build its result from the TRANSFORMED operands,
            # a rule that reaches back to the node's own operands returns sub-expressions nothing has cleaned
            ops_t = [Opq("t_" + name, shape, fi, fid, dom=tri, real=True) for (name, shape, fi, fid) in t.specs]
            o_t = t.build(ops_t)
            try:
                r = map_expr_dag(rules, o, vcache=dict(zip(ops, ops_t)))
            except ValueError as ex:
                if not deliberate(ex):
                    return violated(f"crash instead of a result or a refusal: {crash_text(ex)}", reproduced=True, backend="exec")
                if isinstance(o, C.Imag) or t.cls is C.Imag:
                    return proved("rejected", sample=f"{tag}: {ex}")
                return proved("rejected-conservatively", sample=f"{tag}: {ex}")
            if t.cls is C.Imag and isinstance(o, C.Imag):
                return violated(f"{tag}: an Imag node survived real-mode node removal", reproduced=True, replay={"node": repr(o)})
            for node in ufl.corealg.traversal.unique_pre_traversal(r):
                if isinstance(node, (C.Conj, C.Real, C.Imag, C.ComplexValue)):
                    return violated(f"{tag}: {type(node).__name__} node left in a real-mode expression", reproduced=True,
                                    replay={"result": repr(r)[:1000]})
            return check_same(complex_world(), r, lambda w, c, env: den(w, o_t, c, env), o.ufl_shape, o.ufl_free_indices,
                              o.ufl_index_dimensions, timeout_ms=tmo, what=tag)
        run.add(tag, thunk, kind="values")
    for t in templates():
        if t.name in ("CellAvg", "FacetAvg") or issubclass(t.cls, (C.CompoundTensorOperator, C.CompoundDerivative)):
            continue
        rm_ob(t)

    def rm_literals():
        rules = ComplexNodeRemoval()
        for bad in (C.ComplexValue(1 + 2j), C.Imag(Opq("a"))):
            try:
                map_expr_dag(rules, C.Sum(Opq("b"), bad) if bad.ufl_shape == () else bad)
                return violated(f"real mode accepted {bad!r}", reproduced=True, replay={"node": repr(bad)})
            except ValueError:
                pass
        return proved("exec", vcs=2, sample="complex literal and Imag node are rejected in real mode")
    run.add("real-mode/rejects-imag-and-complex-literals", rm_literals, kind="proof")

    # ---- real mode, through the entry points (a contract on the handlers is only worth what the entry point runs them on)
    def rm_entry():
        import ufl
        from ufl import conj, dx, imag, inner, real
        from ufl.algorithms import compute_form_data
        from ufv import elements as E
        V = ufl.FunctionSpace(tri, E.LagrangeElement(ufl.triangle, 1))
        f, u, v = ufl.Coefficient(V), ufl.TrialFunction(V), ufl.TestFunction(V)
        z = C.ComplexValue(2 + 3j)
        cases = [   # (name, integrand, must_be_rejected)
            ("complex literal, no conj/real/imag node", z * u * v, True), ("complex literal times coefficient", C.ComplexValue(1j) * f * v, True),
            ("complex literal and conj", z * u * conj(v), True), ("complex literal under sqrt", ufl.sqrt(z * z) * f * v, True),
            ("imag node", imag(f) * v, True), ("imag of product", imag(f * u) * v, True),
            ("conj only", u * conj(v), False), ("real only", real(f) * u * v, False), ("inner (conj inside)", inner(f * u, v), False),
            ("plain real form", f * u * v, False),
            # complex nodes NESTED below a conj / real node (and two conj levels: the pipeline removes complex nodes in more than one pass)
            ("conj over real", conj(real(f) * v) * u, False), ("conj over conj", conj(conj(f) * v) * u, False), ("real over conj", real(conj(f) * u) * v, False),
            ("conj over imag", conj(imag(f) * v) * u, True), ("conj over a complex literal", conj(z * v) * u, True), ("real over imag", real(imag(f) * u) * v, True),
            ("real over a complex literal", real(z * f) * u * v, True),
            ("two conj levels over real", inner(u, inner(f, real(f) * f) * v), False), ("two conj levels over imag", inner(u, inner(f, imag(f) * f) * v), True),
            ("two conj levels over a complex literal", inner(u, inner(f, (1 + 2j) * f) * v), True), ("two conj levels, plain", inner(u, inner(f, f * f) * v), False),
            ("three conj levels over imag", inner(inner(f, inner(f, imag(f))) * u, v), True),
        ]
        n = 0
        for name, itg, reject in cases:
            form = itg * dx
            routes = [("remove_complex_nodes(expr)", lambda: [remove_complex_nodes(itg)]),
                      ("remove_complex_nodes(form)", lambda: [i_.integrand() for i_ in remove_complex_nodes(form).integrals()]),
                      ("compute_form_data(complex_mode=False)", lambda: [i_.integrand() for i_ in compute_form_data(form, complex_mode=False).preprocessed_form.integrals()])]
            for rname, route in routes:
                n += 1
                try:
                    outs = route()
                except ValueError:
                    if reject:
                        continue
                    return violated(f"real mode rejects a real-valued form ({name}) via {rname}", reproduced=True, replay={"integrand": str(itg), "route": rname})
                left = [type(nd).__name__ for o_ in outs for nd in ufl.corealg.traversal.unique_pre_traversal(o_)
                        if isinstance(nd, (C.Conj, C.Real, C.Imag, C.ComplexValue))]
                if reject or left:
                    return violated(f"real mode: {rname} accepted '{name}' ({itg}); complex nodes left in the result: {sorted(set(left))}",
                                    reproduced=True, replay={"integrand": str(itg), "route": rname, "left": left})
        return bounded_ok(n, f"{len(cases)} integrands x 3 entry points", sample="complex literals / Imag rejected, Conj/Real removed, nothing complex left")
    run.function(remove_complex_nodes)
    run.add("real-mode/entry-points", rm_entry, kind="bounded")

    # ---- complex mode, through the entry point, on operands that are already real-part nodes / nested checks / checked twice:
    # the result has the value of the input, and every operand of an ordering comparison, min or max is real valued
    def cm_entry():
        import ufl
        from ufl import conditional, gt, lt, max_value, min_value, real, imag
        a, b = Opq("a", dom=tri), Opq("b", dom=tri)
        ra, rb = Opq("ra", dom=tri, real=True), Opq("rb", dom=tri, real=True)
        cases = [
            ("conditional(real(a) > 0, a, b)", lambda: conditional(gt(real(a), 0), a, b)),
            ("max_value(real(a), 0.5)", lambda: max_value(real(a), 0.5)), ("min_value(real(a), real(b))", lambda: min_value(real(a), real(b))),
            ("max_value(abs(a), abs(b))", lambda: max_value(abs(a), abs(b))), ("conditional(imag(a) < real(b), a, b)", lambda: conditional(lt(imag(a), real(b)), a, b)),
            ("real operands", lambda: conditional(lt(ra, rb), a, max_value(ra, rb) * b)),
            ("nested", lambda: conditional(gt(max_value(real(a), imag(b)), min_value(ra, abs(b))), real(a) * b, a)),
        ]
        n = 0
        for name, mk in cases:
            e = mk()
            for times in (1, 2):
                try:
                    r = do_comparison_check(e)
                    if times == 2:
                        r = do_comparison_check(r)
                except ComplexComparisonError:
                    n += 1
                    break       # a conservative rejection is allowed (opaque operands are typed complex by the checker)
                res = check_same(complex_world(), r, lambda w, c, env: den(w, e, c, env), (), timeout_ms=tmo, what=f"{name} (checked {times}x)")
                n += 1
                if res.status != "proved":
                    return res
                for node in ufl.corealg.traversal.unique_pre_traversal(r):
                    if isinstance(node, (C.LT, C.GT, C.LE, C.GE, C.MaxValue, C.MinValue)):
                        for op in node.ufl_operands:
                            w = complex_world()(True, None)
                            v = prove_equal(w, N.imag(den(w, op, (), {})), 0, 10000)
                            n += 1
                            if v.status == "refuted":
                                return violated(f"complex mode: after checking '{name}' {times}x the operand {op} of {type(node).__name__} can have a non-zero "
                                                f"imaginary part: {v.model}", replay={"expr": str(e), "result": str(r), "operand": str(op), "model": v.model},
                                                reproduced=True, backend=v.backend)
                            if v.status != "proved":
                                return undecided(f"cm_entry {name}: {v.backend} {v.detail}")
        return proved("z3", vcs=n, sample=f"{len(cases)} expressions x (checked once, twice): value preserved, all comparison operands real valued")
    run.function(do_comparison_check)
    run.add("complex-mode/entry-point(real-part operands, repeated application)", cm_entry, kind="values")

    # ---- the whole complex-mode pipeline: passes that run AFTER the comparison check (derivative expansion, lowering) introduce comparisons of
    # their own (sign, abs', conditionals of min/max derivatives): every ordering comparison in the preprocessed form has real-valued operands
    def cm_pipeline():
        from ufl import Coefficient, TestFunction, TrialFunction, conj, derivative, diff, dx, grad, inner, real, sign, sqrt, variable
        from ufl.algorithms import compute_form_data
        from ufv import elements as E
        from ufv.terms import atoms_hook
        V = ufl.FunctionSpace(tri, E.LagrangeElement(ufl.triangle, 2))
        f, g = Coefficient(V), Coefficient(V)
        u, v = TrialFunction(V), TestFunction(V)
        forms = [
            ("derivative of |f|", lambda: derivative(abs(f) * conj(v) * dx, f, u)), ("derivative of |f|^3", lambda: derivative(abs(f) ** 3 * conj(v) * dx, f, u)),
            ("derivative of |f g|", lambda: derivative(abs(f * g) * conj(v) * dx, f, u)), ("second derivative of |f| f^2", lambda: derivative(derivative(abs(f) * f * f * dx, f, conj(v)), f, u)),
            ("grad |f|", lambda: inner(grad(abs(f)), grad(v)) * dx), ("d|w|/dw of a variable", lambda: (lambda w_: diff(abs(w_) * w_, w_))(variable(f)) * conj(v) * dx),
            ("sign(real f)", lambda: sign(real(f)) * u * conj(v) * dx), ("derivative of sqrt(|f|+1)", lambda: derivative(sqrt(abs(f) + 1) * conj(v) * dx, f, u)),
            ("derivative of |grad f|^2 |f|", lambda: derivative(inner(grad(f), grad(f)) * abs(f) * conj(v) * dx, f, u)),
        ]
        # forms WITHOUT any Coefficient: constants, coordinates and complex literals can be compared too
        c0 = ufl.Constant(tri)
        xx = ufl.SpatialCoordinate(tri)
        from ufl import conditional, gt, lt, max_value, min_value
        forms += [
            ("no coefficient: conditional(lt(Constant, 0.5))", lambda: conditional(lt(c0, 0.5), 1.0, 2.0) * u * conj(v) * dx),
            ("no coefficient: max_value(1j*x0, 0.5)", lambda: max_value(1j * xx[0], 0.5) * u * conj(v) * dx), ("no coefficient: min_value(Constant, x1)", lambda: min_value(c0, xx[1]) * u * conj(v) * dx),
            ("no coefficient: conditional(gt(x0 + 2j, 0))", lambda: conditional(gt(xx[0] + 2j, 0), 1.0, 2.0) * u * conj(v) * dx),
            ("no coefficient: conditional(lt(x0, 0.5)) (real)", lambda: conditional(lt(xx[0], 0.5), 1.0, 2.0) * u * conj(v) * dx),
            ("no coefficient: max_value(x0, x1) (real)", lambda: max_value(xx[0], xx[1]) * u * conj(v) * dx), ("no coefficient: min_value(abs(Constant), 1)", lambda: min_value(abs(c0), 1) * u * conj(v) * dx),
            ("no coefficient: comparison of the trial function", lambda: conditional(lt(u, 0.5), 1.0, 2.0) * conj(v) * dx),
        ]

        def mk(symbolic, valuation):
            w = World(symbolic=symbolic, complex_mode=True, valuation=valuation)
            w.terminal_hook = atoms_hook
            return w
        n = 0
        for name, mkf in forms:
            try:
                fd = compute_form_data(mkf(), complex_mode=True)
            except ComplexComparisonError:
                n += 1
                continue            # rejected: allowed
            except BaseException as ex:  # noqa: BLE001  (ArityMismatch derives from BaseException)
                if isinstance(ex, (KeyboardInterrupt, SystemExit)):
                    raise
                if not deliberate(ex) and not type(ex).__name__ == "ArityMismatch":
                    return violated(f"crash instead of a result or a refusal: {crash_text(ex)}", reproduced=True, backend="exec")
                n += 1
                continue
            for itd in fd.integral_data:
                for itg in itd.integrals:
                    for node in ufl.corealg.traversal.unique_pre_traversal(itg.integrand()):
                        if isinstance(node, (C.LT, C.GT, C.LE, C.GE, C.MaxValue, C.MinValue)):
                            for op in node.ufl_operands:
                                w = mk(True, None)
                                try:
                                    val = den(w, op, (), {})
                                except Unsupported as ex:
                                    return undecided(f"cm_pipeline {name}: {ex}")
                                vr = prove_equal(w, N.imag(val), 0, 10000)
                                n += 1
                                if vr.status == "refuted":
                                    return violated(f"complex mode: the preprocessed form of '{name}' contains the ordering comparison {node} whose operand {op} can have a "
                                                    f"non-zero imaginary part ({vr.model}): it was neither rejected nor made real",
                                                    replay={"form": name, "comparison": str(node), "operand": str(op), "model": vr.model}, reproduced=True, backend=vr.backend)
                                if vr.status != "proved":
                                    return undecided(f"cm_pipeline {name}: {vr.backend} {vr.detail}")
        return proved("z3", vcs=n, sample=f"{len(forms)} forms through compute_form_data(complex_mode=True): every surviving ordering comparison has real-valued operands "
                                           "for all complex coefficient values")
    run.add("complex-mode/preprocessed-forms-compare-real-values-only", cm_pipeline, kind="values")

    def canary():
        a = Opq("a")    # complex-valued opaque: Im need not vanish -> must be refuted
        w = complex_world()(True, None)
        v = prove_equal(w, N.imag(den(w, a)), 0, 5000)
        if v.status == "refuted":
            return violated("canary refuted", reproduced=True)
        return proved("canary")
    run.add("canary/complex-operand-is-not-real", canary, kind="canary")
