"""C21 — replace substitutes exactly the mapped subexpressions.

Functions under contract: Replacer.__init__, Replacer.ufl_type/external_operator/interpolate/coefficient_derivative, replace.
Contract: den(replace(e, m)) == den(e) evaluated in a world where each mapped terminal k denotes den(m[k]) — including under
derivatives (the image's derivatives), restrictions and variables; shape-changing mappings raise; an expression without
mapped terminals is returned structurally equal to the input.
"""
from __future__ import annotations

import itertools

import ufl
import ufl.classes as C
from ufl import as_vector, conditional, grad, inner, lt, sin, variable, div, dot, exp
from ufl.algorithms.replace import Replacer, replace
from ufl.core.multiindex import Index

from ufv import corpus
from ufv import elements as E
from ufv.core import crash_text, deliberate, proved, undecided, violated
from ufv import num as N
from ufv.den import World, den
from ufv.opq import Opq, mesh
from ufv.semv import check_same
from ufv.terms import atoms_hook

LEVEL = "other"
TECHNIQUE = ("contract VCs: replace() run on a corpus (derivatives, restrictions, variables, index notation) x mappings "
             "(terminal -> terminal, -> expression, -> zero, several at once); den(result) == den(input) with mapped atoms redefined as "
             "the denotation of their images, for all values; refusal and identity postconditions checked by execution")
LEVEL_TEXT = "All-values proofs per (expression, mapping); corpus and mappings enumerated."
LEVEL_NOTE = "Trusted: ufv/den.py (substitution realised by redefining atoms in the world), z3."
TRUSTED = ["ufv/den.py", "z3, ufv/alg.py"]
ASSUMPTIONS = ["finite corpus and mapping family", "real mode", "base-form operators (ExternalOperator, Interpolate) are checked relative to the terminal rule (an operator key is replaced like a coefficient key), not against a denotation"]
EXPLANATION = ("replace() is value-correct for all terminal values on every corpus expression and mapping: mapped terminals take the "
               "value of their image (also under grad, restriction, variable); unmapped expressions are returned unchanged; shape-changing "
               "mappings are refused.")


def build(run):
    tmo = 20000
    for f in (Replacer.__init__, Replacer.ufl_type, Replacer.external_operator, Replacer.interpolate, Replacer.coefficient_derivative, replace):
        run.function(f)
    t = corpus.terminals()
    f, g, u, v, A, B = t["f"], t["g"], t["u"], t["v"], t["A"], t["B"]
    S, V = t["S"], t["V"]
    h = ufl.Coefficient(S)
    w_ = ufl.Coefficient(V)
    c0 = ufl.Constant(t["msh"])
    tf = ufl.TestFunction(S)
    i = Index()

    def plain(symbolic, valuation):
        w = World(symbolic=symbolic, complex_mode=False, valuation=valuation)
        w.terminal_hook = atoms_hook
        return w

    def subst_den(mapping, e):
        """spec: den(e) with every mapped terminal denoting its image (images evaluated without further substitution)"""
        def spec(w, c, env):
            def hook(wx, x, comp, en):
                if x in mapping:
                    w3 = wx.with_layers(wx.layers)
                    w3.terminal_hook = atoms_hook
                    return den(w3, mapping[x], comp, en)
                return atoms_hook(wx, x, comp, en)
            w2 = w.with_layers(w.layers)
            w2.terminal_hook = hook
            return den(w2, e, c, env)
        return spec

    exprs = list(corpus.closed(t)) + [
        ("restricted", (f * g)("+") * u("-")[0]), ("grad under restriction", grad(f)("+")[i] * u("+")[i]),
        ("with argument", f * tf * grad(tf)[i] * u[i]), ("constant", c0 * f * f), ("div", div(u * f)), ("nested grad", grad(grad(f))[i, i] * g),
        ("exp sin", exp(f) * sin(g) + f), ("atan2(f, g)", ufl.atan2(f, g) * h + g), ("atan2(g, f)", ufl.atan2(g, 1 + f * f)), ("atan2(f*h, g)", ufl.atan2(f * h, g)),
        ("cos, cosh, exp of f", ufl.cos(f) * ufl.cosh(f) + exp(f) * g), ("f**g", (1 + f * f) ** g + abs(f) * g), ("max/min", ufl.max_value(f, g) * ufl.min_value(f, h)),
        ("sign(f)*g", ufl.sign(f) * g + ufl.sign(g) * f), ("erf, tanh, atan", ufl.erf(f) + ufl.tanh(f) * g + ufl.atan(f)), ("vector expr", as_vector([f, g])[i] * u[i]),
        # variables: replace keeps labels, so an expression combined with its own image holds two variables with one label
        ("two variables sharing a label", C.Variable(f * f, C.Label(21001)) * g + sin(C.Variable(g * f, C.Label(21001)))),
        ("expression plus its own image under f->h", (lambda e_: e_ + replace(e_, {f: h}))(ufl.variable(f) ** 2 * g + sin(ufl.variable(f * g)))),
        ("variable of a variable", ufl.variable(ufl.variable(f) * g) * f),
    ]
    maps = {
        "f->h": {f: h}, "f->g*h": {f: g * h}, "f->0": {f: C.Zero()}, "f->2.5": {f: 2.5}, "u->w": {u: w_}, "u->f*w": {u: f * w_},
        "f->g,g->f (swap)": {f: g, g: f}, "A->B": {A: B}, "unmapped": {h: g}, "c0->f": {c0: f}, "tf->f": {tf: f},
        "u->grad(h)": {u: grad(h)},
    }
    # images whose element contains P0 without being P0 (embedded sub-degree 0 < super-degree 1: lowest-order Nedelec / Raviart-Thomas,
    # P0 enriched with a bubble): not cellwise constant, derivatives of the image must survive
    import ufl.pullback as _pb
    import ufl.sobolevspace as _sb
    from ufv import elements as _El
    _cell = t["msh"].ufl_cell()
    w_ned = ufl.Coefficient(ufl.FunctionSpace(t["msh"], _El.FiniteElement("N1curl", _cell, 1, (2,), _pb.covariant_piola, _sb.HCurl, subdegree=0)))
    h_enr = ufl.Coefficient(ufl.FunctionSpace(t["msh"], _El.FiniteElement("P0+bubble", _cell, 3, (), _pb.identity_pullback, _sb.L2, subdegree=0)))
    maps["u->(sub-degree 0 vector)"] = {u: w_ned}
    maps["f->(sub-degree 0 scalar)"] = {f: h_enr}
    for ename, e in exprs:
        for mname in maps:
            tag = f"replace/{ename}/{mname}"

            def thunk(ename=ename, mname=mname, tag=tag):
                e = dict(exprs)[ename]
                m = maps[mname]
                try:
                    r = replace(e, m)
                except ValueError as ex:
                    if not deliberate(ex):
                        return violated(f"crash instead of a result or a refusal: {crash_text(ex)}", reproduced=True, backend="exec")
                    return proved("refused", sample=f"{tag}: {ex}"[:200])
                except Exception as ex:  # noqa: BLE001
                    return violated(f"{tag}: replace crashed: {type(ex).__name__}: {ex}", replay={"expr": str(e), "mapping": str(m)}, reproduced=True)
                m2 = {k: ufl.as_ufl(v_) for k, v_ in m.items()}
                from ufl.algorithms.analysis import extract_type
                touched = any(k in set(ufl.corealg.traversal.unique_pre_traversal(e)) for k in m2)
                if not touched and not (r == e):
                    return violated(f"{tag}: expression without mapped terminals was changed", replay={"expr": str(e), "result": str(r)}, reproduced=True)
                if not touched:
                    return proved("unchanged", sample=f"{tag}: returned equal to the input")
                res = check_same(plain, r, subst_den(m2, e), e.ufl_shape, e.ufl_free_indices, e.ufl_index_dimensions,
                                 timeout_ms=tmo, what=tag)
                if res.status == "undecided" and any(isinstance(v_, (C.ScalarValue, C.Zero)) for v_ in m2.values()):
                    # images that are literals trigger float constant folding of math functions: compare numerically (bounded)
                    from ufv.semv import quick_refute
                    from ufv.den import components, envs
                    for c in components(e.ufl_shape):
                        for env in envs(e.ufl_free_indices, e.ufl_index_dimensions):
                            q = quick_refute(plain, r, subst_den(m2, e), c, env, tries=6)
                            if q is not None:
                                return violated(f"{tag}: value differs numerically: {q['got']} vs {q['spec']} at {q['point']}", replay=q, reproduced=True)
                    from ufv.core import bounded_ok
                    return bounded_ok(6, "6 random rational points, relative tolerance 1e-7 (float constant folding)", sample=tag)
                return res
            run.add(tag, thunk, kind="values")

    def shapes():
        n = 0
        import ufl as _ufl
        from ufv import elements as _E
        t_ = corpus.terminals()
        u3 = _ufl.Coefficient(_ufl.FunctionSpace(t_["msh"], _E.LagrangeElement(t_["msh"].ufl_cell(), 1, (3,))))
        A23 = _ufl.Coefficient(_ufl.FunctionSpace(t_["msh"], _E.LagrangeElement(t_["msh"].ufl_cell(), 1, (2, 3))))
        c2, c3 = _ufl.Constant(t_["msh"], (2,)), _ufl.Constant(t_["msh"], (3,))
        # rank-changing AND equal-rank / different-dimension mappings; with expressions in which the result would even be well-formed
        cases = [(f * u[0], {f: u}), (f * u[0], {u: f}), (f * u[0], {u: A}), (f * u[0], {f: as_vector([g, g])}),
                 (u[0] * u[1], {u: u3}), (ufl.dot(u, u), {u: u3}), (ufl.grad(u), {u: u3}), (u("+")[1], {u: u3}), (A[0, 1], {A: A23}), (c2[0] + c2[1], {c2: c3}),
                 (f * f, {u: u3}), (u[0], {u: as_vector([f, g, f])})]
        for e_, m in cases:
            try:
                r_ = replace(e_, m)
                return violated(f"replace accepted the shape-changing mapping {m} in {e_}: result {r_}", reproduced=True, replay={"mapping": str(m), "expr": str(e_)})
            except ValueError:
                n += 1
        from ufl import derivative, dx
        try:
            Replacer({f: g}).coefficient_derivative(None)
            return violated("coefficient_derivative handler did not refuse", reproduced=True)
        except ValueError:
            n += 1
        # derivative inside: replace expands it first
        F = derivative(f * f * dx, f, tf)
        r = replace(F, {f: g})
        itg = r.integrals()[0].integrand()
        res = check_same(plain, itg, subst_den({f: g}, 2 * f * tf), (), what="replace inside an unexpanded derivative")
        if res.status != "proved":
            return res
        # ... also when the unexpanded derivative sits BELOW the root of the integrand / next to other integrals, and for bare expressions and integrals
        # (replace substitutes "including under derivatives": refusing one of these spellings while accepting the others is not a legitimate refusal)
        from ufl.algorithms import expand_derivatives
        J = derivative(f * f * g * dx, f, tf)
        spell = [("-J", lambda: -J), ("0.5*J", lambda: 0.5 * J), ("F + 2*J", lambda: f * tf * dx + 2 * J), ("J + J", lambda: J + J), ("J", lambda: J),
                 ("integral of J", lambda: J.integrals()[0]), ("integrand of -J", lambda: (-J).integrals()[0].integrand()), ("J on ds too", lambda: J + derivative(f * f * _ufl.ds, f, tf))]
        for nm_, mk_ in spell:
            x_ = mk_()
            try:
                r_ = replace(x_, {f: g})
            except ValueError as ex:
                return violated(f"replace refuses {nm_} (J an unexpanded derivative) with a shape-compatible mapping: {ex}", replay={"input": nm_, "error": str(ex)}, reproduced=True, backend="exec")
            want_ = replace(expand_derivatives(x_), {f: g})
            items = lambda y_: ([i_.integrand() for i_ in y_.integrals()] if hasattr(y_, "integrals") else [y_.integrand()] if hasattr(y_, "integrand") else [y_])   # noqa: E731
            got_i, want_i = items(r_), items(want_)
            if len(got_i) != len(want_i):
                return violated(f"replace({nm_}) has {len(got_i)} integrands, replacing in the expanded input gives {len(want_i)}", replay={"input": nm_}, reproduced=True, backend="exec")
            for gi, wi in zip(got_i, want_i):
                res = check_same(plain, expand_derivatives(gi), lambda w, c, env, wi=wi: den(w, wi, c, env), (), what=f"replace({nm_}, f -> g)")
                n += 1
                if res.status != "proved":
                    return res
        return proved("exec+z3", vcs=n + 1, sample="shape-changing mappings raise; unexpanded derivatives are expanded before replacing, wherever they sit")
    run.add("replace/shape-and-derivative-guards", shapes, kind="values")

    # ---- base form operators (ExternalOperator, Interpolate) as KEYS of the mapping and as containers of mapped terminals.  They have no denotation in the
    # specification, so the contract is relative: an expression built around the operator N and the same expression built around a stand-in coefficient c must be
    # replaced alike -- replace(e[N], {N: img}) == replace(e[c], {c: img}) for every image, in particular zero images -- and inside N the operands are replaced
    # while the operator's data (function space, derivatives, argument slots) stays
    def base_form_operators():
        import ufl as _ufl
        from ufl import ExternalOperator, Interpolate
        t_ = corpus.terminals()
        msh = t_["msh"]
        V_ = f.ufl_function_space()
        ctx = [("N", lambda x_: x_), ("N*g + f", lambda x_: x_ * g + f), ("sin(N)*N", lambda x_: ufl.sin(x_) * x_), ("grad(N*g)[0]", lambda x_: ufl.grad(x_ * g)[0]),
               ("conditional(N < g, N, f)", lambda x_: ufl.conditional(ufl.lt(x_, g), x_, f)), ("as_vector([N, g])[1] + N('+')", lambda x_: as_vector([x_, g])[1] + x_("+"))]
        images = [("g", lambda: g), ("2*g", lambda: 2 * g), ("Zero()", lambda: C.Zero()), ("0*g", lambda: 0 * g), ("IntValue(1)", lambda: C.IntValue(1)), ("FloatValue(0.5)", lambda: C.FloatValue(0.5))]
        makers = [("ExternalOperator", lambda: ExternalOperator(f, g, function_space=V_)), ("ExternalOperator with derivatives", lambda: ExternalOperator(f, g, function_space=V_, derivatives=(1, 0))),
                  ("Interpolate", lambda: Interpolate(f * g, V_))]
        n = 0
        for mname, mkN in makers:
            Nop = mkN()
            c_ = _ufl.Coefficient(V_)
            for cname, cx in ctx:
                for iname, mkimg in images:
                    img = mkimg()
                    try:
                        got = replace(cx(Nop), {Nop: img})
                        want = replace(cx(c_), {c_: img})
                    except (ValueError, TypeError) as ex:
                        if deliberate(ex):
                            continue
                        return violated(f"replace of a {mname} by {iname} in {cname} crashed: {crash_text(ex)}", reproduced=True, backend="exec")
                    n += 1
                    if not (got == want):
                        return violated(f"replace({cname}, {{N: {iname}}}) with N a {mname} gives {str(got)[:160]}; the same expression around a coefficient c with {{c: {iname}}} gives {str(want)[:160]}",
                                        replay={"operator": mname, "context": cname, "image": iname, "got": str(got)[:600], "want": str(want)[:600]}, reproduced=True, backend="exec")
            # inside the operator: operands are replaced, the data stays
            got = replace(Nop * f, {f: g})
            inner_ops = [nd for nd in ufl.corealg.traversal.unique_pre_traversal(got) if isinstance(nd, type(Nop))]
            n += 1
            if len(inner_ops) != 1:
                return violated(f"replace({mname}(f, ...)*f, {{f: g}}) contains {len(inner_ops)} operators of that kind: {got}", reproduced=True, backend="exec")
            N2 = inner_ops[0]
            if any(f == x_ for nd in N2.ufl_operands for x_ in ufl.corealg.traversal.unique_pre_traversal(nd)):
                return violated(f"replace({mname}(f, ...)*f, {{f: g}}) left f inside the operator: {N2}", replay={"operator": mname, "result": str(got)}, reproduced=True, backend="exec")
            same_data = (N2.ufl_function_space() == Nop.ufl_function_space() and getattr(N2, "derivatives", None) == getattr(Nop, "derivatives", None)
                         and len(N2.argument_slots()) == len(Nop.argument_slots()))
            if not same_data:
                return violated(f"replace({mname}(f, ...)*f, {{f: g}}) changed the operator's data: {Nop!r} -> {N2!r}", replay={"operator": mname}, reproduced=True, backend="exec")
        # the substitution is SIMULTANEOUS: the image of an operator key is taken as it is, also when the image contains mapped terminals
        h_ = _ufl.Coefficient(V_)
        for what, key_, img_, extra in (("ExternalOperator key, operator image over a mapped coefficient", ExternalOperator(f, function_space=V_), ExternalOperator(f, f, function_space=V_), {f: h_}),
                                        ("Interpolate key, interpolation image over a mapped coefficient", Interpolate(f, V_), Interpolate(f * f, V_), {f: h_}),
                                        ("ExternalOperator key, expression image over a mapped coefficient", ExternalOperator(f, g, function_space=V_), f * g + 1, {f: g, g: f})):
            mp_ = {key_: img_, **extra}
            got = replace(key_ * g if "expression image" not in what else key_, mp_)
            want = (img_ * replace(g, extra)) if "expression image" not in what else img_
            n += 1
            if not (got == want):
                return violated(f"replace with {what}: got {str(got)[:160]}, the image taken as it is gives {str(want)[:160]} (the image was substituted into a second time)",
                                replay={"case": what, "got": str(got)[:400], "want": str(want)[:400]}, reproduced=True, backend="exec")
        # mapped objects in the DUAL slot of an interpolation (a cofunction, a coargument) are replaced too, together with the expression operand
        from ufl import Coargument, Cofunction
        c1, c2 = Cofunction(V_.dual()), Cofunction(V_.dual())
        vstar = Coargument(V_.dual(), 0)
        for what, mkI, mapping, want_slots in (
                ("Interpolate(f, c1), {c1: c2}", lambda: Interpolate(f, c1), {c1: c2}, lambda: (c2, f)),
                ("Interpolate(f, c1), {c1: c2, f: g}", lambda: Interpolate(f, c1), {c1: c2, f: g}, lambda: (c2, g)),
                ("Interpolate(f*g, v*), {v*: c1}", lambda: Interpolate(f * g, vstar), {vstar: c1}, lambda: (c1, f * g)),
                ("Interpolate(f, c1)*g, {c1: c2, g: f}", lambda: Interpolate(f, c1), {c1: c2, g: f}, lambda: (c2, f))):
            I_ = mkI()
            got = replace(I_, mapping)
            n += 1
            slots = tuple(got.argument_slots()) if hasattr(got, "argument_slots") else None
            if slots is None or len(slots) != 2 or not (slots[0] == want_slots()[0]) or not (slots[1] == want_slots()[1]):
                return violated(f"replace({what}) has the slots {tuple(map(str, slots)) if slots else got}; expected {tuple(map(str, want_slots()))} (a mapped object in the dual slot must be replaced)",
                                replay={"case": what, "got": str(got)[:400]}, reproduced=True, backend="exec")
        return proved("exec(relative to the terminal rule)", vcs=n, sample=f"{n} (operator kind, context, image) cases: an operator key is replaced exactly like a coefficient key, zero images included")
    run.add("replace/base-form-operators-as-keys-and-containers", base_form_operators, kind="values")

    # ---- images that are constant on each cell, under every differential operator, for fields whose value shape differs from the geometric dimension (the
    # node is rebuilt around the image and may fold to a zero: shape and value of the expression are those of the operator applied to the image)
    def constant_images():
        import ufl as _u
        from ufv import elements as _E2
        msh = t["msh"]
        cell_ = msh.ufl_cell()
        n = 0
        for sh in ((), (3,), (3, 2), (2, 3), (2,)):
            fld = _u.Coefficient(_u.FunctionSpace(msh, _E2.LagrangeElement(cell_, 2, sh)))
            images = {"Constant": _u.Constant(msh, sh), "DG0 coefficient": _u.Coefficient(_u.FunctionSpace(msh, _E2.FiniteElement("DG", cell_, 0, sh, _pb.identity_pullback, _sb.L2))),
                      "P1 coefficient": _u.Coefficient(_u.FunctionSpace(msh, _E2.LagrangeElement(cell_, 1, sh))), "2*Constant": 2 * _u.Constant(msh, sh)}
            ops = {"grad": grad, "nabla_grad": _u.nabla_grad, "grad(grad)": lambda x_: grad(grad(x_)), "nabla_grad + T": lambda x_: _u.nabla_grad(x_) + _u.nabla_grad(2 * x_)}
            if sh and sh[-1] == 2:
                ops["div"] = div
            if sh and sh[0] == 2:
                ops["nabla_div"] = _u.nabla_div
            for oname, op in ops.items():
                e = op(fld)
                for iname, img in images.items():
                    try:
                        r = replace(e, {fld: img})
                    except ValueError as ex:
                        if not deliberate(ex):
                            return violated(f"crash instead of a result or a refusal: {crash_text(ex)}", reproduced=True, backend="exec")
                        return violated(f"replace({oname}(u), u -> {iname}) with u of shape {sh} is refused ({ex}) although the image has the shape of u",
                                        replay={"operator": oname, "image": iname, "shape": list(sh)}, reproduced=True, backend="exec")
                    n += 1
                    if r.ufl_shape != e.ufl_shape:
                        return violated(f"replace({oname}(u), u -> {iname}) with u of shape {sh}: the result has shape {r.ufl_shape}, the expression has shape {e.ufl_shape}",
                                        replay={"operator": oname, "image": iname, "shape": list(sh), "result": repr(r)[:300]}, reproduced=True, backend="structural")
                    res = check_same(plain, r, subst_den({fld: img}, e), e.ufl_shape, timeout_ms=tmo, what=f"replace({oname}(u{list(sh)}), u -> {iname})")
                    if res.status != "proved":
                        return res
        return proved("exec+z3", vcs=n, sample=f"{n} (operator, field shape, image) cases: shape kept, value = operator applied to the image (0 for cellwise-constant images)")
    run.add("replace/cellwise-constant-images-under-differential-operators", constant_images, kind="values")

    # ---- base forms: replace distributes over a weighted FormSum; a component that vanishes under the mapping takes ITS OWN weight with it
    def formsum_weights():
        from ufl import Action, Cofunction, FormSum, Matrix, ZeroBaseForm, TestFunction as TF
        from ufv.props.c28 import Model
        from ufv.smt import prove_equal
        M = Model()
        V = M.V
        ff, gg = ufl.Coefficient(V), ufl.Coefficient(V)
        c1, c2, c3 = Cofunction(V.dual()), Cofunction(V.dual()), Cofunction(V.dual())
        Mx = Matrix(V, V)
        vt = TF(V)
        kc = ufl.Constant(M.m)
        sums = {
            "2*Action(M,f) + 3*c1 + 5*c2": [(Action(Mx, ff), 2), (c1, 3), (c2, 5)],
            "3*c1 + 2*Action(M,f) + 5*c2": [(c1, 3), (Action(Mx, ff), 2), (c2, 5)],
            "3*c1 + 5*c2 + 2*Action(M,f)": [(c1, 3), (c2, 5), (Action(Mx, ff), 2)],
            "2*(f*v*dx) + 3*c1 + 7*c3": [(ff * vt * ufl.dx, 2), (c1, 3), (c3, 7)],
            "k*c1 + 2*c2 + 3*Action(M,f)": [(c1, kc), (c2, 2), (Action(Mx, ff), 3)],
        }
        mappings = {"f->0": {ff: C.Zero()}, "f->g": {ff: gg}, "c1->0": {c1: ZeroBaseForm((vt,))}, "c1->c3": {c1: c3}, "c2->0, f->g": {c2: ZeroBaseForm((vt,)), ff: gg},
                    "unmapped": {gg: ff}}
        n = 0
        for sname, comps in sums.items():
            for mname, mp in mappings.items():
                F = FormSum(*comps)
                try:
                    got = replace(F, mp)
                    parts = [(replace(c_, mp), w_) for c_, w_ in comps]
                except ValueError as ex:
                    if not deliberate(ex):
                        return violated(f"crash instead of a result or a refusal: {crash_text(ex)}", reproduced=True, backend="exec")
                    continue
                gone = lambda x_: (x_ == 0) or (isinstance(x_, ufl.Form) and not x_.integrals())     # noqa: E731
                spec_parts = [(M.den(p_), M.weight(w_)) for p_, w_ in parts if not gone(p_)]
                def den_bf(x_):
                    if isinstance(x_, FormSum):       # an empty Form may stay behind as a component: it denotes zero
                        ps = [(den_bf(c_), M.weight(w_)) for c_, w_ in zip(x_.components(), x_.weights()) if not gone(c_)]
                        return M.sum_spec(ps) if ps else None
                    return M.den(x_)
                G = den_bf(got) if not gone(got) else None
                if not spec_parts:
                    if G is not None and any(not N.is_zero_const(v_) for v_ in G[1].values()):
                        return violated(f"replace({sname}, {mname}) is non-zero although every component vanishes", replay={"sum": sname, "mapping": mname, "result": str(got)}, reproduced=True)
                    n += 1
                    continue
                want = M.sum_spec(spec_parts)
                if G is None:
                    G = M.zeros(want[0])
                if [tuple(x) for x in G[0]] != [tuple(x) for x in want[0]]:
                    return violated(f"replace({sname}, {mname}) has argument slots {G[0]}, the sum of the replaced components has {want[0]}",
                                    replay={"sum": sname, "mapping": mname, "result": str(got)}, reproduced=True, backend="structural")
                for ix, val in want[1].items():
                    vr = prove_equal(M.w, G[1][ix], val, tmo)
                    n += 1
                    if vr.status == "refuted":
                        return violated(f"replace({sname}, {mname}) = {str(got)[:200]} is not the weighted sum of the replaced components (entry {ix}): the weights of the "
                                        f"surviving components changed; counter-model {vr.model}",
                                        replay={"sum": sname, "mapping": mname, "result": str(got)[:600], "entry": list(ix), "model": vr.model}, reproduced=True, backend=vr.backend)
                    if vr.status != "proved":
                        return undecided(f"replace({sname}, {mname}) entry {ix}: {vr.backend} {vr.detail}")
        return proved("z3", vcs=n, sample=f"{len(sums)} weighted FormSums x {len(mappings)} mappings: den(replace(sum w_i B_i)) == sum w_i den(replace(B_i)) in the tensor model of C28")
    run.add("replace/weighted-FormSum", formsum_weights, kind="values")

    def canary():
        e = f * g
        return check_same(plain, replace(e, {f: h}), subst_den({f: h}, f * f), (), what="canary wrong image")
    run.add("canary/wrong-image", canary, kind="canary")
