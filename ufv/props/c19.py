"""C19 — DAG traversal and mapping visit every distinct node correctly.

Functions under contract: pre/post_traversal, unique_pre/post_traversal, cutoff_post_traversal,
cutoff_unique_post_traversal, map_expr_dag(s), DAGTraverser.__call__/postorder/reuse_if_untouched,
Transformer.visit, MultiFunction.__init__/__call__ (dispatch).

Contracts
  unique_post_traversal(e, visited=V0 operand-closed): the yielded sequence has no two structurally equal
      elements, contains every sub-expression of e not in V0 (and e itself), and every operand of a yielded node
      is yielded earlier or is in V0.
  unique_pre_traversal: each distinct sub-expression exactly once; every non-root node after one of its users.
  pre/post_traversal: exactly the nodes of the unfolded tree, parents first / operands first.
  cutoff variants: as above on the expression with the subtrees of cutoff-typed nodes removed.
  map_expr_dags(f, es)[i] == rec_f(es[i]) where rec_f(node) = f(node, *map(rec_f, operands)) (cutoff: f(node)).
  dispatch: handler of the nearest ancestor type that defines one (all registered types x handler-table family).
The dispatch obligations are exhaustive over the registry.  The explicit-stack traversals are checked by
exhaustive enumeration of ALL DAGs up to N nodes (every sharing pattern, every pattern of
structurally-equal-but-distinct node objects, every cutoff mask, every operand-closed pre-visited set):
a bounded stand-in, labelled bounded.  The induction lemma (lemmas/Induction.lean) is checked by lean.
"""
from __future__ import annotations

import itertools
import os
import subprocess

from ufl.algorithms.transformer import Transformer
from ufl.core.expr import Expr
from ufl.core.operator import Operator
from ufl.core.ufl_type import ufl_type
from ufl.corealg.dag_traverser import DAGTraverser
from ufl.corealg.map_dag import map_expr_dag, map_expr_dags
from ufl.corealg.multifunction import MultiFunction
from ufl.corealg import traversal as TR

from ufv.core import ROOT, bounded_ok, proved, undecided, violated
from ufv.opq import Anchor
from ufv.props.c20 import HANDLER_SETS, make_alg, oracle

LEVEL = "other"
TECHNIQUE = ("dispatch postcondition checked exhaustively over the type registry x handler-table family against a nearest-ancestor "
             "oracle; traversal/mapping contracts checked on the real code over all DAGs up to N nodes (bounded stand-in); "
             "structural-induction lemma machine-checked by Lean")
LEVEL_TEXT = ("Dispatch: complete over the finite registry. Traversals and map_expr_dags: exhaustive small scope (all DAGs <= N "
              "nodes with all sharing/duplication patterns, cutoff masks, pre-visited sets) - a bounded stand-in, because a "
              "loop-invariant proof of the explicit-stack DFS needs heap/reachability reasoning the VC generator does not have.")
LEVEL_NOTE = ("Bounded: N=5 (quick) / 6 (thorough) nodes, arity <= 2 (<= 3 up to 4 nodes). Trusted: the recursive reference "
              "implementations in ufv/props/c19.py; Lean 4 for the induction lemma.")
TRUSTED = ["recursive reference traversals (oracle) in ufv/props/c19.py", "Lean 4.33 kernel (lemmas/Induction.lean)", "CPython"]
ASSUMPTIONS = ["traversal/mapping obligations are bounded: DAGs with at most N nodes", "termination not proved"]
EXPLANATION = ("Exhaustive registry-wide dispatch check + exhaustive small-scope check of the traversal and mapping contracts + "
               "Lean-checked induction lemma connecting per-handler contracts to whole-DAG statements.")


@ufl_type(num_ops=1)
class N1(Operator):
    __slots__ = ()
    ufl_shape = ()
    ufl_free_indices = ()
    ufl_index_dimensions = ()

    def __init__(self, a):
        Operator.__init__(self, (a,))


@ufl_type(num_ops=2)
class N2(Operator):
    __slots__ = ()
    ufl_shape = ()
    ufl_free_indices = ()
    ufl_index_dimensions = ()

    def __init__(self, a, b):
        Operator.__init__(self, (a, b))


@ufl_type(num_ops=3)
class N3(Operator):
    __slots__ = ()
    ufl_shape = ()
    ufl_free_indices = ()
    ufl_index_dimensions = ()

    def __init__(self, a, b, c):
        Operator.__init__(self, (a, b, c))


CLS = {1: N1, 2: N2, 3: N3}


def dag_specs(n, max_arity):
    """All DAG shapes with exactly n nodes, node k has operands among nodes < k, root = node n-1, all reachable."""
    def rec(k, spec):
        if k == n:
            # reachability from root
            seen = {n - 1}
            todo = [n - 1]
            while todo:
                x = todo.pop()
                for y in spec[x]:
                    if y not in seen:
                        seen.add(y)
                        todo.append(y)
            if len(seen) == n:
                yield list(spec)
            return
        choices = [()]
        if k > 0:
            for a in range(1, max_arity + 1):
                choices += list(itertools.product(range(k), repeat=a))
        for ch in choices:
            spec.append(ch)
            yield from rec(k + 1, spec)
            spec.pop()
    yield from rec(0, [])


def build_dag(spec, dup_mask, tnames):
    """Instantiate a spec.  dup_mask: set of (k, j) operand slots that get a fresh structurally-equal copy instead of the
    shared object.  tnames: names for terminals (equal names => structurally equal terminals)."""
    objs = {}
    ti = [0]

    def make(k, fresh=False):
        if k in objs and not fresh:
            return objs[k]
        ops = spec[k]
        if not ops:
            o = Anchor(tnames[k])
        else:
            o = CLS[len(ops)](*[make(j, fresh=((k, idx) in dup_mask)) for idx, j in enumerate(ops)])
        if not fresh:
            objs[k] = o
        return o
    return make(len(spec) - 1)


def subexprs(e):
    out = []

    def rec(x):
        if not any(x == y for y in out):
            for o in x.ufl_operands:
                rec(o)
            if not any(x == y for y in out):
                out.append(x)
    rec(e)
    return out


def tree_nodes_pre(e):
    yield e
    for o in e.ufl_operands:
        yield from tree_nodes_pre(o)


def key(x):
    if isinstance(x, Anchor):
        return ("t", x._name)
    return (type(x).__name__,) + tuple(key(o) for o in x.ufl_operands)


class Namer(MultiFunction):
    def __init__(self):
        MultiFunction.__init__(self)
        self.calls = 0

    def expr(self, o, *ops):
        self.calls += 1
        return ("op", type(o).__name__, ops)

    def anchor(self, o):
        self.calls += 1
        return ("t", o._name)


class NamerCut(Namer):
    def n1(self, o):          # cutoff handler (one argument)
        self.calls += 1
        return ("cut", key(o))


def rec_apply(e, cut=False):
    if isinstance(e, Anchor):
        return ("t", e._name)
    if cut and isinstance(e, N1):
        return ("cut", key(e))
    return ("op", type(e).__name__, tuple(rec_apply(o, cut) for o in e.ufl_operands))


def check_dag(e):
    """All traversal / mapping contracts on one DAG. Returns error string or None."""
    subs = subexprs(e)
    # unique post
    seq = list(TR.unique_post_traversal(e))
    for i, x in enumerate(seq):
        for y in seq[:i]:
            if x == y:
                return f"unique_post_traversal yielded {key(x)} twice"
        for o in x.ufl_operands:
            if not any(o == y for y in seq[:i]):
                return f"unique_post_traversal: operand {key(o)} not before user {key(x)}"
    if len(seq) != len(subs) or any(not any(s == x for x in seq) for s in subs):
        return f"unique_post_traversal visited {len(seq)} nodes, {len(subs)} distinct sub-expressions exist"
    if not (seq and seq[-1] == e):
        return "unique_post_traversal does not end with the root"
    # unique pre
    seq = list(TR.unique_pre_traversal(e))
    if len(seq) != len(subs) or any(not any(s == x for x in seq) for s in subs):
        return f"unique_pre_traversal visited {len(seq)} nodes, {len(subs)} distinct"
    for i, x in enumerate(seq):
        if any(x == y for y in seq[:i]):
            return "unique_pre_traversal yielded a node twice"
        if i > 0 and not any(any(x == o for o in y.ufl_operands) for y in seq[:i]):
            return f"unique_pre_traversal: {key(x)} before any of its users"
    if seq[0] != e:
        return "unique_pre_traversal does not start with the root"
    # tree traversals
    tn = sorted(map(key, tree_nodes_pre(e)))
    pre = list(TR.pre_traversal(e))
    post = list(TR.post_traversal(e))
    if sorted(map(key, pre)) != tn or sorted(map(key, post)) != tn:
        return "pre/post_traversal do not enumerate the nodes of the unfolded tree"
    if pre[0] is not e or post[-1] is not e:
        return "pre/post_traversal root position"
    # post: each node's operands (as objects) appear before it: check by stack discipline
    done = []
    for x in post:
        need = list(x.ufl_operands)
        for o in need:
            if not any(o is d for d in done):
                return "post_traversal: operand after user"
        done.append(x)
    # with pre-populated operand-closed visited sets
    for k in range(len(subs)):
        V0 = set(subs[:k])          # subs is in post-order => every prefix is operand-closed
        seq = list(TR.unique_post_traversal(e, set(V0)))
        want = [s for s in subs if s not in V0]
        if e in V0:
            want = want + [e] if not any(e == w for w in want) else want
        if len(seq) != len(want) or any(not any(s == x for x in seq) for s in want):
            return f"unique_post_traversal with pre-visited set of size {k}: visited {len(seq)}, expected {len(want)}"
        for i, x in enumerate(seq):
            for o in x.ufl_operands:
                if not (o in V0 or any(o == y for y in seq[:i])):
                    return "unique_post_traversal(visited): operand neither pre-visited nor earlier"
    # cutoff variants: all masks over our node types
    ncodes = Expr._ufl_num_typecodes_
    for mask in itertools.product([False, True], repeat=3):
        cut = [False] * ncodes
        for m, cls in zip(mask, (N1, N2, Anchor)):
            cut[cls._ufl_typecode_] = m

        def pruned_subs(x, acc):
            if any(x == y for y in acc):
                return
            if not cut[x._ufl_typecode_]:
                for o in x.ufl_operands:
                    pruned_subs(o, acc)
            if not any(x == y for y in acc):
                acc.append(x)
        want = []
        pruned_subs(e, want)
        seq = list(TR.cutoff_unique_post_traversal(e, cut))
        if len(seq) != len(want) or any(not any(s == x for x in seq) for s in want):
            return f"cutoff_unique_post_traversal mask={mask}: visited {len(seq)}, expected {len(want)}"
        for i, x in enumerate(seq):
            if any(x == y for y in seq[:i]):
                return "cutoff_unique_post_traversal yielded a node twice"
            if not cut[x._ufl_typecode_]:
                for o in x.ufl_operands:
                    if not any(o == y for y in seq[:i]):
                        return "cutoff_unique_post_traversal: operand not before user"

        def pruned_tree(x):
            if not cut[x._ufl_typecode_]:
                for o in x.ufl_operands:
                    yield from pruned_tree(o)
            yield x
        got = list(TR.cutoff_post_traversal(e, cut))
        if sorted(key(x) for x in got) != sorted(key(x) for x in pruned_tree(e)):
            return f"cutoff_post_traversal mask={mask} differs (as a multiset) from the recursive definition"
        done = []
        for x in got:
            if not cut[x._ufl_typecode_]:
                for o in x.ufl_operands:
                    if not any(o is d for d in done):
                        return f"cutoff_post_traversal mask={mask}: operand after user"
            done.append(x)
    # mapping == recursive application
    for compress in (True, False):
        f = Namer()
        if map_expr_dag(f, e, compress=compress) != rec_apply(e):
            return "map_expr_dag(MultiFunction) != recursive application"
        if f.calls != len(subs):
            return f"map_expr_dag called handlers {f.calls} times for {len(subs)} distinct nodes"
        g = NamerCut()
        if map_expr_dag(g, e, compress=compress) != rec_apply(e, cut=True):
            return "map_expr_dag with a cutoff handler != recursive application with cutoff"
        if map_expr_dag(lambda o, *ops: ("op", type(o).__name__, ops) if ops else ("t", o._name), e, compress=compress) != rec_apply(e):
            return "map_expr_dag(plain function) != recursive application"
    a, b = map_expr_dags(Namer(), [e, subs[0]])
    if a != rec_apply(e) or b != rec_apply(subs[0]):
        return "map_expr_dags on two roots"
    return None


class DT(DAGTraverser):
    from functools import singledispatchmethod

    @singledispatchmethod
    def process(self, o):
        return super().process(o)

    @process.register(Anchor)
    def _(self, o):
        return ("t", o._name)

    @process.register(Operator)
    @DAGTraverser.postorder
    def _(self, o, *ops):
        return ("op", type(o).__name__, tuple(ops))


class TRV(Transformer):
    def expr(self, o, *ops):
        return ("op", type(o).__name__, tuple(ops))

    def anchor(self, o):
        return ("t", o._name)

    def terminal(self, o):
        return ("t", o._name)


def build(run):
    thorough = run.tier == "thorough"
    for f in (TR.pre_traversal, TR.post_traversal, TR.cutoff_post_traversal, TR.unique_pre_traversal, TR.unique_post_traversal,
              TR.cutoff_unique_post_traversal, TR.traverse_unique_terminals, map_expr_dag, map_expr_dags, DAGTraverser.__call__,
              DAGTraverser.postorder, DAGTraverser.reuse_if_untouched, Transformer.visit, MultiFunction.__init__, MultiFunction.__call__,
              MultiFunction.reuse_if_untouched, Transformer.__init__):
        run.function(f)

    # ---- dispatch: all registered types x handler table family x framework
    for fw in ("mf", "tr"):
        for hs in HANDLER_SETS + [("expr", "operator", "compound_tensor_operator", "inner"), ("expr", "terminal", "constant_value", "zero"),
                                  ("expr", "derivative", "compound_derivative", "grad"), ("expr", "condition", "binary_condition", "lt")]:
            if fw == "tr" and "ufl_type" in hs:
                continue

            def thunk(fw=fw, hs=hs):
                cls = make_alg(fw, hs)
                inst = cls()
                n = 0
                for T in Expr._ufl_all_classes_:
                    want = oracle(cls, T)
                    if want is None:
                        continue
                    h = inst._handlers[T._ufl_typecode_]
                    h = h[0] if isinstance(h, tuple) else h
                    n += 1
                    if getattr(h, "__func__", h) is not getattr(getattr(cls, want), "__func__", getattr(cls, want)):
                        return violated(f"{fw}: type {T.__name__} dispatched to {getattr(h, '__name__', h)}, nearest ancestor defining a "
                                        f"handler gives {want!r} (handler table {hs})",
                                        replay={"framework": fw, "handlers": list(hs), "type": T.__name__}, reproduced=True)
                return proved("exec+oracle(all registered types)", vcs=n, sample=f"{fw} table {hs}: {n} types agree with nearest-ancestor rule")
            run.add(f"dispatch/{fw}/handlers[{','.join(hs)}]", thunk, kind="proof")

    # ---- dispatch for every registered type under EVERY one- and two-element subset of its ancestors' handlers (plus the catch-all 'expr'):
    # covers types with several UFL base classes, whose nearest ancestor may be reached through a base that is not the first one
    def all_pairs(fw):
        def thunk():
            names_of = {}
            for T in Expr._ufl_all_classes_:
                if not isinstance(T, type):
                    continue
                hn = []
                for c in T.mro():
                    nm_ = c.__dict__.get("_ufl_handler_name_")
                    if nm_ and nm_ not in hn and nm_ not in ("expr", "ufl_type"):
                        hn.append(nm_)
                names_of[T] = hn
            tables = set()
            for T, hn in names_of.items():
                for a_ in hn:
                    tables.add(("expr", a_))
                for a_, b_ in itertools.combinations(hn, 2):
                    tables.add(("expr", a_, b_))
            n = 0
            for hs in sorted(tables):
                cls = make_alg(fw, hs)
                inst = cls()
                for T in names_of:
                    want = oracle(cls, T)
                    if want is None:
                        continue
                    h = inst._handlers[T._ufl_typecode_]
                    h = h[0] if isinstance(h, tuple) else h
                    n += 1
                    if getattr(h, "__func__", h) is not getattr(getattr(cls, want), "__func__", getattr(cls, want)):
                        return violated(f"{fw}: type {T.__name__} (bases {[b.__name__ for b in T.__bases__]}) dispatched to {getattr(h, '__name__', h)} but the nearest ancestor "
                                        f"in its MRO defining a handler gives {want!r} (handler table {hs})",
                                        replay={"framework": fw, "handlers": list(hs), "type": T.__name__, "mro": [c.__name__ for c in T.mro()]}, reproduced=True)
            return proved("exec+oracle(all registered types x all <=2-subsets of ancestor handlers)", vcs=n, sample=f"{fw}: {len(tables)} handler tables x {len(names_of)} types")
        return thunk
    for fw in ("mf", "tr"):
        run.add(f"dispatch/{fw}/all-ancestor-handler-pairs", all_pairs(fw), kind="proof")

    def dagt_dispatch():
        from functools import singledispatchmethod
        import ufl.classes as C

        class D(DAGTraverser):
            @singledispatchmethod
            def process(self, o):
                return "expr"

            @process.register(C.Terminal)
            def _(self, o):
                return "terminal"

            @process.register(C.Operator)
            def _(self, o):
                return "operator"

            @process.register(C.ConstantValue)
            def _(self, o):
                return "constant_value"

            @process.register(C.Sum)
            def _(self, o):
                return "sum"

            @process.register(C.CompoundTensorOperator)
            def _(self, o):
                return "compound_tensor_operator"
        reg = {C.Terminal: "terminal", C.Operator: "operator", C.ConstantValue: "constant_value", C.Sum: "sum",
               C.CompoundTensorOperator: "compound_tensor_operator"}
        d = D()
        n = 0
        for T in Expr._ufl_all_classes_:
            if not (isinstance(T, type) and issubclass(T, Expr)):
                continue
            want = "expr"
            for c in T.mro():
                if c in reg:
                    want = reg[c]
                    break
            got = D.__dict__['process'].dispatcher.dispatch(T)(d, None)
            n += 1
            if got != want:
                return violated(f"DAGTraverser: type {T.__name__} dispatched to {got}, nearest registered ancestor is {want}", reproduced=True)
        return proved("exec+oracle(all registered types)", vcs=n, sample=f"singledispatch process: {n} types")
    run.add("dispatch/dagtraverser", dagt_dispatch, kind="proof")

    # ---- contract of DAGTraverser.postorder_only_children(indices): the handler receives the processed operands
    # [self(o.ufl_operands[i]) for i in indices], in the order (and multiplicity) that `indices` gives -- for every index list
    def only_children():
        from functools import singledispatchmethod
        n = 0
        for arity in (1, 2, 3):
            for ln in range(0, 4):
                for idx in itertools.product(range(-arity, arity), repeat=ln):
                    idx = list(idx)

                    class D(DAGTraverser):
                        @singledispatchmethod
                        def process(self, o):
                            return super().process(o)

                        @process.register(Anchor)
                        def _(self, o):
                            return ("t", o._name)

                        @process.register(Operator)
                        @DAGTraverser.postorder
                        def _(self, o, *ops):
                            return ("op", type(o).__name__, tuple(ops))

                        @process.register(CLS[arity])
                        @DAGTraverser.postorder_only_children(idx)
                        def _(self, o, *ops):
                            return ("sel", tuple(ops))
                    # operands are DAGs sharing a sub-DAG, built from the other node classes (so only the root has the special handler)
                    if arity == 1:
                        shared = N2(Anchor("p"), Anchor("q"))
                        kids = [N3(shared, Anchor("r"), shared)]
                    elif arity == 2:
                        shared = N3(Anchor("p"), Anchor("q"), Anchor("r"))
                        kids = [N1(shared), shared]
                    else:
                        shared = N2(Anchor("p"), Anchor("q"))
                        kids = [shared, Anchor("r"), N1(shared)]
                    got = D()(CLS[arity](*kids))
                    want = ("sel", tuple(rec_apply(kids[i]) for i in idx))
                    n += 1
                    if got != want:
                        return violated(f"postorder_only_children({idx}) on a node with {arity} operands passed {got[1] if len(got) > 1 else got} to the handler; "
                                        f"the processed operands in the order of indices are {want[1]}",
                                        replay={"indices": idx, "arity": arity, "got": repr(got), "want": repr(want)}, reproduced=True, backend="exec")
        return proved("exec+recursive-oracle", vcs=n, sample=f"{n} (arity, index list) pairs: every index list of length <= 3 over [-arity, arity), incl. "
                      "descending, repeated and negative entries")
    run.function(DAGTraverser.postorder_only_children)
    run.add("dagtraverser/postorder_only_children(all index lists)", only_children, kind="values")

    # ---- contract of DAGTraverser.__call__ with keyword arguments: the memo is keyed by the node AND the keyword arguments (names and
    # values); a handler that visits a shared operand under different keyword names / values gets the result for those very arguments
    def kwargs_memo():
        from functools import singledispatchmethod

        class D(DAGTraverser):
            @singledispatchmethod
            def process(self, o, scale=1, shift=0):
                return super().process(o)

            @process.register(Anchor)
            def _(self, o, scale=1, shift=0):
                return ("t", o._name, scale, shift)

            @process.register(N1)
            @DAGTraverser.postorder
            def _(self, o, a, scale=1, shift=0):
                return ("n1", a, scale, shift)

            @process.register(N2)
            def _(self, o, scale=1, shift=0):
                a, b = o.ufl_operands
                return ("n2", self(a, scale=scale + 1), self(b, shift=scale + 1), scale, shift)     # same value, different keyword

            @process.register(N3)
            def _(self, o, scale=1, shift=0):
                a, b, c = o.ufl_operands
                return ("n3", self(a, scale=2, shift=3), self(b, shift=2, scale=3), self(c, shift=3, scale=2), scale, shift)

        def rec(o, scale=1, shift=0):
            if isinstance(o, Anchor):
                return ("t", o._name, scale, shift)
            if isinstance(o, N1):
                return ("n1", rec(o.ufl_operands[0], scale=scale, shift=shift), scale, shift)
            if isinstance(o, N2):
                a, b = o.ufl_operands
                return ("n2", rec(a, scale=scale + 1), rec(b, shift=scale + 1), scale, shift)
            a, b, c = o.ufl_operands
            return ("n3", rec(a, scale=2, shift=3), rec(b, shift=2, scale=3), rec(c, shift=3, scale=2), scale, shift)
        x, y = Anchor("x"), Anchor("y")
        sh = N1(x)
        dags = [N2(x, x), N2(sh, sh), N2(N1(x), N1(x)), N3(x, x, x), N3(sh, sh, sh), N2(N2(x, y), N2(x, y)), N1(N2(sh, N3(sh, x, sh))),
                N2(N3(x, y, x), N2(y, x))]
        n = 0
        for e in dags:
            for kw in ({}, {"scale": 2}, {"shift": 2}, {"scale": 1, "shift": 1}, {"shift": 1, "scale": 1}):
                for compress in (True, False):
                    got = D(compress=compress)(e, **kw)
                    want = rec(e, **kw)
                    n += 1
                    if got != want:
                        return violated(f"DAGTraverser(compress={compress}) on {rec_apply(e)} with keyword arguments {kw} returns {got}; applying the same handlers "
                                        f"recursively gives {want}", replay={"expr": repr(rec_apply(e)), "kwargs": kw, "got": repr(got), "want": repr(want)},
                                        reproduced=True, backend="exec")
        return proved("exec+recursive-oracle", vcs=n, sample=f"{n} (DAG, keyword arguments, compress) cases with operands shared under different keyword names / values")
    run.add("dagtraverser/keyword-arguments-in-the-memo-key", kwargs_memo, kind="values")

    # ---- handlers that keep per-object state or use the library's memoisation decorator: several algorithm objects (of one class and of different
    # classes) with different state, applied one after the other to equal nodes; each must give what ITS handlers give applied recursively to the tree
    def stateful_instances():
        from ufl.corealg.multifunction import memoized_handler

        class Scale(MultiFunction):
            def __init__(self, k):
                MultiFunction.__init__(self)
                self.k = k

            def expr(self, o, *ops):
                return ("op", type(o).__name__, ops)

            @memoized_handler
            def anchor(self, o):
                return ("t", o._name, self.k)

            def n1(self, o, a):
                return ("n1", a, self.k)

        class Shift(MultiFunction):
            def __init__(self, k):
                MultiFunction.__init__(self)
                self.k = k

            def expr(self, o, *ops):
                return ("op", type(o).__name__, ops)

            @memoized_handler
            def anchor(self, o):
                return ("shifted", o._name, -self.k)

        def rec(alg, o):
            if isinstance(o, Anchor):
                return ("t", o._name, alg.k) if isinstance(alg, Scale) else ("shifted", o._name, -alg.k)
            ops = tuple(rec(alg, x_) for x_ in o.ufl_operands)
            if isinstance(o, N1) and isinstance(alg, Scale):
                return ("n1", ops[0], alg.k)
            return ("op", type(o).__name__, ops)
        x, y = Anchor("x"), Anchor("y")
        sh = N1(x)
        dags = [x, N2(x, y), N2(sh, sh), N1(N2(sh, N3(sh, x, y))), N2(N1(Anchor("x")), N1(x))]
        n = 0
        algs = [Scale(2), Scale(3), Shift(7), Scale(2), Shift(1), Scale(5)]
        for rounds in range(2):         # second round: every object has state from its first use
            for alg in algs:
                for e in dags:
                    for route, fn in (("map_expr_dag", lambda a_, e_: map_expr_dag(a_, e_)), ("map_expr_dag(compress=False)", lambda a_, e_: map_expr_dag(a_, e_, compress=False)),
                                      ("direct call on a terminal", lambda a_, e_: a_(e_) if not e_.ufl_operands else map_expr_dag(a_, e_))):
                        got, want = fn(alg, e), rec(alg, e)
                        n += 1
                        if got != want:
                            return violated(f"{type(alg).__name__}(k={alg.k}) via {route} on {key(e)} returns {got}; its own handlers applied recursively give {want} "
                                            f"(other algorithm objects were used before it)", replay={"algorithm": f"{type(alg).__name__}({alg.k})", "route": route, "expr": repr(key(e)),
                                                                                                      "got": repr(got), "want": repr(want)}, reproduced=True, backend="exec")
        return proved("exec+recursive-oracle", vcs=n, sample=f"{n} (algorithm object, DAG, route) cases: memoised / stateful handlers of one object never see another object's results")
    run.add("multifunction/stateful-and-memoized-handlers-are-per-object", stateful_instances, kind="values")

    # ---- contract of the unique traversals with a caller-supplied `visited` set (series of traversals sharing one set): a traversal yields
    # exactly the structurally distinct sub-expressions that are not in the set yet (and the root), each once, and leaves them in the set
    def shared_visited():
        x, y, z = Anchor("x"), Anchor("y"), Anchor("z")
        s1 = N2(x, y)
        e1 = N2(s1, N1(s1))
        e2 = N3(z, s1, N1(N2(x, y)))            # shares s1 with e1, and contains a structurally equal copy of it
        e3 = N1(e1)
        n = 0
        for tname, trav in (("unique_pre_traversal", TR.unique_pre_traversal), ("unique_post_traversal", TR.unique_post_traversal)):
            for init in ("empty", "unrelated", "part"):
                vis = set() if init == "empty" else ({Anchor("q")} if init == "unrelated" else {x, y, s1})      # downward closed
                before = set(vis)
                seen_total = []
                for e in (e1, e2, e3, e1):
                    got = list(trav(e, vis))
                    n += 1
                    want = ({k_ for k_ in subexprs(e)} - set(seen_total) - before) | {e}      # the root itself is always yielded
                    if len(got) != len(set(got)) or set(got) != want:
                        return violated(f"{tname} with a caller-supplied visited set ({init}): traversal #{len(seen_total) and 2 or 1} of a series yields "
                                        f"{sorted(map(str, map(rec_apply, got)))[:6]}..., expected the {len(want)} sub-expressions not visited before",
                                        replay={"traversal": tname, "initial": init, "got": [repr(rec_apply(g)) for g in got], "want": [repr(rec_apply(g)) for g in want]},
                                        reproduced=True, backend="exec")
                    if not set(got) <= vis:
                        return violated(f"{tname} with a caller-supplied visited set ({init}) does not record the nodes it yielded in that set "
                                        f"(set has {len(vis)} entries after yielding {len(got)})", replay={"traversal": tname, "initial": init}, reproduced=True, backend="exec")
                    seen_total += got
        return proved("exec+oracle", vcs=n, sample=f"{n} traversals in series sharing a visited set (initially empty / unrelated / partly filled)")
    run.add("traversal/caller-supplied-visited-set", shared_visited, kind="values")

    # ---- the CUTOFF post-order traversal (what map_expr_dags runs for handlers that do not take their operands) over a list of expressions sharing one visited
    # set: every distinct node is yielded once over the whole series, also when an expression of the list is itself a node of a cutoff type
    def cutoff_series():
        x, y, z = Anchor("x"), Anchor("y"), Anchor("z")
        n1 = N1(N2(x, y))
        cut = [False] * Expr._ufl_num_typecodes_
        for T_ in (Anchor, N1):
            cut[T_._ufl_typecode_] = True

        def oracle(series):
            seen, out = set(), []

            def rec(e):
                if e in seen:
                    return
                if not cut[e._ufl_typecode_]:
                    for o_ in e.ufl_operands:
                        rec(o_)
                seen.add(e)
                out.append(e)
            for e in series:
                rec(e)
            return out
        n = 0
        for series in ([x, N2(x, y)], [N2(x, y), x, y], [n1, N2(n1, z)], [N2(n1, z), n1], [x, x, N3(x, y, x)], [N1(x), N2(N1(Anchor("x")), x), N1(x)], [z, N2(N2(x, z), N1(z)), N2(x, z)]):
            vis = set()
            got = []
            n += 1
            for e in series:
                before_ = set(vis)
                part = list(TR.cutoff_unique_post_traversal(e, cut, vis))
                got += part
                want_part = [w_ for w_ in oracle([e]) if w_ not in before_ or w_ == e]        # the root of a traversal is always yielded (documented behaviour)
                if len(part) != len(set(part)) or set(part) != set(want_part):
                    return violated(f"cutoff_unique_post_traversal of {key(e)} in the series {[key(e_) for e_ in series]} (shared visited set) yields {[key(g_) for g_ in part]}; "
                                    f"expected the nodes not visited before and the root: {[key(w_) for w_ in want_part]}",
                                    replay={"series": [repr(key(e_)) for e_ in series], "expr": repr(key(e)), "got": [repr(key(g_)) for g_ in part]}, reproduced=True, backend="exec")
                if not set(part) <= vis:
                    return violated(f"cutoff_unique_post_traversal of {key(e)} does not record the nodes it yielded in the caller's visited set", replay={"expr": repr(key(e))},
                                    reproduced=True, backend="exec")
            # map_expr_dags over the same list calls each handler once per distinct node
            calls = []

            class Rec(MultiFunction):
                def expr(self, o, *ops):
                    calls.append(o)
                    return ("op", type(o).__name__, ops)

                def anchor(self, o):
                    calls.append(o)
                    return ("t", o._name)

                def n1(self, o):
                    calls.append(o)
                    return ("cut", key(o))
            res = map_expr_dags(Rec(), list(series))
            n += 1
            if len(calls) != len(set(calls)) or res != [rec_apply(e_, cut=True) for e_ in series]:
                return violated(f"map_expr_dags over {[key(e_) for e_ in series]}: {len(calls)} handler calls for {len(set(calls))} distinct nodes, or a result differs from recursive application",
                                replay={"series": [repr(key(e_)) for e_ in series]}, reproduced=True, backend="exec")
        return proved("exec+oracle", vcs=n, sample=f"{n} series of expressions (cutoff-type roots first / last / repeated) sharing a visited set")
    run.add("traversal/cutoff-traversal-over-a-series-of-expressions", cutoff_series, kind="values")

    # ---- bounded: all DAGs up to N nodes
    N = 6 if thorough else 5

    def dags(n, max_arity, part, nparts):
        def thunk():
            cnt = 0
            for idx, spec in enumerate(dag_specs(n, max_arity)):
                if idx % nparts != part:
                    continue
                terms = [k for k in range(n) if not spec[k]]
                # terminal naming patterns: all distinct / all equal (structurally equal distinct terminals)
                namings = [{k: f"t{k}" for k in terms}]
                if len(terms) > 1:
                    namings.append({k: "t" for k in terms})
                slots = [(k, j) for k in range(n) for j in range(len(spec[k])) if spec[spec[k][j]]]
                masks = [frozenset()]
                if slots:
                    masks.append(frozenset(slots))                 # every operator operand rebuilt as an equal copy
                    masks.append(frozenset(slots[::2]))
                for names in namings:
                    tn = {k: names.get(k, "") for k in range(n)}
                    for mask in masks:
                        e = build_dag(spec, mask, tn)
                        cnt += 1
                        err = check_dag(e)
                        if err:
                            return violated(f"{err} on DAG {key(e)} (spec {spec}, duplicated slots {sorted(mask)})",
                                            replay={"spec": [list(s) for s in spec], "dup_slots": sorted(mask), "terminal_names": tn,
                                                    "expr": str(key(e))}, reproduced=True, backend="exhaustive-small-scope")
                        # DAGTraverser / Transformer agree with recursion
                        if DT()(e) != rec_apply(e) or TRV().visit(e) != rec_apply(e):
                            return violated(f"DAGTraverser/Transformer result differs from recursive application on {key(e)}",
                                            replay={"spec": [list(s) for s in spec]}, reproduced=True)
            return bounded_ok(cnt, f"all DAG shapes with exactly {n} nodes, arity <= {max_arity}, part {part}/{nparts}; sharing, equal-copy and "
                              f"equal-terminal patterns; all cutoff masks; all operand-closed pre-visited sets",
                              sample=f"n={n}: {cnt} DAG instances, each: 6 traversals x masks x visited sets + 7 mapping checks")
        return thunk
    for n in range(1, N + 1):
        ma = 3 if n <= 4 else 2
        nparts = 1 if n <= 4 else (8 if n == 5 else 32)
        for part in range(nparts):
            run.add(f"bounded/all-dags/n={n}/part{part}", dags(n, ma, part, nparts), kind="bounded", budget=600 if thorough else 150)

    # ---- Lean: structural induction lemma
    def lean():
        p = os.path.join(ROOT, "lemmas", "Induction.lean")
        try:
            r = subprocess.run(["lean", p], capture_output=True, text=True, timeout=120)
        except Exception as ex:  # noqa: BLE001
            return undecided(f"lean not runnable: {ex}")
        if r.returncode == 0 and "error" not in (r.stdout + r.stderr):
            return proved("lean4", sample="theorem Tree.rw_sound: local soundness of a rule table => soundness of bottom-up rewriting")
        return undecided(f"lean rejected the lemma file: {(r.stdout + r.stderr)[:400]}")
    run.add("lemma/structural-induction(lean)", lean, kind="proof")

    def canary():
        e = N2(Anchor("x"), Anchor("x"))
        seq = list(TR.post_traversal(e))
        if len(seq) != 2:      # wrong expectation: non-unique traversal yields 3
            return violated("canary refuted", reproduced=True)
        return proved("canary")
    run.add("canary/non-unique-count", canary, kind="canary")
