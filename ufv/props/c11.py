"""C11 — forms with different compiled meaning never share a signature; equal forms share one.

Functions under contract: compute_form_signature, compute_expression_hashdata, compute_terminal_hashdata, compute_multiindex_hashdata,
every _ufl_signature_data_, canonicalize_metadata, Form._compute_renumbering, the Integral accessors read by the signature,
every Operator._ufl_expr_reconstruct_ (to find node data that is not an operand).

Contract, decomposed (a signature is sha512 of a nested encoding; sha512 collisions are excluded by assumption):
 (a) terminals: signature data is injective in the compile-relevant constructor fields modulo renumbering  -> one-change pairs;
 (b) operators: a node is a function of (type, operands) -- its reconstruct passes only operands to the constructor (AST obligation);
     where reconstruct passes further data taken from self (BaseFormOperator: function space, derivatives, argument slots) each such datum
     must reach the hash data -> one-change pairs;
 (c) the node encoding str([typecode, child digests...]) / str([terminal data]) is uniquely decodable (literal_eval inverse; terminal data is
     never an int);
 (d) canonicalize_metadata is injective up to its documented coercions (list==tuple, dict==sorted item tuple, scalars == their str()):
     AST branch table against a contract table of the external encoders (str on int/float/str/None injective, str on numpy.ndarray NOT),
     plus canon(x)==canon(y) => norm(x)==norm(y) against an independent spec `norm` on an enumerated family of metadata values (bounded);
 (e) the integral tuple hashed by compute_form_signature contains integrand, domain, integral type, extra-domain map, subdomain id and
     metadata (AST flow obligation) -> one-change pairs per field;
 (f) equal forms => equal signatures (corpus built twice).
"""
from __future__ import annotations

import ast
import hashlib
import inspect
import itertools
import textwrap
import warnings

import numpy as np

import ufl
import ufl.classes as C
import ufl.algorithms.signature as SIG
from ufl.utils.sorting import canonicalize_metadata

from ufv import sigforms as S
from ufv.core import bounded_ok, proved, undecided, violated
from ufv.nodes import all_concrete_operator_classes

LEVEL = "other"
TECHNIQUE = ("injectivity contract on the real signature code, decomposed: AST obligations (reconstruct passes only operands; integral tuple "
             "contains every compile-relevant accessor; canonicalize_metadata branch table against contracts of external encoders), "
             "encoding/decoding inverse on every node datum, and one-change form pairs executed through Form.signature(); "
             "metadata injectivity against an independent spec on an enumerated family (bounded)")
LEVEL_TEXT = ("Structural obligations are decided on the AST of the real functions; injectivity per field is decided by one-change pairs "
              "(two values per field) through the real Form.signature(); the metadata family is enumerated (bounded).")
LEVEL_NOTE = "Trusted: sha512 collision freedom; contract table for str() on builtins/numpy; CPython literal syntax being injective."
TRUSTED = ["sha512 collision-free (assumed)", "contract table of external encoders str()/repr()", "CPython: ast.literal_eval(str(x)) == x for nested lists/tuples of int/str/bytes"]
ASSUMPTIONS = ["each field perturbed with two values", "documented coercions of canonicalize_metadata (list==tuple, dict==sorted items, scalar==str(scalar)) are not counted as collisions",
               "metadata family: nested values up to depth 2 over a fixed atom set (bounded)"]
EXPLANATION = ("Every compile-relevant datum of a form flows injectively into the hashed encoding; two forms differing in one such datum "
               "have different signatures, and identically built forms have the same signature.")


def _sig(form):
    with warnings.catch_warnings():
        warnings.simplefilter("ignore")
        return form.signature()


def norm(x):
    """Independent spec of what metadata MEANS up to the documented coercions."""
    if x is None:
        return ()
    if isinstance(x, dict):
        return tuple((k, norm_v(x[k])) for k in sorted(x))
    if isinstance(x, (list, tuple)):
        return tuple(norm_v(v) for v in x)
    raise TypeError(type(x))


def norm_v(v):
    if isinstance(v, (dict, list, tuple)):
        return norm(v)
    if isinstance(v, np.ndarray):
        return ("ndarray", v.shape, tuple(repr(t) for t in v.ravel().tolist()))
    return str(v)


def build(run):
    for f in (SIG.compute_form_signature, SIG.compute_expression_hashdata, SIG.compute_terminal_hashdata, SIG.compute_multiindex_hashdata,
              canonicalize_metadata, ufl.Form._compute_renumbering, ufl.Form.signature, C.Operator._ufl_expr_reconstruct_,
              C.BaseFormOperator._ufl_expr_reconstruct_, C.ExternalOperator._ufl_expr_reconstruct_, C.Interpolate._ufl_expr_reconstruct_,
              ufl.Mesh._ufl_signature_data_, ufl.functionspace.BaseFunctionSpace._ufl_signature_data_, C.Coefficient._ufl_signature_data_,
              C.Constant._ufl_signature_data_, C.Argument._ufl_signature_data_, C.GeometricQuantity._ufl_signature_data_, C.Label._ufl_signature_data_,
              C.Terminal._ufl_signature_data_):
        run.function(f)

    # ------------------------------------------------------------------ (a),(b),(e) one-change pairs through the real signature
    for vname, mk_a, mk_b in S.variants():
        def pair_ob(vname=vname, mk_a=mk_a, mk_b=mk_b):
            S.set_counters({k: 300 for k in S.COUNTER_FAMILIES})
            try:
                fa = mk_a()
                S.set_counters({k: 300 for k in S.COUNTER_FAMILIES})
                fb = mk_b()
            except Exception as ex:  # noqa: BLE001
                return undecided(f"{vname}: could not build the pair: {type(ex).__name__}: {ex}")
            sa, sb = _sig(fa), _sig(fb)
            if sa == sb:
                return violated(f"two forms differing only in '{vname}' have the same signature {sa[:16]}...",
                                replay={"variant": vname, "form_a": str(fa)[:400], "form_b": str(fb)[:400], "signature": sa}, reproduced=True, backend="exec")
            # and the same form built again has the same signature
            S.set_counters({k: 300 for k in S.COUNTER_FAMILIES})
            if _sig(mk_a()) != sa:
                return violated(f"'{vname}': the same form built twice has two signatures", reproduced=True)
            return proved("exec(one-change pair)", vcs=2, sample=f"{vname}: signatures differ; rebuilt form has the same signature")
        run.add(f"one-change/{vname}", pair_ob, kind="values")

    extra_pairs = []

    def base2(kw):
        m1, m2 = S.new_mesh(), S.new_mesh()
        V1, V2 = ufl.FunctionSpace(m1, S.L(ufl.triangle, 1)), ufl.FunctionSpace(m2, S.L(ufl.triangle, 1))
        f1, f2 = ufl.Coefficient(V1), ufl.Coefficient(V2)
        gq = {"CellVolume": ufl.CellVolume, "Circumradius": ufl.Circumradius, "FacetArea": ufl.FacetArea}[kw.get("gq", "CellVolume")]
        dom = m2 if kw.get("gq_mesh") == 2 else m1
        integrand = (f2 if kw.get("coef") == 2 else f1) * f1 * gq(dom)
        im = {m2: kw["extra"]} if "extra" in kw else None
        meas = ufl.Measure("dx", domain=m1, intersect_measures=(ufl.Measure(kw["extra"], domain=m2),)) if im else ufl.Measure("dx", domain=m1)
        return integrand * meas
    extra_pairs.append(("coefficient on which mesh", lambda: base2({}), lambda: base2({"coef": 2})))
    extra_pairs.append(("geometric quantity class", lambda: base2({}), lambda: base2({"gq": "Circumradius"})))
    extra_pairs.append(("geometric quantity on which mesh", lambda: base2({}), lambda: base2({"gq_mesh": 2})))

    def parts(kw):
        m = S.new_mesh()
        V0, V1 = ufl.FunctionSpace(m, S.L(ufl.triangle, 1)), ufl.FunctionSpace(m, S.L(ufl.triangle, 1))
        W = ufl.MixedFunctionSpace(V0, V1)
        vs, us = ufl.TestFunctions(W), ufl.TrialFunctions(W)
        return us[kw.get("u", 0)] * vs[kw.get("v", 0)] * ufl.dx
    extra_pairs.append(("argument part", lambda: parts({}), lambda: parts({"u": 1})))
    for vname, mk_a, mk_b in extra_pairs:
        def pair_ob2(vname=vname, mk_a=mk_a, mk_b=mk_b):
            S.set_counters({k: 300 for k in S.COUNTER_FAMILIES})
            fa = mk_a()
            S.set_counters({k: 300 for k in S.COUNTER_FAMILIES})
            fb = mk_b()
            sa, sb = _sig(fa), _sig(fb)
            if sa == sb:
                return violated(f"two forms differing only in '{vname}' have the same signature", replay={"variant": vname, "form_a": str(fa)[:300], "form_b": str(fb)[:300]},
                                reproduced=True, backend="exec")
            return proved("exec(one-change pair)", vcs=1, sample=f"{vname}: signatures differ")
        run.add(f"one-change/{vname}", pair_ob2, kind="values")

    # ------------------------------------------------------------------ multi-index hash data: injective up to renaming of free indices
    def multiindex_injective():
        from ufl.core.multiindex import FixedIndex, Index, MultiIndex
        I_, J_, K_ = Index(), Index(), Index()
        alphabet = [("i", I_), ("j", J_), ("k", K_), (0, FixedIndex(0)), (1, FixedIndex(1)), (2, FixedIndex(2))]
        seqs = []
        for n1 in (1, 2):
            for a in itertools.product(alphabet, repeat=n1):
                seqs.append([a])
                for n2 in (1, 2):
                    for b in itertools.product(alphabet[:5], repeat=n2):
                        seqs.append([a, b])

        def pattern(seq):
            names, out = {}, []
            for mi in seq:
                row = []
                for nm, _ in mi:
                    if isinstance(nm, str):
                        row.append(("free", names.setdefault(nm, len(names))))
                    else:
                        row.append(("fixed", nm))
                out.append(tuple(row))
            return tuple(out)
        seen = {}
        n = 0
        for seq in seqs:
            numbering = {}
            data = tuple(SIG.compute_multiindex_hashdata(MultiIndex(tuple(ix for _, ix in mi)), numbering) for mi in seq)
            pat = pattern(seq)
            n += 1
            if data in seen and seen[data] != pat:
                return violated(f"compute_multiindex_hashdata gives the same data {data} to the index patterns {seen[data]} and {pat}",
                                replay={"data": repr(data), "patterns": [repr(seen[data]), repr(pat)]}, reproduced=True, backend="exec")
            seen.setdefault(data, pat)
            for mi, row in zip(seq, data):
                for (nm, _), v in zip(mi, row):
                    if isinstance(nm, str) != (v < 0):
                        return violated(f"compute_multiindex_hashdata encodes {'a free index' if isinstance(nm, str) else 'the fixed index ' + str(nm)} as {v}: free indices must be "
                                        "negative and fixed indices non-negative to stay apart", replay={"sequence": repr(pat), "data": repr(data)}, reproduced=True, backend="exec")
        pats = {}
        for seq in seqs:
            numbering = {}
            data = tuple(SIG.compute_multiindex_hashdata(MultiIndex(tuple(ix for _, ix in mi)), numbering) for mi in seq)
            if pats.setdefault(pattern(seq), data) != data:
                return violated("compute_multiindex_hashdata depends on which Index objects are used, not only on the pattern", replay={"pattern": repr(pattern(seq))}, reproduced=True)
        return proved("exec(exhaustive over sequences)", vcs=n, sample=f"{n} sequences of <= 2 multi-indices of length <= 2 over 3 free and 3 fixed indices: data equal iff pattern equal")
    run.add("multiindex-hashdata-injective", multiindex_injective, kind="proof")

    # ------------------------------------------------------------------ (b) reconstruct passes only operands
    def reconstruct_ob():
        n, extra = 0, {}
        for cls in sorted(all_concrete_operator_classes(), key=lambda c: c.__name__):
            fn = None
            for k in cls.__mro__:
                if "_ufl_expr_reconstruct_" in k.__dict__:
                    fn = k.__dict__["_ufl_expr_reconstruct_"]
                    owner = k
                    break
            if fn is None:
                return undecided(f"{cls.__name__} has no reconstruct")
            n += 1
            if owner is C.Operator:
                continue
            tree = ast.parse(textwrap.dedent(inspect.getsource(fn)))
            fdef = tree.body[0]
            selfname = fdef.args.args[0].arg
            for call in ast.walk(fdef):
                if not isinstance(call, ast.Call):
                    continue
                tgt = ast.unparse(call.func)
                if tgt not in (f"{selfname}._ufl_class_", f"type({selfname})", "Operator._ufl_expr_reconstruct_"):
                    continue
                for kw in call.keywords:
                    if kw.arg is None:
                        continue
                    if any(isinstance(nn, ast.Name) and nn.id == selfname for nn in ast.walk(kw.value)):
                        extra.setdefault(cls.__name__, set()).add(kw.arg)
                for a in call.args:
                    if any(isinstance(nn, ast.Name) and nn.id == selfname for nn in ast.walk(a)) and not isinstance(a, ast.Name):
                        extra.setdefault(cls.__name__, set()).add(ast.unparse(a))
        # Interpolate passes v (its dual argument slot) positionally from self
        src = inspect.getsource(C.Interpolate._ufl_expr_reconstruct_)
        if "self.argument_slots()" in src:
            extra.setdefault("Interpolate", set()).add("argument_slots()[0]")
        expected = {"ExternalOperator": {"function_space", "derivatives", "argument_slots"}, "BaseFormOperator": {"function_space", "derivatives", "argument_slots"}, "Interpolate": {"argument_slots()[0]"}}
        covered = {"ExternalOperator": ["external operator derivatives (0,0) vs (0,1)", "external operator function space degree", "external operator argument slot"],
                   "Interpolate": ["interpolate target space degree"]}
        unknown = {k: sorted(v) for k, v in extra.items() if k not in expected or not v <= expected[k]}
        if unknown:
            return violated(f"operator classes carry non-operand data that no one-change obligation covers: {unknown}", replay={"classes": unknown}, reproduced=False, backend="ast")
        return proved("ast", vcs=n, sample=f"{n} operator classes: reconstruct passes only operands to the constructor, except {sorted(extra)} whose extra data "
                      f"is covered by the one-change obligations {covered}")
    run.add("node-is-function-of-type-and-operands", reconstruct_ob, kind="proof")

    # ------------------------------------------------------------------ (c) encoding uniquely decodable
    def decodable():
        import hashlib
        n = 0
        S.set_counters({})
        for bname, b in S.builders():
            with warnings.catch_warnings():
                warnings.simplefilter("ignore")
                form = b()
            ren = form._compute_renumbering()
            integrands = [it.integrand() for it in form.integrals()]
            th = SIG.compute_terminal_hashdata(integrands, ren)
            for t, data in th.items():
                n += 1
                if isinstance(data, (int, bytes)) or not isinstance(data, (str, tuple)):
                    return violated(f"terminal hash data of {type(t).__name__} is a {type(data).__name__}: it can be confused with an operator's typecode/digest list",
                                    replay={"terminal": repr(t)}, reproduced=True)
                enc = str([data])
                try:
                    dec = ast.literal_eval(enc)
                except Exception:  # noqa: BLE001
                    dec = None      # element reprs inside the data (e.g. finite elements) are not literals: compare via injectivity of repr instead
                if dec is not None and dec != [data]:
                    return violated(f"terminal data of {type(t).__name__} does not decode to itself", replay={"data": enc}, reproduced=True)
        # operator encoding: [typecode:int, digest:bytes ...]
        for k in range(0, 4):
            data = [17] + [hashlib.sha512(bytes([j])).digest() for j in range(k)]
            if ast.literal_eval(str(data)) != data:
                return violated("operator node encoding is not decodable", reproduced=True)
            n += 1
        src = inspect.getsource(SIG.compute_expression_hashdata)
        tree = ast.parse(textwrap.dedent(src))
        # semantic version of "each node digest is sha512(str([typecode | terminal data, child digests...]))": recompute it independently for a small DAG
        S.set_counters({})
        m_ = S.new_mesh()
        f_ = ufl.Coefficient(ufl.FunctionSpace(m_, S.L(ufl.triangle, 1)))
        e_ = ufl.sin(f_) * f_ + 2
        ren_ = (e_ * ufl.dx)._compute_renumbering()
        th_ = SIG.compute_terminal_hashdata([e_], ren_)

        def digest(x):
            data_ = [th_[x]] if x._ufl_is_terminal_ else [x._ufl_typecode_] + [digest(o) for o in x.ufl_operands]
            return hashlib.sha512(str(data_).encode("utf-8")).digest()
        if SIG.compute_expression_hashdata(e_, th_) != digest(e_):
            return violated("compute_expression_hashdata is no longer sha512(str([typecode, child digests...])) / sha512(str([terminal data]))",
                            replay={"expr": str(e_)}, reproduced=True, backend="exec")
        enc_calls = ["recomputed"]
        return proved("exec+ast", vcs=n, sample=f"{n} node data: str/tuple for terminals, [int, bytes...] for operators; literal_eval(str(data)) == data")
    run.add("encoding-uniquely-decodable", decodable, kind="proof")

    # ------------------------------------------------------------------ (e) integral tuple flow
    def integral_flow():
        tree = ast.parse(textwrap.dedent(inspect.getsource(SIG.compute_form_signature)))
        fdef = tree.body[0]
        assigns = {}
        for node in ast.walk(fdef):
            if isinstance(node, ast.Assign) and len(node.targets) == 1 and isinstance(node.targets[0], ast.Name):
                assigns.setdefault(node.targets[0].id, []).append(node.value)

        def accessors(expr, seen=()):
            out = set()
            for nn in ast.walk(expr):
                if isinstance(nn, ast.Call) and isinstance(nn.func, ast.Attribute) and isinstance(nn.func.value, ast.Name) and nn.func.value.id == "integral":
                    out.add(nn.func.attr)
                if isinstance(nn, ast.Name) and nn.id in assigns and nn.id not in seen:
                    for v in assigns[nn.id]:
                        out |= accessors(v, seen + (nn.id,))
            return out
        if "integral_hashdata" not in assigns or "hashdata" not in assigns:
            return violated("compute_form_signature has no integral_hashdata tuple any more", reproduced=False, backend="ast")
        got = set()
        for v in assigns["integral_hashdata"]:
            got |= accessors(v)
        need = {"integrand", "ufl_domain", "integral_type", "extra_domain_integral_type_map", "subdomain_id", "metadata"}
        appended = any(isinstance(nn, ast.Call) and ast.unparse(nn.func) == "hashdata.append" and "integral_hashdata" in ast.unparse(nn) for nn in ast.walk(fdef))

        def expand(expr, seen=()):
            """source text of expr with local single-assignment names replaced by their definitions"""
            class Sub(ast.NodeTransformer):
                def visit_Name(self, node):
                    if isinstance(node.ctx, ast.Load) and node.id in assigns and len(assigns[node.id]) == 1 and node.id not in seen and node.id != "hashdata":
                        return ast.parse(expand(assigns[node.id][0], seen + (node.id,)), mode="eval").body
                    return node
            import copy as _copy
            return ast.unparse(Sub().visit(_copy.deepcopy(expr)))
        final = [expand(nn.value) for nn in ast.walk(fdef) if isinstance(nn, ast.Return) and nn.value is not None]
        if not need <= got:
            return violated(f"the hashed integral tuple lacks {sorted(need - got)}", replay={"missing": sorted(need - got)}, reproduced=False, backend="ast")
        if not appended or not any("sha512(" in r and "str(hashdata)" in r for r in final):
            return violated("the list of integral tuples is not what gets hashed", replay={"returns": final}, reproduced=False, backend="ast")
        return proved("ast", vcs=len(need), sample=f"integral tuple reads {sorted(got)}; every tuple appended; str(hashdata) hashed")
    run.add("integral-tuple-contains-every-field", integral_flow, kind="proof")

    # ------------------------------------------------------------------ (d) canonicalize_metadata
    STR_INJECTIVE = {"int": True, "float": True, "str": True, "None": True, "np.ndarray": False, "numpy.ndarray": False, "ndarray": False}

    def canon_branches():
        tree = ast.parse(textwrap.dedent(inspect.getsource(canonicalize_metadata)))
        n, bad = 0, []
        for node in ast.walk(tree):
            if not isinstance(node, ast.If):
                continue
            test = ast.unparse(node.test)
            body = " ".join(ast.unparse(b) for b in node.body)
            if "value = str(value)" not in body:
                continue
            if "isinstance(value" not in test:
                continue
            call = next(c for c in ast.walk(node.test) if isinstance(c, ast.Call) and ast.unparse(c.func) == "isinstance")
            tys = call.args[1]
            names = []

            def flat(t):
                if isinstance(t, ast.BinOp):
                    flat(t.left)
                    flat(t.right)
                elif isinstance(t, ast.Tuple):
                    for e in t.elts:
                        flat(e)
                else:
                    names.append(ast.unparse(t))
            flat(tys)
            for nm in names:
                n += 1
                if nm not in STR_INJECTIVE:
                    bad.append(f"str() applied to values of type {nm}: no injectivity contract known")
                elif not STR_INJECTIVE[nm]:
                    bad.append(f"str() applied to values of type {nm}: str(ndarray) abbreviates arrays of more than 1000 entries and prints 8 significant digits")
        if bad:
            big_a = np.linspace(0.0, 1.0, 1200)
            big_b = big_a.copy()
            big_b[600] += 0.25
            ca, cb = canonicalize_metadata({"p": big_a}), canonicalize_metadata({"p": big_b})
            return violated("canonicalize_metadata encodes a value with a non-injective external encoder: " + "; ".join(bad) +
                            f"; witness: two 1200-entry arrays differing in entry 600 canonicalise {'identically' if ca == cb else 'differently'}",
                            replay={"branches": bad, "witness": "np.linspace(0,1,1200) vs same with [600] += 0.25", "collides": ca == cb}, reproduced=bool(ca == cb), backend="ast+exec")
        return proved("ast", vcs=max(n, 1), sample=f"every str() branch of canonicalize_metadata is applied to types with an injective str ({n} types)")
    run.add("metadata/branch-encoders-injective", canon_branches, kind="proof")

    def canon_family():
        atoms = [1, 2, 2.5, "a", "2", None, True, np.array([0.5, 0.25]), np.array([0.5, 0.25 + 1e-10]), np.array([[1.0, 2.0]]), np.array([1.0, 2.0]),
                 np.arange(1200.0), np.concatenate([np.arange(600.0), [7.0], np.arange(601.0, 1200.0)]), np.array([1, 2]), np.zeros((2, 0)), np.zeros((0,))]
        vals = list(atoms)
        vals += [[a, b] for a in atoms[:6] for b in atoms[:4]] + [(a,) for a in atoms] + [{"k": a} for a in atoms] + [{"k": a, "l": b} for a in atoms[:5] for b in atoms[6:12]]
        vals += [{"k": [a, {"m": b}]} for a in atoms[:4] for b in atoms[5:12]]
        # dicts whose insertion order is not the sorted key order (a dict is its sorted item tuple: equal dicts spelled in another
        # order coincide, dicts with the values exchanged between keys do not), at the top level and nested
        vals += [{"l": b, "k": a} for a in atoms[:5] for b in atoms[6:9]] + [{"l": a, "k": b} for a in atoms[:3] for b in atoms[6:8]]
        vals += [{"z": 1, "a": 2, "m": 3}, {"a": 2, "m": 3, "z": 1}, {"z": 2, "a": 1, "m": 3}, {"m": 3, "z": 1, "a": 2}, {"z": 3, "a": 1, "m": 2}]
        mds = [{"x": v} for v in vals] + [{"y": v} for v in vals[:8]] + [None, {}]
        mds += [{"quadrature_degree": 4, "precision": 8}, {"precision": 4, "quadrature_degree": 8}, {"precision": 8, "quadrature_degree": 4},
                {"quadrature_rule": "vertex", "quadrature_degree": 1}, {"quadrature_degree": "vertex", "quadrature_rule": 1},
                {"y": 1, "x": [1, 2]}, {"x": [1, 2], "y": 1}, {"y": [1, 2], "x": 1}]
        with warnings.catch_warnings():
            warnings.simplefilter("ignore")
            canon = [canonicalize_metadata(m) for m in mds]
        n = 0
        for (i, a), (j, b) in itertools.combinations(enumerate(mds), 2):
            n += 1
            if canon[i] == canon[j] and norm(a) != norm(b):
                return violated(f"canonicalize_metadata maps two different metadata to the same value: {str(a)[:150]} and {str(b)[:150]}",
                                replay={"a": repr(a)[:2000], "b": repr(b)[:2000], "canon": repr(canon[i])[:500]}, reproduced=True, backend="exec")
            if norm(a) == norm(b) and canon[i] != canon[j]:
                return violated(f"canonicalize_metadata separates metadata that are equal up to documented coercion: {str(a)[:150]} vs {str(b)[:150]}",
                                replay={"a": repr(a)[:2000], "b": repr(b)[:2000]}, reproduced=True, backend="exec")
            try:
                hash(canon[i])
            except TypeError:
                return violated(f"canonicalised metadata is not hashable: {canon[i]!r}"[:300], reproduced=True)
        return bounded_ok(n, f"all pairs of {len(mds)} metadata values (nesting depth <= 3, arrays incl. >1000 entries, 10th digit, shapes)",
                          sample="canon(x)==canon(y) <=> norm(x)==norm(y)")
    run.add("metadata/injective-against-spec", canon_family, kind="bounded")

    # ------------------------------------------------------------------ (f) equal forms => equal signatures
    def equal_forms():
        n = 0
        for bname, b in S.builders():
            S.set_counters({k: 40 for k in S.COUNTER_FAMILIES})
            with warnings.catch_warnings():
                warnings.simplefilter("ignore")
                f1 = b()
                S.set_counters({k: 40 for k in S.COUNTER_FAMILIES})
                f2 = b()
            n += 1
            try:
                same = f1.equals(f2)
            except (NotImplementedError, ValueError):
                same = None        # refusals: BaseFormOperator.__eq__ raises NotImplementedError; dict == on array-valued metadata raises ValueError
            if same is False:
                return undecided(f"{bname}: the two builds are not equal (corpus artefact)")
            if _sig(f1) != _sig(f2):
                return violated(f"equal forms '{bname}' have different signatures", replay={"builder": bname}, reproduced=True)
        # equal forms that SPELL an integer subdomain id differently (Python int / numpy integers, as read from a mesh tag array)
        import numpy as np
        from ufl import Coefficient, FunctionSpace, Measure
        for spell_a, spell_b, what in ((1, np.int64(1), "dx(1) vs dx(numpy.int64(1))"), ((1, 2), (np.int32(1), np.int64(2)), "dx((1, 2)) vs dx((numpy.int32(1), numpy.int64(2)))"),
                                       (0, np.int64(0), "ds(0) vs ds(numpy.int64(0))"), (7, np.uint8(7), "dx(7) vs dx(numpy.uint8(7))")):
            forms = []
            for sp in (spell_a, spell_b):
                S.set_counters({k: 40 for k in S.COUNTER_FAMILIES})
                m = S.new_mesh()
                f_ = Coefficient(FunctionSpace(m, S.L(ufl.triangle, 1)))
                forms.append(f_ * f_ * Measure("ds" if "ds" in what else "dx", domain=m, subdomain_id=sp))
            n += 1
            if not forms[0].equals(forms[1]):
                return undecided(f"{what}: the two spellings do not give equal forms")
            if _sig(forms[0]) != _sig(forms[1]):
                return violated(f"the equal forms f*f*{what.split(' vs ')[0]} and f*f*{what.split(' vs ')[1]} (Form.equals is True) have different signatures",
                                replay={"spellings": what}, reproduced=True)
        return bounded_ok(n, f"{n} corpus forms, each built twice; integer subdomain ids spelled as Python ints and as numpy integers", sample="equal forms have equal signatures")
    run.add("equal-forms-equal-signatures", equal_forms, kind="bounded")

    # ------------------------------------------------------------------ (g) the signature is a function of the form alone: objects shared with forms whose
    # signatures were computed earlier (spaces, meshes, coefficients are reused across the forms of a problem) carry nothing over
    def sig_history():
        from ufl import Coefficient, Constant, FunctionSpace, Measure, TestFunction

        def world_():
            S.set_counters({k: 60 for k in S.COUNTER_FAMILIES})
            m0, m1 = S.new_mesh(), S.new_mesh()
            V0, V1, W1 = FunctionSpace(m0, S.L(ufl.triangle, 1)), FunctionSpace(m1, S.L(ufl.triangle, 1)), FunctionSpace(m1, S.L(ufl.triangle, 2, (2,)))
            f0, g0, f1, w1 = Coefficient(V0), Coefficient(V0), Coefficient(V1), Coefficient(W1)
            c1 = Constant(m1)
            v1 = TestFunction(V1)
            dx0, dx1 = Measure("dx", domain=m0), Measure("dx", domain=m1)
            forms = {
                "A: f1*dx(m1)": f1 * dx1, "A2: f1*c1*v1*dx(m1) + w1[0]*dx(m1)": f1 * c1 * v1 * dx1 + w1[0] * dx1,
                "B: f0*f1*dx(m0)": f0 * f1 * dx0, "C: f0*g0*dx(m0)": f0 * g0 * dx0, "D: f0*w1[1]*c1*dx(m0) + f1*dx(m1)": f0 * w1[1] * c1 * dx0 + f1 * dx1,
                "E: f1*f0*dx(m1)": f1 * f0 * dx1,
            }
            return forms
        names = list(world_())
        alone = {}
        for nm in names:
            alone[nm] = _sig(world_()[nm])          # fresh objects, nothing computed before
        n = 0
        for first in names:
            forms = world_()
            _sig(forms[first])                       # a signature computed earlier on objects shared with the other forms
            for nm in names:
                n += 1
                got = _sig(forms[nm])
                if got != alone[nm]:
                    return violated(f"the signature of '{nm}' is {got[:12]}... after the signature of '{first}' (sharing its meshes / spaces / coefficients) was computed, "
                                    f"and {alone[nm][:12]}... when it is computed first: the signature depends on what was signed before",
                                    replay={"first": first, "form": nm, "sig_after": got, "sig_alone": alone[nm]}, reproduced=True, backend="exec")
        if alone["B: f0*f1*dx(m0)"] == alone["C: f0*g0*dx(m0)"]:
            return violated("f0*f1*dx(m0) (f1 on a second mesh) and f0*g0*dx(m0) have the same signature", reproduced=True)
        return bounded_ok(n, f"{len(names)} x {len(names)} (signed first, signed afterwards) pairs over forms sharing two meshes, three spaces, four coefficients",
                          sample="every signature equals the one computed on fresh objects")
    run.add("signature-independent-of-earlier-signatures", sig_history, kind="bounded")

    def canary():
        S.set_counters({})
        m = S.new_mesh()
        V = ufl.FunctionSpace(m, S.L(ufl.triangle, 1))
        f = ufl.Coefficient(V)
        if _sig(2 * f * ufl.dx) == _sig(3 * f * ufl.dx):
            return proved("canary")
        return violated("canary refuted", reproduced=True)
    run.add("canary/2f-vs-3f", canary, kind="canary")
