"""C22 — block extraction partitions mixed forms.

Functions under contract: FormSplitter.argument/indexed/restricted/multi_index, FormSplitter.split, extract_blocks.
Contract (mixed argument components as atoms):
   den block_ij == den F with the test function replaced by the embedding of the i-th sub-function (zeros elsewhere) and the
                   trial function by the embedding of the j-th sub-function  ==>  block (i, j) depends on no other sub-function;
   sum_ij den block_ij == den F;
for both routes (mixed element / MixedFunctionSpace with argument parts) and both replace_argument modes, all terminal values.
"""
from __future__ import annotations

import itertools

import ufl
import ufl.classes as C
from ufl import (MixedFunctionSpace, TestFunction, TestFunctions, TrialFunction, TrialFunctions, div, dot, ds, dS, dx, extract_blocks, grad, inner, split,
                 jump, avg)
from ufl.algorithms.formsplitter import FormSplitter
from ufl.pullback import identity_pullback
from ufl.sobolevspace import H1

from ufv import elements as E
from ufv import num as N
from ufv.core import crash_text, deliberate, proved, undecided, violated
from ufv.den import World, den
from ufv.forms import check_form, form_parts, part_sum
from ufv.opq import mesh
from ufv.terms import atoms_hook

LEVEL = "other"
TECHNIQUE = ("contract VCs on the real block extraction: for mixed-element and mixed-function-space forms each block's integrands must "
             "equal the form with the other sub-functions set to zero, and the blocks must sum to the form, for all values "
             "(argument components are atoms; embedding by physical component offsets)")
LEVEL_TEXT = "All-values proofs per (form, block, integral part); forms and mixed spaces enumerated (2-3 sub-spaces; scalar/vector/symmetric-free sub-elements)."
LEVEL_NOTE = "Trusted: ufv/den.py; embedding of sub-functions by value-size offsets (spec side); z3."
TRUSTED = ["ufv/den.py", "sub-function embedding by physical value sizes", "z3, ufv/alg.py"]
ASSUMPTIONS = ["<= 3 sub-spaces; identity-mapped sub-elements (scalar and vector)", "finite corpus of forms; gdim 2; real mode"]
EXPLANATION = "Blocks are the restrictions of the form to one test and one trial sub-function and sum to the form, for all terminal values."


def _spec_form(F):
    """The form the specification is read from: F itself (its integrals one by one, repeated ones included); only forms that still contain
    unapplied derivatives are expanded first (the expansion goes through the library's integral mapper)."""
    from ufl.algorithms import expand_derivatives
    from ufl.corealg.traversal import unique_pre_traversal
    if any(isinstance(nd, C.Derivative) and not isinstance(nd, (C.Grad, C.ReferenceGrad, C.Div, C.Curl, C.NablaGrad, C.NablaDiv, C.ReferenceDiv, C.ReferenceCurl))
           for it in F.integrals() for nd in unique_pre_traversal(it.integrand())):
        return expand_derivatives(F)
    return F


def build(run):
    tmo = 20000
    for nm in ("argument", "indexed", "restricted", "multi_index", "split"):
        run.function(getattr(FormSplitter, nm), f"FormSplitter.{nm}")
    run.function(extract_blocks)
    tri = mesh("triangle")
    cell = tri.ufl_cell()
    P2v, P1, P0 = E.LagrangeElement(cell, 2, (2,)), E.LagrangeElement(cell, 1), E.FiniteElement("DG", cell, 0, (), identity_pullback, ufl.sobolevspace.L2)
    f = ufl.Coefficient(ufl.FunctionSpace(tri, P1))

    def sizes(els, msh=None):
        """PHYSICAL value sizes of the sub-function spaces (they differ from the reference sizes for symmetric and Piola-on-manifold elements)"""
        out = []
        for e in els:
            n = 1
            for s in ufl.FunctionSpace(msh or tri, e).value_shape:
                n *= s
            out.append(n)
        return out

    # ------------------------------------------------------------------ route 1: mixed element
    def mixed_route(ename, els, forms, msh=None, els_trial=None):
        """els_trial: the sub-elements of the TRIAL space when it is another mixed space than the test space (a rectangular block layout)"""
        msh = msh or tri
        M = ufl.FunctionSpace(msh, E.MixedElement(list(els)))
        Mu = M if els_trial is None else ufl.FunctionSpace(msh, E.MixedElement(list(els_trial)))
        v, u = TestFunction(M), TrialFunction(Mu)
        SZ = [sizes(els, msh), sizes(els_trial or els, msh)]
        OFFS = [[sum(sz_[:k]) for k in range(len(sz_) + 1)] for sz_ in SZ]
        nbs = (len(els), len(els_trial or els))

        def world(i=None, j=None, sub_names=False, block=None):
            """Values of the MIXED arguments (numbers 0/1): component c belongs to sub-space k; value = atom 'v{n}s{k}'[local comp] if k is the
            selected block index (i for number 0, j for number 1) or if no selection (i,j None); else 0.
            Sub-space arguments created by the splitter (function space = sub space) are mapped for `block`=(i,j) to the same atoms."""
            def hook(w, e, comp, env):
                if isinstance(e, C.Argument):
                    nbr = e.number()
                    if e.ufl_function_space() == (M, Mu)[min(nbr, 1)]:
                        (c,) = comp
                        sz, offs = SZ[min(nbr, 1)], OFFS[min(nbr, 1)]
                        k = max(kk for kk in range(len(sz)) if offs[kk] <= c)
                        sel = (i, j)[nbr] if nbr < 2 else None
                        if sel is not None and sel != k:
                            return 0
                        return w.symbol(f"v{nbr}s{k}", (c - offs[k],))
                    # an argument on a sub space: only meaningful relative to a block
                    if block is None:
                        raise N.Unsupported("sub-space argument outside of a block")
                    k = block[nbr]
                    flat = 0
                    sh = e.ufl_shape
                    for cc, ss in zip(comp, sh):
                        flat = flat * ss + cc
                    return w.symbol(f"v{nbr}s{k}", (flat,))
                return atoms_hook(w, e, comp, env)

            def mk(symbolic, valuation):
                w = World(symbolic=symbolic, complex_mode=False, valuation=valuation)
                w.terminal_hook = hook
                return w
            return mk

        def in_world(w, mk):
            w2 = w.with_layers(w.layers)
            w2.terminal_hook = mk(True, None).terminal_hook
            return w2

        for fname, mkF in forms(v, u):
            arity = len(mkF().arguments())
            nb = nbs
            blocks_idx = list(itertools.product(range(nb[0]), range(nb[1]))) if arity == 2 else [(k, None) for k in range(nb[0])]
            for repl in (True, False):
                for (bi, bj) in blocks_idx:
                    tag = f"mixed-element[{ename}]/{fname}/block({bi},{bj})/replace_argument={repl}"

                    def thunk(mkF=mkF, bi=bi, bj=bj, repl=repl, tag=tag, arity=arity):
                        F = mkF()
                        from ufl.algorithms import expand_derivatives
                        Fe = _spec_form(F)
                        try:
                            blk = extract_blocks(F, bi, bj, replace_argument=repl) if arity == 2 else extract_blocks(F, bi, replace_argument=repl)
                        except (ValueError, RuntimeError) as ex:
                            if not deliberate(ex):
                                return violated(f"crash instead of a result or a refusal: {crash_text(ex)}", reproduced=True, backend="exec")
                            return proved("refused", sample=f"{tag}: {ex}"[:200])
                        mk = world(block=(bi, bj))
                        spec_mk = world(i=bi, j=bj)
                        return check_form(mk, blk, lambda w, key: part_sum(in_world(w, spec_mk), form_parts(Fe).get(key, [])), [Fe], tag, tmo)
                    run.add(tag, thunk, kind="values")
            # blocks sum to the form
            tag = f"mixed-element[{ename}]/{fname}/sum-of-blocks"

            def sum_thunk(mkF=mkF, tag=tag, arity=arity, nb=nb):
                F = mkF()
                from ufl.algorithms import expand_derivatives
                from ufv.smt import prove_equal
                Fe = _spec_form(F)
                allb = extract_blocks(F)
                keys = set(form_parts(Fe))
                flat = []
                if arity == 2:
                    if len(allb) != nb[0] or any(len(row_) != nb[1] for row_ in allb):
                        return violated(f"{tag}: extract_blocks(F) has the layout {len(allb)} x {[len(r_) for r_ in allb]}; the test space has {nb[0]} and the trial space {nb[1]} sub-spaces",
                                        replay={"layout": [len(r_) for r_ in allb]}, reproduced=True, backend="structural")
                    for a in range(nb[0]):
                        for b in range(nb[1]):
                            flat.append(((a, b), allb[a][b]))
                else:
                    for a in range(nb[0]):
                        flat.append(((a, None), allb[a]))
                for _, bf in flat:
                    keys |= set(form_parts(bf))
                n = 0
                for key in sorted(keys, key=str):
                    w = world()(True, None)
                    tot = 0
                    for blk, bf in flat:
                        tot = N.add(tot, part_sum(in_world(w, world(block=blk)), form_parts(bf).get(key, [])))
                    spec = part_sum(in_world(w, world()), form_parts(Fe).get(key, []))
                    vd = prove_equal(w, tot, spec, tmo)
                    n += 1
                    if vd.status == "refuted":
                        return violated(f"{tag}: the blocks do not sum to the form on {key}; counter-model {vd.model}",
                                        replay={"key": str(key), "model": vd.model}, reproduced=True, backend=vd.backend)
                    if vd.status != "proved":
                        return undecided(f"{tag}: {vd.detail}")
                return proved("z3-simplify", vcs=n, sample=f"{tag}: sum of all blocks == form on {n} parts")
            run.add(tag, sum_thunk, kind="values")

            # option plumbing of the public wrapper: the all-blocks call returns, block by block, what the single-block call returns,
            # for both values of replace_argument
            def plumbing(mkF=mkF, tag=tag, arity=arity, nb=nb):
                F = mkF()
                n = 0
                for repl in (True, False):
                    allb = extract_blocks(F, replace_argument=repl)
                    idx = [(a, b) for a in range(nb[0]) for b in range(nb[1])] if arity == 2 else [(a, None) for a in range(nb[0])]
                    for a, b in idx:
                        got = allb[a][b] if arity == 2 else allb[a]
                        one = extract_blocks(F, a, b, replace_argument=repl) if arity == 2 else extract_blocks(F, a, replace_argument=repl)
                        n += 1
                        # an empty block is None in the list and an empty Form from the single-block call: the same thing
                        sg = None if (got is None or not got.integrals()) else got.signature()
                        so = None if (one is None or not one.integrals()) else one.signature()
                        if sg != so:
                            return violated(f"{tag}: extract_blocks(F, replace_argument={repl})[{a}]{'' if b is None else f'[{b}]'} is not what "
                                            f"extract_blocks(F, {a}{'' if b is None else f', {b}'}, replace_argument={repl}) returns: {str(got)[:200]} vs {str(one)[:200]}",
                                            replay={"block": [a, b], "replace_argument": repl, "all": str(got)[:600], "single": str(one)[:600]}, reproduced=True, backend="exec")
                return proved("exec", vcs=n, sample=f"{tag}: all-blocks call == single-block calls for replace_argument in (True, False)")
            run.add(tag.replace("sum-of-blocks", "all-blocks-vs-single-blocks"), plumbing, kind="values")

    def forms2(v, u):
        (vu, vp), (uu, up) = split(v), split(u)
        yield "stokes", lambda: (inner(grad(uu), grad(vu)) - div(vu) * up - div(uu) * vp) * dx
        yield "stokes+mass+boundary", lambda: (inner(grad(uu), grad(vu)) - div(vu) * up - div(uu) * vp + f * up * vp) * dx + dot(uu, vu) * ds(1)
        yield "rhs", lambda: dot(ufl.as_vector([f, f * f]), vu) * dx + f * vp * ds
        yield "indexed mixed arguments directly", lambda: (u[0] * v[2] + u[2] * v[1] + u[1] * v[1]) * dx
        yield "interior facet", lambda: jump(up) * avg(vu[0]) * dS
        # a form that contains the SAME integral more than once (m + k + m: forms are sums, contributions add up) and equal integrands on different measures
        yield "repeated integral m + k + m", lambda: (lambda m_, k_: m_ + k_ + m_)(dot(uu, vu) * dx + up * vp * dx, (div(uu) * vp - div(vu) * up) * dx + dot(uu, vu) * ds(1))
        yield "repeated linear integral", lambda: (lambda m_: m_ + f * vp * ds + m_ + m_)(dot(ufl.as_vector([f, 1]), vu) * dx)
        # list tensors written by the user, with literal zero entries and with entries taken from different sub-functions
        yield "buoyancy: p e_y . v (list tensor with a zero entry)", lambda: (inner(uu, vu) + 3 * up * inner(ufl.as_vector([0, 1]), vu) + 5 * up * vp) * dx
        yield "list tensor mixing sub-functions [u_0, p]", lambda: (dot(ufl.as_vector([uu[0], up]), vu) + dot(ufl.as_vector([0, uu[1]]), ufl.as_vector([vp, vu[0]]))) * dx
        yield "rhs with a unit vector", lambda: (f * dot(ufl.as_vector([1, 0]), vu) + f * vp) * dx
        # every compound differential / tensor operator applied to a sub-function is rebuilt around the replaced argument: convection (nabla_grad used
        # non-symmetrically), nabla_div, curl, transposes and symmetric gradients
        yield "oseen convection: (b . nabla_grad(u)) . v", lambda: (inner(dot(ufl.as_vector([f, 1 + f]), ufl.nabla_grad(uu)), vu) + ufl.nabla_div(uu) * vp - up * ufl.nabla_div(vu)) * dx
        yield "nabla_grad(u) : grad(v) (transposed pairing)", lambda: inner(ufl.nabla_grad(uu), grad(vu)) * dx + up * vp * dx
        yield "curl u curl v + sym(grad u) : grad(v).T", lambda: (ufl.curl(uu) * ufl.curl(vu) + inner(ufl.sym(grad(uu)), grad(vu).T) + up * vp) * dx
        yield "skew / dev / tr of grad(u)", lambda: (inner(ufl.skew(grad(uu)), grad(vu)) + inner(ufl.dev(grad(uu)), ufl.outer(vu, ufl.as_vector([f, 1]))) + ufl.tr(grad(uu)) * vp) * dx
    mixed_route("P2v-P1", (P2v, P1), forms2)

    # test and trial functions on DIFFERENT mixed spaces (Petrov-Galerkin): a rectangular block layout, rows from the test space, columns from the trial space
    def forms_rect(v, u):
        vs, us = split(v), split(u)
        yield "all blocks", lambda: sum((k_ + 2 * l_ + 1) * us[l_] * vs[k_] for k_ in range(len(vs)) for l_ in range(len(us))) * dx
        yield "only the last column", lambda: (us[len(us) - 1] * vs[0] + f * us[len(us) - 1] * vs[len(vs) - 1]) * dx + us[len(us) - 1] * vs[0] * ds(1)
        yield "gradients across blocks", lambda: (inner(grad(us[0]), grad(vs[len(vs) - 1])) + us[len(us) - 1].dx(0) * vs[0]) * dx
    def forms_rect_v(v, u):
        vs, (u0, uv) = split(v), split(u)
        yield "scalar and vector trial blocks", lambda: (u0 * vs[0] + div(uv) * vs[1] + dot(uv, grad(vs[2])) + 3 * u0 * vs[2]) * dx
    mixed_route("test P1-P1 x trial P1-P1-P1", (P1, P1), forms_rect, els_trial=(P1, P1, P1))
    mixed_route("test P1-P1-P1 x trial P1-P2v", (P1, P1, P1), forms_rect_v, els_trial=(P1, P2v))

    def forms3(v, u):
        (va, vb, vc), (ua, ub, uc) = split(v), split(u)
        yield "three-field", lambda: (ua * va + ub[0] * vb[0] + uc * vc + ua * vc + ub[1] * va) * dx + uc * div(vb) * dx
        yield "three-field rhs", lambda: (f * va + f * vb[1]) * dx + vc * ds
    mixed_route("P1-P2v-P0", (P1, P2v, P0), forms3)

    # sub-elements whose reference value size differs from the physical one: a symmetric 2x2 tensor (3 vs 4) first, then vector and scalar
    SYM = E.SymmetricElement({(0, 0): 0, (0, 1): 1, (1, 0): 1, (1, 1): 2}, [P1, P1, P1])

    def forms_sym(v, u):
        (vS, vv_, vq), (uS, uu_, uq) = split(v), split(u)
        yield "symmetric-vector-scalar", lambda: (inner(uS, vS) + dot(uu_, vv_) + uq * vq + uS[0, 1] * vq + uu_[1] * vS[1, 0] + uq * vv_[0]) * dx
        yield "symmetric-vector-scalar rhs", lambda: (f * vS[1, 0] + f * vv_[0] + vq + f * f * vS[1, 1]) * dx + vv_[1] * ds
        yield "symmetric-vector-scalar rhs without the last block", lambda: (f * vS[0, 0] + f * vv_[1]) * dx
    mixed_route("Sym2x2-P2v-P1", (SYM, P2v, P1), forms_sym)

    # a full (non-symmetric) tensor-valued sub-element: lists of entries taken from different rows / columns of the sub-function (diagonals,
    # anti-diagonals, transposes) must stay those entries after the sub-function has been replaced by the sub-space argument
    P1t = E.LagrangeElement(cell, 1, (2, 2))

    def forms_tensor(v, u):
        (vT, vq), (uT, uq) = split(v), split(u)
        yield "diagonal of a tensor sub-function", lambda: (inner(ufl.diag_vector(uT), ufl.diag_vector(vT)) + uq * vq) * dx
        yield "diagonal against a coefficient vector (rhs)", lambda: dot(ufl.as_vector([f, f * f]), ufl.diag_vector(vT)) * dx + f * vq * ds
        yield "anti-diagonal and a column", lambda: (dot(ufl.as_vector([uT[0, 1], uT[1, 0]]), ufl.as_vector([vT[0, 0], vT[1, 0]])) + uq * vT[1, 1]) * dx
        yield "transpose and trace", lambda: (inner(uT.T, vT) + ufl.tr(uT) * vq + uq * ufl.tr(vT)) * dx
        yield "entries [T_11, T_00] with the scalar", lambda: (dot(ufl.as_vector([uT[1, 1], uT[0, 0]]), ufl.as_vector([vq, vT[0, 1]])) + uq * vq) * dx
    mixed_route("P1t(2x2)-P1", (P1t, P1), forms_tensor)

    # contravariant Piola element on a triangle immersed in 3D (reference size 2, physical size 3) before other sub-elements
    tri3 = mesh("triangle", 3)
    cell3 = tri3.ufl_cell()
    RT3 = E.FiniteElement("Raviart-Thomas", cell3, 1, (2,), ufl.pullback.contravariant_piola, ufl.sobolevspace.HDiv)
    P1v3, P1s3 = E.LagrangeElement(cell3, 1, (3,)), E.LagrangeElement(cell3, 1)
    f3 = ufl.Coefficient(ufl.FunctionSpace(tri3, P1s3))

    def forms_rt3(v, u):
        (vs_, vv_, vq), (us_, uu_, uq) = split(v), split(u)
        yield "Hdiv-vector-scalar on a manifold", lambda: (dot(us_, vs_) + dot(uu_, vv_) + uq * vq + us_[2] * vq + uu_[1] * vs_[0]) * dx
        yield "Hdiv-vector-scalar on a manifold rhs", lambda: (f3 * vs_[2] + f3 * vv_[0] + vq) * dx
    mixed_route("RT(manifold)-P1v-P1", (RT3, P1v3, P1s3), forms_rt3, msh=tri3)

    # ------------------------------------------------------------------ route 2: MixedFunctionSpace (arguments with parts)
    def mfs_route():
        V0, V1 = ufl.FunctionSpace(tri, P2v), ufl.FunctionSpace(tri, P1)
        W = MixedFunctionSpace(V0, V1)
        (v0, v1), (u0, u1) = TestFunctions(W), TrialFunctions(W)

        def world(i=None, j=None):
            def hook(w, e, comp, env):
                if isinstance(e, C.Argument) and e.part() is not None:
                    sel = (i, j)[e.number()]
                    if sel is not None and sel != e.part():
                        return 0
                    return w.symbol(f"v{e.number()}p{e.part()}", comp)
                return atoms_hook(w, e, comp, env)

            def mk(symbolic, valuation):
                w = World(symbolic=symbolic, complex_mode=False, valuation=valuation)
                w.terminal_hook = hook
                return w
            return mk

        def in_world(w, mk):
            w2 = w.with_layers(w.layers)
            w2.terminal_hook = mk(True, None).terminal_hook
            return w2
        forms = [
            ("stokes", lambda: (inner(grad(u0), grad(v0)) - div(v0) * u1 - div(u0) * v1) * dx, 2),
            ("with mass", lambda: (inner(u0, v0) + u1 * v1 + f * u1 * div(v0)) * dx + u1 * v1 * ds(3), 2),
            ("rhs", lambda: (f * v1 + dot(ufl.as_vector([f, 1]), v0)) * dx, 1),
            ("repeated integral m + k + m", lambda: (lambda m_, k_: m_ + k_ + m_)(inner(u0, v0) * dx + u1 * v1 * dx, (div(u0) * v1 - div(v0) * u1) * dx + u1 * v1 * ds(3)), 2),
            ("repeated linear integral", lambda: (lambda m_: m_ + f * v1 * ds + m_)(dot(ufl.as_vector([f, 1]), v0) * dx), 1),
            ("buoyancy (list tensor with a zero entry)", lambda: (inner(u0, v0) + 3 * u1 * inner(ufl.as_vector([0, 1]), v0) + 5 * u1 * v1) * dx, 2),
            ("rhs with a unit vector", lambda: (f * dot(ufl.as_vector([0, 1]), v0) + v1) * dx, 1),
            # interior facets: restrictions, jumps and averages wrapping SUMS over several parts (the splitter zeroes the other parts inside the restriction)
            ("interior facet: separate restrictions", lambda: u1("+") * v1("-") * dS + u0[0]("+") * v1("+") * dS + jump(u1) * avg(v0[1]) * dS, 2),
            ("interior facet: restricted sum of parts", lambda: (u0[0] + u1)("+") * v1("+") * dS + (u0[1] - u1)("-") * (v0[0] + v1)("+") * dS, 2),
            ("interior facet: jump and avg of sums of parts", lambda: jump(u0[0] + u1) * avg(v0[1] - v1) * dS, 2),
            # forms in which some parts do not occur at all (the block layout is that of the SPACE, not of the parts that happen to occur)
            ("only the (0,1) block", lambda: u1 * div(v0) * dx, 2), ("blocks (0,0) and (0,1) only", lambda: (inner(grad(u0), grad(v0)) + u1 * div(v0)) * dx, 2),
            ("blocks (0,0) and (1,0) only", lambda: (inner(u0, v0) + div(u0) * v1) * dx, 2), ("only the (1,1) block", lambda: f * u1 * v1 * dx, 2),
            ("rhs with the first part only", lambda: dot(ufl.as_vector([f, 1]), v0) * dx, 1), ("rhs with the last part only", lambda: f * v1 * dx, 1),
            ("interior facet rhs: restricted sum of test parts", lambda: (f * (v0[0] + v1))("+") * dS + avg(f) * jump(v0[1] + v1) * dS, 1),
        ]
        for fname, mkF, arity in forms:
            idx = list(itertools.product(range(2), repeat=2)) if arity == 2 else [(0, None), (1, None)]
            for (bi, bj) in idx:
                tag = f"mixed-function-space/{fname}/block({bi},{bj})"

                def thunk(mkF=mkF, bi=bi, bj=bj, tag=tag, arity=arity):
                    F = mkF()
                    from ufl.algorithms import expand_derivatives
                    Fe = _spec_form(F)
                    try:
                        blk = extract_blocks(F, bi, bj) if arity == 2 else extract_blocks(F, bi)
                    except RuntimeError as ex:
                        if "Cannot extract block" not in str(ex):
                            raise
                        blk = None      # the block lies outside the layout derived from the parts that occur: it must then be empty in the form as well
                    if blk is None:
                        blk = 0
                    spec_mk = world(bi, bj)
                    return check_form(world(), blk, lambda w, key: part_sum(in_world(w, spec_mk), form_parts(Fe).get(key, [])), [Fe], tag, tmo)
                run.add(tag, thunk, kind="values")
            # the call without indices returns the whole block structure: rectangular, agreeing with the single-block calls, and its entries SUM TO THE FORM
            # (the layout may be smaller than the space when trailing parts do not occur, but then nothing of the form may be lost)
            tag_all = f"mixed-function-space/{fname}/all-blocks-sum-to-the-form"

            def all_thunk(mkF=mkF, arity=arity, tag_all=tag_all):
                F = mkF()
                from ufl.algorithms import expand_derivatives
                Fe = _spec_form(F)
                allb = extract_blocks(F)
                rows = len(allb)
                if arity == 2 and len({len(r) for r in allb}) > 1:
                    return violated(f"{tag_all}: extract_blocks(F) is ragged: rows of lengths {[len(r) for r in allb]}", replay={"form": fname}, reproduced=True, backend="structural")
                n_ = 0
                total = None
                empty = lambda x_: x_ is None or (hasattr(x_, "integrals") and not x_.integrals())     # noqa: E731
                for a_ in range(rows):
                    for b_ in (range(len(allb[a_])) if arity == 2 else (None,)):
                        got = allb[a_][b_] if arity == 2 else allb[a_]
                        one = extract_blocks(F, a_, b_) if arity == 2 else extract_blocks(F, a_)
                        n_ += 1
                        if empty(got) != empty(one) or (not empty(got) and not got.equals(one)):
                            return violated(f"{tag_all}: extract_blocks(F)[{a_}]{'' if b_ is None else f'[{b_}]'} = {str(got)[:120]} but extract_blocks(F, {a_}{'' if b_ is None else f', {b_}'}) = {str(one)[:120]}",
                                            replay={"form": fname, "block": [a_, b_]}, reproduced=True, backend="exec")
                        if not empty(got):
                            total = got if total is None else total + got
                return check_form(world(), 0 if total is None else total, lambda w, key: part_sum(in_world(w, world()), form_parts(Fe).get(key, [])), [Fe], tag_all, tmo)
            run.add(tag_all, all_thunk, kind="values")
    mfs_route()

    def canary():
        M = ufl.FunctionSpace(tri, E.MixedElement([P1, P1]))
        v, u = TestFunction(M), TrialFunction(M)
        F = u[0] * v[1] * dx
        blk = extract_blocks(F, 0, 0)       # block (0,0) is empty; claiming it equals block (1,0)'s content must be refuted

        def mk(symbolic, valuation):
            w = World(symbolic=symbolic, complex_mode=False, valuation=valuation)
            w.terminal_hook = atoms_hook
            return w
        return check_form(mk, blk, lambda w, key: part_sum(w, form_parts(F).get(key, [])), [F], "canary: empty block is not the form")
    run.add("canary/empty-block", canary, kind="canary")
