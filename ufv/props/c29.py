"""C29 — commutative constructors are order independent.

Functions under contract: cmp_expr, every terminal comparator (_cmp_multi_index, _cmp_label, _cmp_coefficient, _cmp_constant,
_cmp_argument, _cmp_zero, _cmp_geometric_quantity, _cmp_terminal_by_repr, every entry of _terminal_cmps), sorted_expr,
Sum.__new__, Product.__new__, Inner.__new__.

Contract
  (1) every terminal comparator is a three-way total preorder on its class: cmp(a,b) = -cmp(b,a); cmp(a,b)<=0 & cmp(b,c)<=0 => cmp(a,c)<=0
      -- the real comparators run path-exhaustively on z3 integer proxies (all counter / number / shape values);
  (2) Lemma (Lean, lemmas/LexOrder.lean): the lexicographic composition of antisymmetric, transitive three-way comparators is
      antisymmetric and transitive;
  (3) cmp_expr(a, b) == lex(token-cmp, ser(a), ser(b)) where ser is the spec serialisation (type code, arity, terminal; children last to
      first) -- compared on all pairs of a DAG family (bounded), together with antisymmetry/transitivity on all triples and
      `a == b => cmp 0`, `cmp 0 => a, b equal up to index / label numbers`;
  (4) constructors: for all ordered pairs of operands with cmp != 0 (or equal operands): Sum(a,b) == Sum(b,a), Product(a,b) == Product(b,a),
      {Inner(a,b), Inner(b,a)} == {X, Conj(X)}, with equal hash and repr.
"""
from __future__ import annotations

import ast
import inspect
import itertools
import os
import subprocess
import textwrap
import types

import z3

import ufl
import ufl.classes as C
import ufl.sorting as SRT
from ufl.core.multiindex import FixedIndex, Index, MultiIndex

from ufv import sigforms as S
from ufv.core import bounded_ok, proved, undecided, violated
from ufv.symx import SymInt, explore

ROOT = os.path.dirname(os.path.dirname(os.path.dirname(os.path.abspath(__file__))))

LEVEL = "other"
TECHNIQUE = ("total-preorder contract on the real comparators: terminal comparators proved antisymmetric and transitive on z3 integer proxies "
             "(path-exhaustive, unbounded); lexicographic-composition lemma proved in Lean; cmp_expr compared with the spec lexicographic "
             "serialisation, and Sum/Product/Inner order independence, on all pairs/triples of an expression family (bounded)")
LEVEL_TEXT = ("Comparator laws hold for all integer field values; the loop of cmp_expr is related to the Lean-proved lexicographic order only "
              "on an enumerated family of DAGs (bounded stand-in for the loop invariant).")
LEVEL_NOTE = "Trusted: ufv/symx.py proxies, z3, the Lean kernel, Python's total order on str; the DAG family is finite."
TRUSTED = ["ufv/symx.py integer proxies", "z3", "Lean 4.33 kernel (lemmas/LexOrder.lean)", "CPython str ordering is a total order"]
ASSUMPTIONS = ["counted terminals with equal counts are equal objects (counts are identities)", "multi-indices / shapes up to length 2 in the symbolic comparator proofs",
               "cmp_expr loop vs lexicographic spec: enumerated DAG family only (bounded)"]
EXPLANATION = ("The canonical operand order is a consistent total preorder (terminal comparators proved, composition lemma proved, loop "
               "checked against the spec on a family), so Sum/Product/Inner built from the same distinguishable operands in either order coincide.")


def fixed(v):
    o = object.__new__(FixedIndex)
    o._value = v
    return o


def build(run):
    for f in (SRT.cmp_expr, SRT._cmp_multi_index, SRT._cmp_label, SRT._cmp_coefficient, SRT._cmp_argument, SRT._cmp_terminal_by_repr, SRT.sorted_expr,
              C.Sum.__new__, C.Product.__new__, C.Inner.__new__):
        run.function(f)
    for nm in ("_cmp_constant", "_cmp_zero", "_cmp_geometric_quantity"):
        if hasattr(SRT, nm):
            run.function(getattr(SRT, nm))

    # ------------------------------------------------------------------ (1) comparator laws on proxies
    def laws(name, cmp, mk3, same=None):
        """mk3() -> three fresh symbolic objects; same(A, B) -> do the identity fields agree (separation law: cmp == 0 only then)"""
        def thunk():
            n = 0
            checks = [("antisymmetry", lambda: (lambda A, B, Cc: (cmp(A, B), cmp(B, A)))(*mk3())),
                      ("transitivity", lambda: (lambda A, B, Cc: (cmp(A, B), cmp(B, Cc), cmp(A, Cc)))(*mk3())),
                      ("reflexivity", lambda: (lambda A, B, Cc: (cmp(A, A),))(*mk3()))]
            if same is not None:
                checks.append(("separation", lambda: (lambda A, B, Cc: (cmp(A, B), 0 if same(A, B) else 1))(*mk3())))
            for what, fn in checks:
                paths, complete = explore(fn, lambda: ())
                if not complete:
                    return undecided(f"{name}: path cap in {what}")
                for p in paths:
                    if p.kind == "exc":
                        return undecided(f"{name}: comparator raised {type(p.value).__name__}: {p.value}")
                    r = p.value
                    n += 1
                    if any(x not in (-1, 0, 1) for x in r):
                        return violated(f"{name}: comparator returned {r}, not a three-way result", reproduced=False, backend="z3")
                    ok = (r[0] == -r[1]) if what == "antisymmetry" else ((not (r[0] <= 0 and r[1] <= 0)) or r[2] <= 0) if what == "transitivity" else \
                        (r[0] != 0 or r[1] == 0) if what == "separation" else r[0] == 0
                    if not ok:
                        s = z3.Solver()
                        s.add(*p.pc)
                        model = {}
                        if s.check() == z3.sat:
                            m = s.model()
                            model = {d.name(): str(m[d]) for d in m.decls()}
                        return violated(f"{name} violates {what}: results {r} at {model}", replay={"comparator": name, "law": what, "results": list(r), "model": model},
                                        reproduced=False, backend="z3")
            return proved("z3(path-exhaustive)", vcs=n, sample=f"{name}: antisymmetric, transitive and reflexive on {n} feasible paths (all field values)")
        run.add(f"comparator-laws/{name}", thunk, kind="proof")

    class _Counted:           # stand-in for a counted terminal: private field and public accessor, as the real classes have
        def __init__(self, c):
            self._count = c

        def count(self):
            return self._count

    class _Arg:
        def __init__(self, n_, p_):
            self._number, self._part = n_, p_

        def number(self):
            return self._number

        def part(self):
            return self._part

    def counted3():
        return [_Counted(SymInt(n)) for n in "abc"]
    same_count = lambda A, B: A._count == B._count                                                    # noqa: E731
    same_arg = lambda A, B: (A._number == B._number) and (A._part is None or A._part == B._part)      # noqa: E731
    contracts = {}
    laws("_cmp_coefficient", SRT._cmp_coefficient, counted3, same_count)
    contracts[SRT._cmp_coefficient] = 1
    laws("_cmp_label", SRT._cmp_label, counted3)       # labels (like free-index numbers) are deliberately not separated
    contracts[SRT._cmp_label] = 1
    if hasattr(SRT, "_cmp_constant"):
        laws("_cmp_constant", SRT._cmp_constant, counted3, same_count)
        contracts[SRT._cmp_constant] = 1
    laws("_cmp_argument(int parts)", SRT._cmp_argument, lambda: [_Arg(SymInt(n + "n"), SymInt(n + "p")) for n in "abc"], same_arg)
    laws("_cmp_argument(no parts)", SRT._cmp_argument, lambda: [_Arg(SymInt(n + "n"), None) for n in "abc"], same_arg)
    contracts[SRT._cmp_argument] = 1
    for lens in itertools.product((1, 2), repeat=3):
        for kinds in itertools.product("fi", repeat=sum(lens)):
            ks = [kinds[:lens[0]], kinds[lens[0]:lens[0] + lens[1]], kinds[lens[0] + lens[1]:]]

            def mk(ks=ks):
                out = []
                for who, kk in zip("abc", ks):
                    out.append(types.SimpleNamespace(_indices=tuple(fixed(SymInt(f"{who}v{p}")) if k == "f" else Index(count=SymInt(f"{who}c{p}"))
                                                                    for p, k in enumerate(kk))))
                return out
            laws(f"_cmp_multi_index/{'-'.join(''.join(k) for k in ks)}", SRT._cmp_multi_index, mk)
    contracts[SRT._cmp_multi_index] = 1

    # discrimination: _cmp_multi_index may answer 0 only for multi-indices that agree in length, in which positions are fixed, and in every fixed value
    # (i.e. that differ at most in the NUMBERS of their free indices) -- otherwise distinguishable operands keep the caller's order
    def discriminates():
        from ufv.symx import prove as sprove
        n = 0
        for la, lb in itertools.product((1, 2, 3), repeat=2):
            for kinds in itertools.product("fi", repeat=la + lb):
                ka, kb = kinds[:la], kinds[la:]

                def mk2():
                    return [types.SimpleNamespace(_indices=tuple(fixed(SymInt(f"{who}v{p}")) if k == "f" else Index(count=SymInt(f"{who}c{p}")) for p, k in enumerate(kk)))
                            for who, kk in (("a", ka), ("b", kb))]
                holder = {}

                def fn():
                    A, B = mk2()
                    holder["ab"] = (A, B)
                    return SRT._cmp_multi_index(A, B)
                paths, complete = explore(fn, lambda: ())
                if not complete:
                    return undecided("path cap")
                for p in paths:
                    if p.kind == "exc":
                        return undecided(f"comparator raised {p.value}")
                    if p.value != 0:
                        continue
                    n += 1
                    if la != lb or any(x != y for x, y in zip(ka, kb)):
                        return violated(f"_cmp_multi_index answers 0 for multi-indices of kinds {''.join(ka)} vs {''.join(kb)} (f = fixed, i = free): they are distinguishable "
                                        "without comparing index numbers", replay={"kinds": [''.join(ka), ''.join(kb)]}, reproduced=False, backend="z3")
                    A, B = holder["ab"]
                    claims = [x._value.t == y._value.t for x, y, k in zip(A._indices, B._indices, ka) if k == "f"]
                    if claims:
                        st, model = sprove(list(p.pc), z3.And(*claims))
                        if st == "refuted":
                            return violated(f"_cmp_multi_index answers 0 for multi-indices {''.join(ka)} vs {''.join(kb)} that differ in a fixed index value: {model}",
                                            replay={"kinds": [''.join(ka), ''.join(kb)], "model": model}, reproduced=False, backend="z3")
                        if st != "proved":
                            return undecided("z3 unknown")
        return proved("z3(path-exhaustive)", vcs=n, sample=f"{n} zero-result paths: equal length, equal fixed pattern, equal fixed values")
    run.add("comparator-laws/_cmp_multi_index/zero-only-up-to-free-index-numbers", discriminates, kind="proof")
    if hasattr(SRT, "_cmp_zero"):
        for lens in itertools.product((0, 1, 2), repeat=3):
            def mkz(lens=lens):
                return [types.SimpleNamespace(ufl_shape=tuple(SymInt(f"{who}s{p}") for p in range(ln)), ufl_index_dimensions=(SymInt(f"{who}d"),),
                                              ufl_free_indices=(SymInt(f"{who}i"),)) for who, ln in zip("abc", lens)]
            laws(f"_cmp_zero/shape-lengths{lens}", SRT._cmp_zero, mkz)
        contracts[SRT._cmp_zero] = 1
    if hasattr(SRT, "_cmp_geometric_quantity"):
        def mkg():
            out = []
            for who in "abc":
                key = (2, 2, "Mesh", (SymInt(f"{who}id"), "element"))
                out.append(types.SimpleNamespace(_domain=types.SimpleNamespace(_ufl_sort_key_=lambda key=key: key)))
            return out
        laws("_cmp_geometric_quantity", SRT._cmp_geometric_quantity, mkg)
        contracts[SRT._cmp_geometric_quantity] = 1

    def by_repr():
        """_cmp_terminal_by_repr(a, b) == three-way comparison of repr(a), repr(b): checked by execution on objects with controlled reprs"""
        class R:
            def __init__(self, s_):
                self.s = s_

            def __repr__(self):
                return self.s
        strs = ["", "a", "b", "ab", "a0", "a9", "a10", "A", "Zero((), (9,), (2,))", "Zero((), (10,), (2,))", "IntValue(2)", "IntValue(10)", "é", "~", " ", "aa", "a ", "Mesh(x, 9)", "Mesh(x, 10)"]
        n = 0
        for x_, y_ in itertools.product(strs, repeat=2):
            want = -1 if x_ < y_ else (0 if x_ == y_ else 1)
            got = SRT._cmp_terminal_by_repr(R(x_), R(y_))
            n += 1
            if got != want:
                return violated(f"_cmp_terminal_by_repr on reprs {x_!r}, {y_!r} returns {got}, the three-way string comparison is {want}",
                                replay={"reprs": [x_, y_], "got": got, "want": want}, reproduced=True, backend="exec")
        return proved("exec", vcs=n, sample=f"{n} pairs of reprs: result is the three-way comparison of the repr strings (a total order on str)")
    run.add("comparator-laws/_cmp_terminal_by_repr", by_repr, kind="proof")
    contracts[SRT._cmp_terminal_by_repr] = 1

    def coverage():
        missing = sorted({f.__name__ for f in SRT._terminal_cmps.values() if f not in contracts})
        src = inspect.getsource(SRT.cmp_expr)
        called = sorted({n.func.id for n in ast.walk(ast.parse(textwrap.dedent(src))) if isinstance(n, ast.Call) and isinstance(n.func, ast.Name) and n.func.id.startswith("_cmp")})
        missing += [c for c in called if getattr(SRT, c) not in contracts]
        if missing:
            return undecided(f"terminal comparators without a contract in this check: {missing}")
        return proved("ast", vcs=len(contracts), sample=f"all {len(SRT._terminal_cmps)} dispatch entries and {called} have comparator-law obligations")
    run.add("comparator-laws/coverage-of-dispatch-table", coverage, kind="proof")

    # ------------------------------------------------------------------ (2) Lean lemma
    def lean():
        p = os.path.join(ROOT, "lemmas", "LexOrder.lean")
        try:
            r = subprocess.run(["lean", p], capture_output=True, text=True, timeout=300)
        except Exception as ex:  # noqa: BLE001
            return undecided(f"lean not runnable: {ex}")
        if r.returncode == 0 and "error" not in (r.stdout + r.stderr) and "sorry" not in open(p).read():
            return proved("lean4", vcs=3, sample="LexOrder.lex_antisymm, lex_ranged, lex_trans: lexicographic composition of three-way preorders is a three-way preorder")
        return undecided(f"lean rejected the lemma file: {(r.stdout + r.stderr)[:400]}")
    run.add("lemma/lexicographic-composition(lean)", lean, kind="proof")

    # ------------------------------------------------------------------ (3) cmp_expr vs the lexicographic spec
    def family():
        S.set_counters({k: 20 for k in S.COUNTER_FAMILIES})
        m, m2 = S.new_mesh(), S.new_mesh()
        V, W, T = ufl.FunctionSpace(m, S.L(ufl.triangle, 1)), ufl.FunctionSpace(m, S.L(ufl.triangle, 1, (2,))), ufl.FunctionSpace(m, S.L(ufl.triangle, 1, (2, 2)))
        f, g, u, w, A, B = ufl.Coefficient(V), ufl.Coefficient(V), ufl.Coefficient(W), ufl.Coefficient(W), ufl.Coefficient(T), ufl.Coefficient(T)
        c1, c2 = ufl.Constant(m), ufl.Constant(m)
        v = ufl.TestFunction(V)
        i, j = Index(), Index()
        x = ufl.SpatialCoordinate(m)
        scal = [f, g, c1, c2, v, C.IntValue(2), C.FloatValue(0.5), x[0], x[1], u[0], u[1], w[0], ufl.CellVolume(m), ufl.CellVolume(m2), ufl.Circumradius(m),
                u[i] * w[i], u[j] * w[j], A[i, i], A[0, 1], ufl.FacetNormal(m)[0],
                # literals that a comparator could conflate: same real part, repr order != numeric order, sign, int vs float
                C.ComplexValue(1 + 2j), C.ComplexValue(1 - 2j), C.ComplexValue(0.5 + 1j), C.IntValue(9), C.IntValue(10), C.IntValue(-2),
                C.FloatValue(-0.5), C.FloatValue(2.5),
                # floats that agree in their first 15, 16 significant digits (distinct doubles are distinct operands), very large / small magnitudes
                C.FloatValue(0.1 + 0.2), C.FloatValue(0.3), C.FloatValue(1.0000000000000002), C.FloatValue(1.0000000000000004), C.FloatValue(1e-300), C.FloatValue(1.0000000000000002e-300),
                C.FloatValue(123456789012345.67), C.FloatValue(123456789012345.69)]
        # arguments that differ only in their part (blocks of a MixedFunctionSpace) or only in their number
        scal += [C.Argument(V, 3, 0), C.Argument(V, 3, 1), C.Argument(V, 4, 0), C.Argument(V, 2, None), C.Argument(V, 3, 2)]      # (one number: parts all None or all int)
        zf = [C.Product(C.ComplexValue(1 + 2j), f), C.Product(C.ComplexValue(1 - 2j), f), C.Product(C.IntValue(9), g), C.Product(C.IntValue(10), g),
              C.Product(C.FloatValue(0.1 + 0.2), f), C.Product(C.FloatValue(0.3), f), C.Product(C.FloatValue(1.0000000000000002), v), C.Product(C.FloatValue(1.0000000000000004), v)]
        open_idx = [A[i, 0], A[j, 1], A[i, 1], A[0, i], A[1, j], u[i], w[j]]       # operands with free indices: differ in a fixed index after / before a free one
        lvl1 = list(zf)
        for a, b in itertools.product(scal[:9], repeat=2):
            lvl1 += [C.Division(a, b)]
        for a in scal[:12]:
            lvl1 += [ufl.sin(a), C.Power(a, C.IntValue(2)), C.Abs(a), ufl.variable(a), a("+") if not isinstance(a, C.ConstantValue) else a]
        lvl1 += [ufl.conditional(ufl.lt(f, g), f, g), ufl.conditional(ufl.lt(g, f), f, g), ufl.conditional(ufl.gt(f, g), c1, c2)]
        lvl1 += [C.ExprList(f), C.ExprList(f, g), C.ExprList(g, f, c1), ufl.diff(f * g, ufl.variable(f)) if False else f * g, f + g, g * c1, f * f, (f + g) * (f + c1)]
        tens = [u, w, A, B, ufl.as_vector([f, g]), ufl.as_vector([g, f]), ufl.as_vector([f, g, c1]), ufl.grad(f), ufl.grad(g), ufl.grad(u), A.T, ufl.as_tensor(A[i, j], (j, i)),
                ufl.as_tensor(A[j, i], (i, j)), x, ufl.FacetNormal(m), 2 * u, ufl.outer(u, w), ufl.outer(w, u), C.Identity(2), ufl.as_vector(u[i] * A[i, j], j)]
        # operands that contain structurally EQUAL but not identical subtrees (built twice), differing elsewhere
        twice = lambda: (g + c1) * f      # noqa: E731
        lvl1 += [C.Division(a_, twice()) for a_ in (f, g, c2, x[0])] + [C.Division(twice(), a_) for a_ in (f, g)] + [ufl.conditional(ufl.lt(twice(), c2), a_, twice()) for a_ in (f, g)]
        tens += [ufl.as_vector([twice(), a_]) for a_ in (f, g, c2)] + [ufl.as_vector([a_, twice()]) for a_ in (f, g)]
        tens += [ufl.as_tensor(A[i, 0], (i,)), ufl.as_tensor(A[j, 1], (j,)), ufl.as_tensor(A[0, i], (i,))]
        # variable-arity nodes one of whose operand lists is a PREFIX of the other's, the common operands being equal but separately built objects
        tens += [ufl.as_vector([twice(), g]), ufl.as_vector([twice(), g, c1]), ufl.as_vector([twice(), g, c1, f]), ufl.as_vector([2 * f, g]), ufl.as_vector([2 * f, g, c2])]
        lvl1 += [C.ExprList(twice(), f), C.ExprList(twice(), f, g), C.ExprList(twice()), C.ExprList(2 * f, twice()), C.ExprList(2 * f, twice(), c1)]
        lvl1 += [ufl.inner(ufl.as_vector([2 * f, g]), ufl.as_vector([2 * f, g])), ufl.inner(ufl.as_vector([2 * f, g, c1]), ufl.as_vector([2 * f, g, c1]))]
        tens += [C.Argument(W, 5, 0), C.Argument(W, 5, 1), C.Argument(W, 6, 1)]      # (one number and part: one space)
        lvl1 += [C.Product(C.IntValue(2), C.Argument(V, 3, 0)), C.Product(C.IntValue(2), C.Argument(V, 3, 1))]
        return [e for e in scal + lvl1 + open_idx if isinstance(e, C.Expr)], tens

    def tokens(e):
        """Spec serialisation: first-difference order of cmp_expr."""
        out = []
        stack = [e]
        while stack:
            n = stack.pop()
            out.append(("T", n._ufl_typecode_))
            if n._ufl_is_terminal_:
                out.append(("K", n))
            else:
                out.append(("L", len(n.ufl_operands)))
                stack.extend(n.ufl_operands)       # popped last-to-first, as in cmp_expr
        return out

    def tok_cmp(p, q):
        if p[0] != q[0]:
            return -1 if p[0] < q[0] else 1          # cannot happen before a typecode/arity difference; kept total
        if p[0] in ("T", "L"):
            return -1 if p[1] < q[1] else (1 if p[1] > q[1] else 0)
        a, b = p[1], q[1]
        tc = a._ufl_typecode_
        if tc in SRT._terminal_cmps:
            return SRT._terminal_cmps[tc](a, b)
        if hasattr(SRT, "_cmp_geometric_quantity") and isinstance(a, C.GeometricQuantity):
            return SRT._cmp_geometric_quantity(a, b)
        return SRT._cmp_terminal_by_repr(a, b)

    def lex(xs, ys):
        for p, q in zip(xs, ys):
            c = tok_cmp(p, q)
            if c:
                return c
        return -1 if len(xs) < len(ys) else (1 if len(xs) > len(ys) else 0)

    def same_modulo_numbers(a, b):
        if type(a) is not type(b):
            return False
        if isinstance(a, MultiIndex):
            return len(a) == len(b) and all((isinstance(p, FixedIndex) == isinstance(q, FixedIndex)) and (not isinstance(p, FixedIndex) or int(p) == int(q))
                                            for p, q in zip(a, b))
        if isinstance(a, C.Label):
            return True
        if isinstance(a, C.Zero):
            return a.ufl_shape == b.ufl_shape and a.ufl_index_dimensions == b.ufl_index_dimensions
        if a._ufl_is_terminal_:
            return a == b
        return len(a.ufl_operands) == len(b.ufl_operands) and all(same_modulo_numbers(p, q) for p, q in zip(a.ufl_operands, b.ufl_operands))

    def loop_vs_spec():
        scal, tens = family()
        xs = scal + tens
        ser = [tokens(e) for e in xs]
        n = len(xs)
        M = [[0] * n for _ in range(n)]
        cnt = 0
        for a_i in range(n):
            for b_i in range(n):
                r = SRT.cmp_expr(xs[a_i], xs[b_i])
                M[a_i][b_i] = r
                cnt += 1
                sp = lex(ser[a_i], ser[b_i])
                if r != sp:
                    return violated(f"cmp_expr({xs[a_i]}, {xs[b_i]}) = {r} but the lexicographic spec over the serialisation gives {sp}",
                                    replay={"a": repr(xs[a_i]), "b": repr(xs[b_i]), "got": r, "spec": sp}, reproduced=True, backend="exec")
                if xs[a_i] == xs[b_i] and r != 0:
                    return violated(f"equal expressions are ordered: cmp_expr({xs[a_i]}, {xs[b_i]}) = {r}", replay={"a": repr(xs[a_i]), "b": repr(xs[b_i])}, reproduced=True)
                if r == 0 and not same_modulo_numbers(xs[a_i], xs[b_i]):
                    return violated(f"cmp_expr cannot tell apart two expressions that differ in more than index/label numbers: {xs[a_i]} vs {xs[b_i]}",
                                    replay={"a": repr(xs[a_i]), "b": repr(xs[b_i])}, reproduced=True)
        for a_i in range(n):
            for b_i in range(n):
                if M[a_i][b_i] != -M[b_i][a_i]:
                    return violated(f"cmp_expr not antisymmetric on {xs[a_i]} / {xs[b_i]}", replay={"a": repr(xs[a_i]), "b": repr(xs[b_i])}, reproduced=True)
                if M[a_i][b_i] > 0:
                    continue
                for c_i in range(n):
                    if M[b_i][c_i] <= 0 and M[a_i][c_i] > 0:
                        return violated(f"cmp_expr not transitive: {xs[a_i]} <= {xs[b_i]} <= {xs[c_i]} but not {xs[a_i]} <= {xs[c_i]}",
                                        replay={"a": repr(xs[a_i]), "b": repr(xs[b_i]), "c": repr(xs[c_i])}, reproduced=True)
        return bounded_ok(cnt, f"all ordered pairs and triples of {n} expressions (terminals, one level of operators, tensors, variable-arity nodes)",
                          sample="cmp_expr == lexicographic spec; antisymmetric; transitive; equal => 0; 0 => equal up to index/label numbers")
    run.add("cmp_expr/loop-vs-lexicographic-spec", loop_vs_spec, kind="bounded")

    # ------------------------------------------------------------------ (4) constructors
    def ctor(name, make, pool_of, inner=False):
        def thunk():
            scal, tens = family()
            pool = pool_of(scal, tens)
            n = skipped = 0
            for a, b in itertools.combinations(pool, 2):
                try:
                    ab = make(a, b)
                except (ValueError, ufl.log.UFLException if hasattr(ufl, "log") else ValueError):
                    continue
                ba = make(b, a)
                c = SRT.cmp_expr(a, b)
                if c == 0 and a != b:
                    skipped += 1      # only distinguishable by index / label numbers (checked in loop-vs-spec): outside the property's premise
                    continue
                n += 1
                if inner and a.ufl_shape != ():
                    ok = (ab == C.Conj(ba)) or (ba == C.Conj(ab)) or ab == ba
                    base = ab if isinstance(ab, C.Inner) else ba
                    ok = ok and isinstance(base, C.Inner) and SRT.cmp_expr(*base.ufl_operands) <= 0
                else:
                    ok = (ab == ba) and hash(ab) == hash(ba) and repr(ab) == repr(ba)
                if not ok:
                    return violated(f"{name} depends on operand order: {name}({a}, {b}) = {ab!s} but {name}({b}, {a}) = {ba!s}",
                                    replay={"a": repr(a), "b": repr(b), "ab": repr(ab), "ba": repr(ba)}, reproduced=True, backend="exec")
            if n == 0:
                return undecided("no admissible pair")
            return bounded_ok(n, f"all unordered pairs of {len(pool)} operands ({skipped} pairs distinguishable only by index/label numbers skipped)",
                              sample=f"{name}(a,b) and {name}(b,a) coincide")
        run.add(f"constructor/{name}", thunk, kind="bounded")
    def free(e):
        try:
            return e.ufl_free_indices == () and e.ufl_shape == ()
        except ValueError:
            return False
    ctor("Sum", lambda a, b: C.Sum(a, b), lambda s, t: [e for e in s if free(e)])
    ctor("Sum(tensors)", lambda a, b: C.Sum(a, b), lambda s, t: [e for e in t if e.ufl_shape == (2,)])
    ctor("Product", lambda a, b: C.Product(a, b), lambda s, t: [e for e in s if free(e)])

    def open_pool(s_, t_):
        return [e for e in s_ if isinstance(e, C.Indexed) and e.ufl_free_indices and len(e.ufl_free_indices) == 1]
    ctor("Product(operands with free indices)", lambda a, b: C.Product(a, b) if a.ufl_free_indices != b.ufl_free_indices else (_ for _ in ()).throw(ValueError("same index")), open_pool)
    ctor("Inner", lambda a, b: C.Inner(a, b), lambda s, t: [e for e in t if e.ufl_shape == (2,)] + [e for e in t if e.ufl_shape == (2, 2)], inner=True)
    ctor("operator +", lambda a, b: a + b, lambda s, t: [e for e in s if free(e)])
    ctor("operator *", lambda a, b: a * b, lambda s, t: [e for e in s if free(e)])
    ctor("ufl.inner", lambda a, b: ufl.inner(a, b), lambda s, t: [e for e in t if e.ufl_shape == (2,)], inner=True)


    # ---- histories: operands of user subclasses of Coefficient / Constant (as form compilers' Function / Constant classes are), created from a FRESH counter
    # state in every order relative to plain ones: distinct operands are always separated by the canonical order, so the constructors stay order independent
    def subclass_histories():
        import ufl.utils.counted as _cnt

        def fresh():
            seen, todo = set(), [_cnt.Counted]
            while todo:
                c_ = todo.pop()
                for sub in c_.__subclasses__():
                    if sub not in seen:
                        seen.add(sub)
                        todo.append(sub)
            for c_ in seen:
                if "_counter" in c_.__dict__:
                    try:
                        delattr(c_, "_counter")
                    except AttributeError:
                        pass

        class OtherUserCoefficient(ufl.Coefficient):
            pass
        n = 0
        makers = {"c": lambda V_, m_: ufl.Coefficient(V_), "u": lambda V_, m_: S.UserCoefficient(V_), "o": lambda V_, m_: OtherUserCoefficient(V_),
                  "k": lambda V_, m_: ufl.Constant(m_), "K": lambda V_, m_: S.UserConstant(m_)}
        for order in ("uc", "cu", "uo", "ou", "uuc", "ouc", "Kk", "kK", "KKk", "ucKk", "oukK"):
            fresh()
            m = S.new_mesh()
            spaces_ = [ufl.FunctionSpace(m, S.L(ufl.triangle, d_)) for d_ in (1, 2, 3, 1, 2)]
            objs = [makers[ch](spaces_[k_ % len(spaces_)], m) for k_, ch in enumerate(order)]
            for a_i, a in enumerate(objs):
                for b in objs[a_i + 1:]:
                    if a.ufl_shape != b.ufl_shape:
                        continue
                    n += 1
                    c1, c2 = SRT.cmp_expr(a, b), SRT.cmp_expr(b, a)
                    if c1 == 0 or c1 != -c2:
                        return violated(f"creation order '{order}' from a fresh counter state (c/u/o: plain / user / other user coefficient, k/K: plain / user constant): the distinct "
                                        f"operands {a!r:.60} and {b!r:.60} are not separated by cmp_expr ({c1}, {c2}); counts {a.count()} and {b.count()}",
                                        replay={"order": order, "counts": [a.count(), b.count()]}, reproduced=True, backend="exec")
                    for nm_, mk_ in (("Sum", lambda x, y: C.Sum(x, y)), ("Product", lambda x, y: C.Product(x, y)), ("+", lambda x, y: x + y), ("*", lambda x, y: x * y)):
                        r1, r2 = mk_(a, b), mk_(b, a)
                        if repr(r1) != repr(r2):
                            return violated(f"creation order '{order}': {nm_}(a, b) and {nm_}(b, a) differ for a = {a!r:.50}, b = {b!r:.50}: {str(r1)} vs {str(r2)}",
                                            replay={"order": order, "constructor": nm_}, reproduced=True, backend="exec")
        return bounded_ok(n, "11 creation orders of plain / user-subclass coefficients and constants from a fresh counter state", sample="distinct operands separated; Sum / Product order independent")
    run.add("constructor/user-subclass-creation-histories", subclass_histories, kind="bounded")

    def canary():
        A, B = types.SimpleNamespace(_count=1), types.SimpleNamespace(_count=2)
        if SRT._cmp_coefficient(A, B) == SRT._cmp_coefficient(B, A):
            return proved("canary")
        return violated("canary refuted", reproduced=True)
    run.add("canary/cmp-symmetric", canary, kind="canary")
