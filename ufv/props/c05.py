"""C05 — operators build expressions with the mathematically intended value.

Functions under contract: Sum/Product/Division/Power/Abs/Conj/Real/Imag.__new__, Indexed.__new__ and every
_simplify_indexed, IndexSum.__new__, ListTensor.__new__, ComponentTensor.__new__, Conditional.__new__, Zero/
IntValue/FloatValue/ComplexValue.__new__, as_ufl, Restricted.__new__, Transposed/Outer/Inner/Dot/... .__new__ (zero paths),
exproperators._mult/_getitem/_div/_pow/_neg/_as_tensor/_dx-free parts, as_tensor/as_vector/as_matrix, math-function
constant folding, and index_combination_utils.

Contract per constructor C(args): raises (a refusal), or returns r with the shape, free indices and index dimensions of the
requested operation and  forall components, index values, operand values:  den(r) == op_C(den args),
where op_C is written here from the language definition (pointwise sum, product with merged indices, removed index for
IndexSum/ComponentTensor, ...).  Operands range over the classes the constructors branch on (opaque, Zero, literals,
Conj/Abs/Real/Imag of opaque, Indexed/ListTensor/ComponentTensor/IndexSum/Sum-valued tensors) with adversarial index
patterns (shared, repeated, permuted, shadowed indices).
"""
from __future__ import annotations

import cmath
import itertools
import math

import ufl
import ufl.classes as C
import ufl.index_combination_utils as ICU
from ufl.constantvalue import as_ufl
from ufl.core.multiindex import FixedIndex, Index, MultiIndex
from ufl.tensors import as_matrix, as_tensor, as_vector

from ufv import num as N
from ufv.core import bounded_ok, crash_text, deliberate, proved, undecided, violated
from ufv.den import World, _power, cond, den, mi_values
from ufv.opq import Opq
from ufv.semv import check_same, complex_world, real_world
from ufv.symx import SymInt, explore, prove, term

import z3

LEVEL = "other"
TECHNIQUE = ("contract VCs on the real constructors/operators: run on operands drawn from the AST-derived case partition (opaque, Zero, "
             "literal, modifier-wrapped, list/component/indexed tensors, adversarial index patterns); den(result) == intended operation on "
             "den(operands), shape and free indices, for all values (z3 / polynomial normaliser); index utilities by path-exhaustive "
             "symbolic execution; literal and math-function folding numerically (bounded)")
LEVEL_TEXT = ("All-values proofs per (constructor, operand-class cell, shape, index pattern); tensor ranks <= 2 (3 for nesting), index "
              "dimensions {2,3}. Float constant folding is checked numerically over a finite literal set (bounded).")
LEVEL_NOTE = ("Trusted: ufv/den.py (semantics of the node types), the op_C specs in this file, z3. Shapes enumerated; float folding "
              "numeric with relative tolerance 1e-12; operand classes as listed.")
TRUSTED = ["ufv/den.py", "operation specs in ufv/props/c05.py", "z3, ufv/alg.py"]
ASSUMPTIONS = ["tensor ranks <= 2 (<= 3 for list nesting), index dimensions from {2,3}", "float literals denote the rationals they round from",
               "constant folding of float/complex literals and math functions: finite literal set, numeric comparison (bounded)",
               "preconditions: matching dimensions for identical free-index ids"]
EXPLANATION = ("Constructors with eager simplification are run on every operand class they distinguish and on adversarial index "
               "patterns; the returned term must denote the requested operation for all operand values, with the requested shape and "
               "free indices.")

I, J, K, L = Index(), Index(), Index(), Index()


def fi_of(*pairs):
    """sorted ((id, dim)) union; pairs: iterables of (id, dim)."""
    d = {}
    for p in pairs:
        for i, n in p:
            d[i] = n
    ks = sorted(d)
    return tuple(ks), tuple(d[k] for k in ks)


def fip(e):
    return list(zip(e.ufl_free_indices, e.ufl_index_dimensions))


def build(run):
    thorough = run.tier == "thorough"
    tmo = 20000
    for f in (C.Sum.__new__, C.Product.__new__, C.Division.__new__, C.Power.__new__, C.Abs.__new__, C.Conj.__new__, C.Real.__new__,
              C.Imag.__new__, C.Indexed.__new__, C.IndexSum.__new__, C.ListTensor.__new__, C.ComponentTensor.__new__,
              C.Conditional.__new__, C.Zero.__new__, C.IntValue.__new__, C.FloatValue.__new__, C.ComplexValue.__new__, as_ufl,
              C.Sum._simplify_indexed, C.ListTensor._simplify_indexed, C.ComponentTensor._simplify_indexed, C.IndexSum._simplify_indexed,
              C.Restricted.__new__, C.Transposed.__new__, C.Outer.__new__, C.Inner.__new__, C.Dot.__new__, C.Trace.__new__,
              C.ListTensor.__getitem__, as_tensor, as_vector, as_matrix, C.Identity.__getitem__, C.PermutationSymbol.__getitem__):
        run.function(f)
    import ufl.exproperators as XO
    for nm in ("_mult", "_getitem", "_div", "_pow", "_neg", "_as_tensor", "_add", "_sub", "_rsub", "_rdiv", "_rpow", "_transpose"):
        run.function(getattr(XO, nm))
    for nm in ("unique_sorted_indices", "merge_unique_indices", "remove_indices", "create_slice_indices", "merge_nonoverlapping_indices",
               "merge_overlapping_indices"):
        run.function(getattr(ICU, nm))

    REFUSE = (ValueError,)

    def case(name, mk, spec, shape_fi, modes=("real",), kind="values", allow_refusal=True):
        """mk() -> (operands, thunk building r) ; spec(w, ops, c, env) ; shape_fi(ops) -> (shape, fi, fid)"""
        for mode in modes:
            tag = f"{name}/{mode}"

            def thunk(mode=mode, tag=tag):
                ops, call = mk()
                try:
                    r = call(ops)
                except REFUSE as ex:
                    if not deliberate(ex):
                        return violated(f"crash instead of a result or a refusal: {crash_text(ex)}", reproduced=True, backend="exec")
                    if allow_refusal:
                        return proved("refused", sample=f"{tag}: raises {type(ex).__name__}: {ex}"[:200])
                    return violated(f"{tag}: refused a valid request: {ex}", replay={"operands": [repr(o) for o in ops]}, reproduced=True)
                except Exception as ex:  # noqa: BLE001
                    return violated(f"{tag}: constructor crashed with {type(ex).__name__}: {ex}",
                                    replay={"operands": [repr(o)[:300] for o in ops]}, reproduced=True, backend="exec")
                sh, fi, fid = shape_fi(ops)
                mkw = (real_world if mode == "real" else complex_world)()
                return check_same(mkw, r, lambda w, c, env: spec(w, ops, c, env), sh, fi, fid, timeout_ms=tmo, what=tag)
            run.add(tag, thunk, kind=kind)

    # ------------------------------------------------------------------ operand classes
    def scalar_operands(nm, fi=(), fid=()):
        """operand classes a scalar-constructor can distinguish"""
        o = Opq(nm, (), fi, fid)
        yield "opq", o
        zfi = tuple(sorted(i.count() for i in fi))
        zfid = tuple(d for _, d in sorted(zip((i.count() for i in fi), fid)))
        yield "zero", C.Zero((), zfi, zfid)
        if not fi:
            for v in (1, -1, 2, 0.5, 2 + 1j):
                yield f"lit[{v}]", as_ufl(v)
        yield "conj", C.Conj(o)
        yield "abs", C.Abs(o)
        yield "real", C.Real(o)
        yield "imag", C.Imag(o)
        yield "sum", C.Sum(o, Opq(nm + "2", (), fi, fid))

    D = den

    # ---- binary algebra
    def binary(clsname, cls, spec, fis):
        for (fia, fida), (fib, fidb) in fis:
            for (na, a), (nb, b) in itertools.product(scalar_operands("a", fia, fida), scalar_operands("b", fib, fidb)):
                if not thorough and na in ("real", "imag", "sum") and nb in ("real", "imag", "sum"):
                    continue
                cplx = any("2+1j" in n.replace(" ", "") or n in ("conj", "real", "imag", "abs") or "lit[(2+1j)]" in n for n in (na, nb))
                nm = f"{clsname}[{na},{nb}]/fi[{len(fia)},{len(fib)}]" + ("s" if fia and fia == fib else "") + \
                    ("(reverse creation order)" if fia and fib and len(fia) == len(fib) == 1 and fia[0].count() > fib[0].count() else "")
                case(nm, (lambda a=a, b=b: ([a, b], lambda o: cls(o[0], o[1]))), spec,
                     lambda o: ((),) + fi_of(fip(o[0]), fip(o[1])), modes=("complex",) if cplx else ("real",))
    FIS_SAME = [(((), ()), ((), ())), (((I,), (2,)), ((I,), (2,)))]
    FIS_MIX = [(((), ()), ((), ())), (((I,), (2,)), ((J,), (3,))), (((I,), (2,)), ((I,), (2,))), (((I, J), (2, 3)), ((J,), (3,))),
               (((J,), (3,)), ((I,), (2,)))]          # the last one: the first operand's index was created after the second operand's, other extent
    binary("Sum", C.Sum, lambda w, o, c, e: N.add(D(w, o[0], c, e), D(w, o[1], c, e)), FIS_SAME)
    binary("Product", C.Product, lambda w, o, c, e: N.mul(D(w, o[0], (), e), D(w, o[1], (), e)), FIS_MIX)

    def div_spec(w, o, c, e):
        b = D(w, o[1], (), e)
        w.require(N.cmp("!=", b, 0))
        return N.div(D(w, o[0], (), e), b)
    binary("Division", C.Division, div_spec, [(((), ()), ((), ())), (((I,), (2,)), ((), ()))])

    # Sum of tensors
    for (na, a), (nb, b) in itertools.product([("opq", Opq("a", (2,))), ("zero", C.Zero((2,)))], [("opq", Opq("b", (2,))), ("zero", C.Zero((2,)))]):
        case(f"Sum[vec:{na},{nb}]", (lambda a=a, b=b: ([a, b], lambda o: C.Sum(o[0], o[1]))),
             lambda w, o, c, e: N.add(D(w, o[0], c, e), D(w, o[1], c, e)), lambda o: ((2,), (), ()))

    # Power: exponent classes
    for (na, a) in [("opq", Opq("a")), ("zero", C.Zero()), ("lit[2]", as_ufl(2)), ("lit[0.5]", as_ufl(0.5)), ("lit[-2]", as_ufl(-2))]:
        for (nb, b) in [("opq", Opq("b")), ("zero", C.Zero()), ("lit[1]", as_ufl(1)), ("lit[2]", as_ufl(2)), ("lit[3]", as_ufl(3)),
                        ("lit[-1]", as_ufl(-1)), ("lit[0.5]", as_ufl(0.5)), ("lit[2.0]", as_ufl(2.0))]:
            if na.startswith("lit") and nb.startswith("lit"):
                continue   # literal folding: numeric obligation below

            def pspec(w, o, c, e):
                if isinstance(o[0], C.Zero) and isinstance(o[1], C.ScalarValue):
                    return 0   # 0**positive = 0 (non-positive exponents are refused)
                return _power(w, D(w, o[0], (), e), o[1], lambda x, cc=(), en=None: D(w, x, cc, e))
            case(f"Power[{na},{nb}]", (lambda a=a, b=b: ([a, b], lambda o: C.Power(o[0], o[1]))), pspec, lambda o: ((), (), ()))

    # ---- unary
    def unary_ops():
        for sh in ((), (2,)):
            o = Opq("a", sh)
            yield f"opq{sh}", o
            yield f"zero{sh}", C.Zero(sh)
            yield f"conj{sh}", C.Conj(o)
            yield f"abs{sh}", C.Abs(o)
            yield f"real{sh}", C.Real(o)
            yield f"imag{sh}", C.Imag(o)
            yield f"conjconj{sh}", C.Conj(C.Sum(o, Opq("b", sh)))
        for v in (1, -2, 0.5, -0.25, 1 + 2j, -3j):
            yield f"lit[{v}]", as_ufl(v)
        oi = Opq("a", (), (I,), (2,))
        yield "opq_i", oi
        yield "zero_i", C.Zero((), (I.count(),), (2,))
    for clsname, cls, op in [("Abs", C.Abs, lambda w, x: N.absval(x, w.funcs)), ("Conj", C.Conj, lambda w, x: N.conj(x)),
                             ("Real", C.Real, lambda w, x: N.real(x)), ("Imag", C.Imag, lambda w, x: N.imag(x))]:
        for na, a in unary_ops():
            if clsname == "Abs" and "j)" in na:
                continue      # |complex literal| folds to a float: numeric obligation 'literal-and-math-folding'
            case(f"{clsname}[{na}]", (lambda a=a, cls=cls: ([a], lambda o: cls(o[0]))),
                 (lambda w, o, c, e, op=op: op(w, D(w, o[0], c, e))), lambda o: (o[0].ufl_shape,) + fi_of(fip(o[0])), modes=("complex",))

    # ---- Indexed
    A23 = Opq("A", (2, 3))
    A33 = Opq("A", (3, 3))
    a_k23 = Opq("A", (2, 3), (K,), (2,))

    def tensors():
        yield "opq", A23
        yield "zero", C.Zero((2, 3))
        yield "zero_k", C.Zero((2, 3), (K.count(),), (2,))
        yield "opq_k", a_k23
        yield "list", C.ListTensor(C.ListTensor(Opq("a"), Opq("b"), Opq("c")), C.ListTensor(Opq("d"), Opq("e"), Opq("f")))
        yield "list[vecrows]", C.ListTensor(Opq("r0", (3,)), Opq("r1", (3,)))
        yield "ct", C.ComponentTensor(Opq("s", (), (I, J), (2, 3)), MultiIndex((I, J)))
        yield "ct[perm]", C.ComponentTensor(Opq("s", (), (I, J), (3, 2)), MultiIndex((J, I)))
        yield "ct[indexed,perm]", C.ComponentTensor(C.Indexed(Opq("B", (3, 2)), MultiIndex((J, I))), MultiIndex((I, J)))
        yield "ct[indexed(list)]", C.ComponentTensor(C.Indexed(C.ListTensor(Opq("r0", (3,)), Opq("r1", (3,))), MultiIndex((I, J))), MultiIndex((I, J)))
        yield "ct[partial]", C.ComponentTensor(Opq("s", (), (I, J, K), (2, 3, 2)), MultiIndex((I, J)))
        yield "sum", C.Sum(A23, Opq("B", (2, 3)))
        yield "indexsum", C.IndexSum(Opq("T", (2, 3), (L,), (2,)), MultiIndex((L,)))
        yield "indexsum[k]", C.IndexSum(Opq("T", (2, 3), (K,), (2,)), MultiIndex((K,)))     # bound index K
        yield "conj", C.Conj(A23)
        yield "variable", C.Variable(A23, C.Label(9001))
        yield "cond", C.Conditional(C.LT(Opq("p"), Opq("q")), A23, Opq("B", (2, 3)))
    MIS = [("0,1", (FixedIndex(0), FixedIndex(1))), ("i,1", (I, FixedIndex(1))), ("1,j", (FixedIndex(1), J)), ("i,j", (I, J)),
           ("j,i[sq]", None), ("k,1", (K, FixedIndex(1))), ("k,j", (K, J))]

    def indexed_spec(w, o, c, e):
        return D(w, o[0], mi_values(o[1], e), e)
    for (nt, T) in tensors():
        for (nm, mi) in MIS:
            if mi is None:
                continue
            def sfi(o):
                extra = [(i.count(), o[0].ufl_shape[pos]) for pos, i in enumerate(o[1]) if isinstance(i, Index)]
                return ((),) + fi_of(fip(o[0]), extra)
            case(f"Indexed[{nt}][{nm}]", (lambda T=T, mi=mi: ([T, MultiIndex(mi)], lambda o: C.Indexed(o[0], o[1]))), indexed_spec, sfi,
                 modes=("complex",) if nt == "conj" else ("real",))
    # diagonal / repeated index, square
    for (nt, T) in [("opq", A33), ("ct", C.ComponentTensor(Opq("s", (), (I, J), (3, 3)), MultiIndex((J, I)))),
                    ("list", C.ListTensor(Opq("r0", (3,)), Opq("r1", (3,)), Opq("r2", (3,))))]:
        case(f"Indexed[{nt}][k,k]", (lambda T=T: ([T, MultiIndex((K, K))], lambda o: C.Indexed(o[0], o[1]))), indexed_spec,
             lambda o: ((), (K.count(),), (3,)))

    # ---- IndexSum
    def isum_spec(w, o, c, e):
        (i,) = o[1]
        pos = o[0].ufl_free_indices.index(i.count())
        n = o[0].ufl_index_dimensions[pos]
        tot = 0
        for k in range(n):
            e2 = dict(e)
            e2[i.count()] = k
            tot = N.add(tot, D(w, o[0], c, e2))
        return tot

    def isum_fi(o):
        (i,) = o[1]
        return (o[0].ufl_shape,) + fi_of([(a, b) for a, b in fip(o[0]) if a != i.count()])
    ai, bi, aj, bij = Opq("a", (), (I,), (3,)), Opq("b", (), (I,), (3,)), Opq("a2", (), (J,), (2,)), Opq("b2", (), (I, J), (3, 2))
    for nm, s in [("opq_i", ai), ("zero_i", C.Zero((), (I.count(),), (3,))), ("zero_ij", C.Zero((), tuple(sorted((I.count(), J.count()))), (3, 2) if I.count() < J.count() else (2, 3))),
                  ("prod[a_i,b]", C.Product(ai, Opq("c"))), ("prod[a,b_i]", C.Product(Opq("c"), bi)), ("prod[a_i,b_i]", C.Product(ai, bi)),
                  ("prod[a_j,b_ij]", C.Product(aj, bij)), ("prod[a_i,b_ij]", C.Product(ai, bij)), ("vec_i", Opq("v", (2,), (I,), (3,))),
                  ("sum", C.Sum(ai, bi)), ("nested", C.IndexSum(bij, MultiIndex((J,)))), ("prod[prod]", C.Product(C.Product(ai, Opq("c")), aj))]:
        case(f"IndexSum[{nm}]", (lambda s=s: ([s, MultiIndex((I,))], lambda o: C.IndexSum(o[0], o[1]))), isum_spec, isum_fi)

    # ---- ListTensor
    def lt_spec(w, o, c, e):
        return D(w, o[c[0]], c[1:], e)

    def lt_fi(o):
        return ((len(o),) + o[0].ufl_shape,) + fi_of(fip(o[0]))
    A3 = Opq("A", (3,))
    A_i3 = Opq("A", (3,), (I,), (2,))
    T223s = Opq("T", (2, 2, 3))       # shared objects: the list-tensor shortcuts test operand identity with `is`
    T233s = Opq("T", (2, 3, 3))
    LT = [
        ("opqs", [Opq("a"), Opq("b")]), ("zeros", [C.Zero(), C.Zero()]), ("zeros[vec]", [C.Zero((2,)), C.Zero((2,))]),
        ("mixed-zero", [Opq("a"), C.Zero(), Opq("b")]),
        ("rows[identity]", [C.Indexed(A3, MultiIndex((FixedIndex(k),))) for k in range(3)]),
        ("rows[permuted]", [C.Indexed(A3, MultiIndex((FixedIndex(k),))) for k in (1, 0, 2)]),
        ("rows[partial]", [C.Indexed(A3, MultiIndex((FixedIndex(k),))) for k in (0, 1)]),
        ("rows[repeat]", [C.Indexed(A3, MultiIndex((FixedIndex(k),))) for k in (0, 0, 2)]),
        ("rows[two tensors]", [C.Indexed(A3, MultiIndex((FixedIndex(0),))), C.Indexed(Opq("B", (3,)), MultiIndex((FixedIndex(1),))),
                               C.Indexed(A3, MultiIndex((FixedIndex(2),)))]),
        ("lastidx[A[1,k]]", [C.Indexed(A23, MultiIndex((FixedIndex(1), FixedIndex(k)))) for k in range(3)]),
        ("lastidx[A[i,k]]", [C.Indexed(A23, MultiIndex((I, FixedIndex(k)))) for k in range(3)]),
        ("firstidx[A[k,1]]", [C.Indexed(A23, MultiIndex((FixedIndex(k), FixedIndex(1)))) for k in range(2)]),
        ("lastidx[mixed prefix]", [C.Indexed(A23, MultiIndex((FixedIndex(k % 2), FixedIndex(k)))) for k in range(3)]),
        ("lastidx[fi tensor]", [C.Indexed(A_i3, MultiIndex((FixedIndex(k),))) for k in range(3)]),
        ("ct-rows[A[k,j]->(j)]", [C.ComponentTensor(C.Indexed(A23, MultiIndex((FixedIndex(k), J))), MultiIndex((J,))) for k in range(2)]),
        ("ct-rows[permuted k]", [C.ComponentTensor(C.Indexed(A23, MultiIndex((FixedIndex(1 - k), J))), MultiIndex((J,))) for k in range(2)]),
        ("ct-rows[T[k,i,j]->(j,i)]", [C.ComponentTensor(C.Indexed(T223s, MultiIndex((FixedIndex(k), I, J))), MultiIndex((J, I)))
                                      for k in range(2)]),
        ("ct-rows[T[k,i,j]->(i,j)]", [C.ComponentTensor(C.Indexed(T223s, MultiIndex((FixedIndex(k), I, J))), MultiIndex((I, J)))
                                      for k in range(2)]),
        ("ct-rows[T[k,i,i]->(i)]", [C.ComponentTensor(C.Indexed(T233s, MultiIndex((FixedIndex(k), I, I))), MultiIndex((I,)))
                                    for k in range(2)]),
        ("ct-rows[T[k,i,j]->(i), free j]", [C.ComponentTensor(C.Indexed(T223s, MultiIndex((FixedIndex(k), I, J))), MultiIndex((I,)))
                                           for k in range(2)]),
        ("ct-rows[different index objects]", [C.ComponentTensor(C.Indexed(A23, MultiIndex((FixedIndex(0), J))), MultiIndex((J,))),
                                              C.ComponentTensor(C.Indexed(A23, MultiIndex((FixedIndex(1), K))), MultiIndex((K,)))]),
        ("nested lists", [C.ListTensor(Opq("a"), Opq("b")), C.ListTensor(Opq("c"), Opq("d"))]),
    ]
    for nm, rows in LT:
        case(f"ListTensor[{nm}]", (lambda rows=rows: (list(rows), lambda o: C.ListTensor(*o))), lt_spec, lt_fi)

    # ---- ComponentTensor
    def ct_spec(w, o, c, e):
        e2 = dict(e)
        for i, v in zip(o[1], c):
            e2[i.count()] = v
        return D(w, o[0], (), e2)

    def ct_fi(o):
        ids = [i.count() for i in o[1]]
        dims = dict(fip(o[0]))
        return (tuple(dims[i] for i in ids),) + fi_of([(a, b) for a, b in fip(o[0]) if a not in ids])
    sij = Opq("s", (), (I, J), (2, 3))
    sijk = Opq("s", (), (I, J, K), (2, 3, 2))
    CT = [("opq_ij->(i,j)", sij, (I, J)), ("opq_ij->(j,i)", sij, (J, I)), ("opq_ijk->(k,i)", sijk, (K, I)), ("opq_ij->(i)", sij, (I,)),
          ("zero_ij->(j,i)", C.Zero((), tuple(sorted((I.count(), J.count()))), (2, 3) if I.count() < J.count() else (3, 2)), (J, I)),
          ("zero_ijk->(j)", C.Zero((), tuple(sorted((I.count(), J.count(), K.count()))), (2, 3, 2)), (J,)),
          ("A[i,j]->(i,j)", C.Indexed(A23, MultiIndex((I, J))), (I, J)), ("A[i,j]->(j,i)", C.Indexed(A23, MultiIndex((I, J))), (J, I)),
          ("A[i,1]->(i)", C.Indexed(A23, MultiIndex((I, FixedIndex(1)))), (I,)), ("A[i,j]->(j)", C.Indexed(A23, MultiIndex((I, J))), (J,)),
          ("A[i,i]->(i)", C.Indexed(A33, MultiIndex((I, I))), (I,)),
          ("prod->(i)", C.Product(Opq("a", (), (I,), (2,)), Opq("b", (), (J,), (3,))), (I,))]
    for nm, ex, ii in CT:
        case(f"ComponentTensor[{nm}]", (lambda ex=ex, ii=ii: ([ex, MultiIndex(ii)], lambda o: C.ComponentTensor(o[0], o[1]))), ct_spec, ct_fi)

    # ---- Conditional
    p, q = Opq("p"), Opq("q")
    for nm, t, f in [("a,b", Opq("a"), Opq("b")), ("a,a", Opq("a"), Opq("a")), ("0,0", C.Zero(), C.Zero()), ("a,0", Opq("a"), C.Zero()),
                     ("1,1.0", as_ufl(1), as_ufl(1.0)), ("vec", Opq("a", (2,)), Opq("b", (2,))), ("vec,vec", Opq("a", (2,)), Opq("a", (2,))),
                     ("fi", Opq("a", (), (I,), (2,)), Opq("b", (), (I,), (2,)))]:
        case(f"Conditional[{nm}]", (lambda t=t, f=f: ([C.LT(p, q), t, f], lambda o: C.Conditional(o[0], o[1], o[2]))),
             lambda w, o, c, e: N.ite(cond(w, o[0], e), D(w, o[1], c, e), D(w, o[2], c, e)),
             lambda o: (o[1].ufl_shape,) + fi_of(fip(o[1])))

    # ---- restrictions of constants, compound zero paths
    for nm, x in [("opq", Opq("a")), ("zero", C.Zero((2,))), ("lit", as_ufl(3)), ("identity", C.Identity(2))]:
        case(f"PositiveRestricted[{nm}]", (lambda x=x: ([x], lambda o: C.PositiveRestricted(o[0]))),
             lambda w, o, c, e: den(w.on_side("+"), o[0], c, e), lambda o: (o[0].ufl_shape, (), ()))
    Z23, Z3, Z33 = C.Zero((2, 3)), C.Zero((3,)), C.Zero((3, 3))
    Zi3 = C.Zero((3,), (I.count(),), (2,))
    zero_cases = [
        ("Transposed[zero]", lambda: C.Transposed(Z23), (3, 2), ()), ("Transposed[zero_i]", lambda: C.Transposed(C.Zero((2, 3), (I.count(),), (2,))), (3, 2), ((I.count(), 2),)),
        ("Outer[zero,a]", lambda: C.Outer(Z3, Opq("a", (2,))), (3, 2), ()), ("Outer[a_i,zero]", lambda: C.Outer(Opq("a", (2,), (I,), (2,)), Z3), (2, 3), ((I.count(), 2),)),
        ("Inner[zero,a]", lambda: C.Inner(Z3, Opq("a", (3,))), (), ()), ("Inner[a,zero_i]", lambda: C.Inner(Opq("a", (3,)), Zi3), (), ((I.count(), 2),)),
        ("Dot[zero,a]", lambda: C.Dot(Z23, Opq("a", (3,))), (2,), ()), ("Dot[A,zero]", lambda: C.Dot(Opq("A", (2, 3)), Z33), (2, 3), ()),
        ("Dot[zero(2,3),B(3,4)]", lambda: C.Dot(Z23, Opq("B", (3, 4))), (2, 4), ()), ("Dot[A(2,3),zero(3,4)]", lambda: C.Dot(Opq("A", (2, 3)), C.Zero((3, 4))), (2, 4), ()),
        ("Dot[zero(3),B(3,4)]", lambda: C.Dot(Z3, Opq("B", (3, 4))), (4,), ()), ("Dot[a(3),zero(3,4)]", lambda: C.Dot(Opq("a", (3,)), C.Zero((3, 4))), (4,), ()),
        ("Dot[zero(2,2),B(2,3,4)]", lambda: C.Dot(C.Zero((2, 2)), Opq("B", (2, 3, 4))), (2, 3, 4), ()),
        ("Dot[A(2,2),zero(2,3,4)]", lambda: C.Dot(Opq("A", (2, 2)), C.Zero((2, 3, 4))), (2, 3, 4), ()),
        ("Dot[zero_i(2,3),B(3,4)]", lambda: C.Dot(C.Zero((2, 3), (I.count(),), (2,)), Opq("B", (3, 4))), (2, 4), ((I.count(), 2),)),
        ("Outer[zero(2),B(3,4)]", lambda: C.Outer(C.Zero((2,)), Opq("B", (3, 4))), (2, 3, 4), ()),
        ("Cross[zero,a]", lambda: C.Cross(Z3, Opq("a", (3,))), (3,), ()), ("Perp[zero]", lambda: C.Perp(C.Zero((2,))), (2,), ()),
        ("Trace[zero]", lambda: C.Trace(Z33), (), ()), ("Determinant[zero]", lambda: C.Determinant(Z33), (), ()),
        ("Deviatoric[zero]", lambda: C.Deviatoric(Z33), (3, 3), ()), ("Skew[zero]", lambda: C.Skew(Z33), (3, 3), ()), ("Sym[zero]", lambda: C.Sym(Z33), (3, 3), ()),
    ]
    for nm, mkr, sh, fi in zero_cases:
        case(f"zero-folding/{nm}", (lambda mkr=mkr: ([], lambda o: mkr())), lambda w, o, c, e: 0,
             (lambda o, sh=sh, fi=fi: (sh,) + fi_of(fi)))
    # compound tensor operators whose operands both carry a free index of their own (different extents; listed in either creation order): the free
    # indices of the result are the union, each with ITS extent, and the value is the operator applied component-wise for every index value
    def _fi_cases():
        for order, (ia, da), (ib, db) in (("I,J", (I, 2), (J, 3)), ("J,I", (J, 3), (I, 2))):
            a2, b2 = Opq("a", (2,), (ia,), (da,)), Opq("b", (2,), (ib,), (db,))
            a3, b3 = Opq("a", (3,), (ia,), (da,)), Opq("b", (3,), (ib,), (db,))
            A23 = Opq("A", (2, 3), (ia,), (da,))
            both = lambda o: fi_of(fip(o[0]), fip(o[1]))        # noqa: E731
            yield f"Outer[fi {order}]", [a2, b3], lambda o: C.Outer(o[0], o[1]), (lambda w, o, c, e: N.mul(D(w, o[0], (c[0],), e), D(w, o[1], (c[1],), e))), lambda o: ((2, 3),) + both(o)
            yield f"Inner[fi {order}]", [a2, b2], lambda o: C.Inner(o[0], o[1]), (lambda w, o, c, e: _sum(2, lambda k: N.mul(D(w, o[0], (k,), e), D(w, o[1], (k,), e)))), lambda o: ((),) + both(o)
            yield f"Dot[fi {order}]", [A23, b3], lambda o: C.Dot(o[0], o[1]), (lambda w, o, c, e: _sum(3, lambda k: N.mul(D(w, o[0], (c[0], k), e), D(w, o[1], (k,), e)))), lambda o: ((2,),) + both(o)
            yield (f"Cross[fi {order}]", [a3, b3], lambda o: C.Cross(o[0], o[1]),
                   (lambda w, o, c, e: (lambda p_, q_: N.sub(N.mul(D(w, o[0], (p_,), e), D(w, o[1], (q_,), e)), N.mul(D(w, o[0], (q_,), e), D(w, o[1], (p_,), e))))((c[0] + 1) % 3, (c[0] + 2) % 3)),
                   lambda o: ((3,),) + both(o))
            yield f"Outer[fi {order}, zero second]", [a2, C.Zero((3,), (ib.count(),), (db,))], lambda o: C.Outer(o[0], o[1]), (lambda w, o, c, e: 0), lambda o: ((2, 3),) + both(o)
            yield f"Inner[fi {order}, zero first]", [C.Zero((2,), (ia.count(),), (da,)), b2], lambda o: C.Inner(o[0], o[1]), (lambda w, o, c, e: 0), lambda o: ((),) + both(o)
            yield f"Dot[fi {order}, zero second]", [A23, C.Zero((3,), (ib.count(),), (db,))], lambda o: C.Dot(o[0], o[1]), (lambda w, o, c, e: 0), lambda o: ((2,),) + both(o)
    for nm_, ops_, bld_, spec_, shf_ in _fi_cases():
        case(nm_, (lambda ops_=ops_, bld_=bld_: (ops_, bld_)), spec_, shf_)

    # scalar shortcuts of inner/outer/dot
    a0, b0 = Opq("a"), Opq("b")
    case("Inner[scalars]", (lambda: ([a0, b0], lambda o: C.Inner(o[0], o[1]))), lambda w, o, c, e: N.mul(D(w, o[0]), N.conj(D(w, o[1]))),
         lambda o: ((), (), ()), modes=("complex",))
    case("Outer[scalar,vec]", (lambda: ([a0, Opq("v", (2,))], lambda o: C.Outer(o[0], o[1]))),
         lambda w, o, c, e: N.mul(N.conj(D(w, o[0])), D(w, o[1], c)), lambda o: ((2,), (), ()), modes=("complex",))
    # outer(a, b) = conj(a) (x) b whichever operand is the scalar (class constructor and the public operator)
    for onm_, obld_ in (("Outer", lambda o: C.Outer(o[0], o[1])), ("outer()", lambda o: ufl.outer(o[0], o[1]))):
        case(f"{onm_}[vec,scalar]", (lambda obld_=obld_: ([Opq("v", (2,)), b0], obld_)),
             lambda w, o, c, e: N.mul(N.conj(D(w, o[0], c)), D(w, o[1])), lambda o: ((2,), (), ()), modes=("complex",))
        case(f"{onm_}[mat2x3,scalar]", (lambda obld_=obld_: ([Opq("A", (2, 3)), b0], obld_)),
             lambda w, o, c, e: N.mul(N.conj(D(w, o[0], c)), D(w, o[1])), lambda o: ((2, 3), (), ()), modes=("complex",))
        case(f"{onm_}[scalar,mat2x3]", (lambda obld_=obld_: ([a0, Opq("A", (2, 3))], obld_)),
             lambda w, o, c, e: N.mul(N.conj(D(w, o[0])), D(w, o[1], c)), lambda o: ((2, 3), (), ()), modes=("complex",))
        case(f"{onm_}[scalars]", (lambda obld_=obld_: ([a0, b0], obld_)),
             lambda w, o, c, e: N.mul(N.conj(D(w, o[0])), D(w, o[1])), lambda o: ((), (), ()), modes=("complex",))
        case(f"{onm_}[vec2,vec3]", (lambda obld_=obld_: ([Opq("u", (2,)), Opq("v", (3,))], obld_)),
             lambda w, o, c, e: N.mul(N.conj(D(w, o[0], c[:1])), D(w, o[1], c[1:])), lambda o: ((2, 3), (), ()), modes=("complex",))
    for inm_, ibld_ in (("inner()", lambda o: ufl.inner(o[0], o[1])), ("dot()", lambda o: ufl.dot(o[0], o[1]))):
        case(f"{inm_}[scalars]", (lambda ibld_=ibld_: ([a0, b0], ibld_)),
             (lambda w, o, c, e, inm_=inm_: N.mul(D(w, o[0]), N.conj(D(w, o[1])) if inm_ == "inner()" else D(w, o[1]))), lambda o: ((), (), ()), modes=("complex",))
    case("Dot[scalars]", (lambda: ([a0, b0], lambda o: C.Dot(o[0], o[1]))), lambda w, o, c, e: N.mul(D(w, o[0]), D(w, o[1])),
         lambda o: ((), (), ()), modes=("complex",))
    va, vb = Opq("a", (2,)), Opq("b", (2,))
    case("Inner[vec,sorted order]", (lambda: ([va, vb], lambda o: C.Inner(o[0], o[1]))),
         lambda w, o, c, e: N.add(N.mul(D(w, o[0], (0,)), N.conj(D(w, o[1], (0,)))), N.mul(D(w, o[0], (1,)), N.conj(D(w, o[1], (1,))))),
         lambda o: ((), (), ()), modes=("complex",))
    case("Inner[vec,reverse order]", (lambda: ([vb, va], lambda o: C.Inner(o[0], o[1]))),
         lambda w, o, c, e: N.add(N.mul(D(w, o[0], (0,)), N.conj(D(w, o[1], (0,)))), N.mul(D(w, o[0], (1,)), N.conj(D(w, o[1], (1,))))),
         lambda o: ((), (), ()), modes=("complex",))

    # ---- operator level: __mul__, __getitem__, __truediv__, __pow__, __neg__, .T, as_tensor & friends
    def mul_cases():
        s, t = Opq("s"), Opq("t")
        si, ti, tj = Opq("s", (), (I,), (3,)), Opq("t", (), (I,), (3,)), Opq("t", (), (J,), (2,))
        tij = Opq("t", (), (I, J), (3, 2))
        v3, A, B = Opq("v", (3,)), Opq("A", (2, 3)), Opq("B", (3, 2))
        vi = Opq("v", (3,), (I,), (2,))
        yield "s*t", [s, t], lambda w, o, c, e: N.mul(D(w, o[0]), D(w, o[1])), ((), ())
        yield "s_i*t_i(sum)", [si, ti], lambda w, o, c, e: _sum(3, lambda k: N.mul(D(w, o[0], (), {**e, I.count(): k}), D(w, o[1], (), {**e, I.count(): k}))), ((), ())
        yield "s_i*t_j", [si, tj], lambda w, o, c, e: N.mul(D(w, o[0], (), e), D(w, o[1], (), e)), ((), [(I.count(), 3), (J.count(), 2)])
        yield "s_i*t_ij(sum i)", [si, tij], lambda w, o, c, e: _sum(3, lambda k: N.mul(D(w, o[0], (), {**e, I.count(): k}), D(w, o[1], (), {**e, I.count(): k}))), ((), [(J.count(), 2)])
        yield "s*v", [s, v3], lambda w, o, c, e: N.mul(D(w, o[0]), D(w, o[1], c)), ((3,), ())
        yield "v*s", [v3, s], lambda w, o, c, e: N.mul(D(w, o[1]), D(w, o[0], c)), ((3,), ())
        yield "s_i*v_i(sum)", [Opq("s", (), (I,), (2,)), vi], lambda w, o, c, e: _sum(2, lambda k: N.mul(D(w, o[0], (), {**e, I.count(): k}), D(w, o[1], c, {**e, I.count(): k}))), ((3,), ())
        yield "A*v", [A, v3], lambda w, o, c, e: _sum(3, lambda k: N.mul(D(w, o[0], (c[0], k)), D(w, o[1], (k,)))), ((2,), ())
        yield "A*B", [A, B], lambda w, o, c, e: _sum(3, lambda k: N.mul(D(w, o[0], (c[0], k)), D(w, o[1], (k, c[1])))), ((2, 2), ())
        yield "0*v", [C.Zero(), v3], lambda w, o, c, e: 0, ((3,), ())
        yield "s*0vec", [s, C.Zero((3,))], lambda w, o, c, e: 0, ((3,), ())
        yield "A*0", [A, C.Zero((3,))], lambda w, o, c, e: 0, ((2,), ())
        yield "0mat*B", [C.Zero((2, 3)), B], lambda w, o, c, e: 0, ((2, 2), ())
        yield "2*v", [as_ufl(2), v3], lambda w, o, c, e: N.mul(2, D(w, o[1], c)), ((3,), ())
        yield "1*v", [as_ufl(1), v3], lambda w, o, c, e: D(w, o[1], c), ((3,), ())
        yield "A_i*v(fi)", [Opq("A", (2, 3), (I,), (2,)), v3], lambda w, o, c, e: _sum(3, lambda k: N.mul(D(w, o[0], (c[0], k), e), D(w, o[1], (k,), e))), ((2,), [(I.count(), 2)])

    def _sum(n, f):
        tot = 0
        for k in range(n):
            tot = N.add(tot, f(k))
        return tot
    for nm, ops, spec, (sh, fi) in mul_cases():
        case(f"__mul__[{nm}]", (lambda ops=ops: (list(ops), lambda o: o[0] * o[1])), spec, (lambda o, sh=sh, fi=fi: (sh,) + fi_of(fi)))

    T223 = Opq("T", (2, 2, 3))
    Ai = Opq("A", (2, 3), (I,), (2,))
    gi = [
        ("A[0,1]", A23, (0, 1), lambda w, o, c, e: D(w, o, (0, 1), e), (), ()),
        ("A[1,:]", A23, (1, slice(None)), lambda w, o, c, e: D(w, o, (1, c[0]), e), (3,), ()),
        ("A[:,2]", A23, (slice(None), 2), lambda w, o, c, e: D(w, o, (c[0], 2), e), (2,), ()),
        ("A[:,:]", A23, (slice(None), slice(None)), lambda w, o, c, e: D(w, o, c, e), (2, 3), ()),
        ("A[...]", A23, (Ellipsis,), lambda w, o, c, e: D(w, o, c, e), (2, 3), ()),
        ("A[1,...]", A23, (1, Ellipsis), lambda w, o, c, e: D(w, o, (1, c[0]), e), (3,), ()),
        ("T[...,2]", T223, (Ellipsis, 2), lambda w, o, c, e: D(w, o, (c[0], c[1], 2), e), (2, 2), ()),
        ("T[1,...,0]", T223, (1, Ellipsis, 0), lambda w, o, c, e: D(w, o, (1, c[0], 0), e), (2,), ()),
        ("T[i,i,:](sum)", T223, (I, I, slice(None)), lambda w, o, c, e: _sum(2, lambda k: D(w, o, (k, k, c[0]), e)), (3,), ()),
        ("T[i,j,2]", T223, (I, J, 2), lambda w, o, c, e: D(w, o, (e[I.count()], e[J.count()], 2), e), (), [(I.count(), 2), (J.count(), 2)]),
        ("S[i,i](trace)", A33, (I, I), lambda w, o, c, e: _sum(3, lambda k: D(w, o, (k, k), e)), (), ()),
        ("A_i[i,:](sum with own free index)", Ai, (I, slice(None)), lambda w, o, c, e: _sum(2, lambda k: D(w, o, (k, c[0]), {**e, I.count(): k})), (3,), ()),
        ("A_i[j,1]", Ai, (J, 1), lambda w, o, c, e: D(w, o, (e[J.count()], 1), e), (), [(I.count(), 2), (J.count(), 2)]),
        ("zero[1,:]", C.Zero((2, 3)), (1, slice(None)), lambda w, o, c, e: 0, (3,), ()),
        ("zero[i,1]", C.Zero((2, 3)), (I, 1), lambda w, o, c, e: 0, (), [(I.count(), 2)]),
        # the repeated-index / own-free-index patterns above, on Zero operands (zero folding must still sum the repeated index away)
        ("zero[i,i](trace)", C.Zero((3, 3)), (I, I), lambda w, o, c, e: 0, (), ()),
        ("zero[:,i,i]", C.Zero((2, 3, 3)), (slice(None), I, I), lambda w, o, c, e: 0, (2,), ()),
        ("zero[j,i,i]", C.Zero((2, 3, 3)), (J, I, I), lambda w, o, c, e: 0, (), [(J.count(), 2)]),
        ("zero_i[i,:](sum with own free index)", C.Zero((2, 3), (I.count(),), (2,)), (I, slice(None)), lambda w, o, c, e: 0, (3,), ()),
        ("zero_i[j,1]", C.Zero((2, 3), (I.count(),), (2,)), (J, 1), lambda w, o, c, e: 0, (), [(I.count(), 2), (J.count(), 2)]),
        ("zero[i,...,i]", C.Zero((2, 3, 2)), (I, Ellipsis, I), lambda w, o, c, e: 0, (3,), ()),
        ("identity[0,0]", C.Identity(3), (0, 0), lambda w, o, c, e: 1, (), ()),
        ("identity[0,2]", C.Identity(3), (0, 2), lambda w, o, c, e: 0, (), ()),
        ("identity[i,1]", C.Identity(3), (I, 1), lambda w, o, c, e: 1 if e[I.count()] == 1 else 0, (), [(I.count(), 3)]),
        ("identity[i,i]", C.Identity(3), (I, I), lambda w, o, c, e: 3, (), ()),
        ("list[1]", C.ListTensor(Opq("r0", (3,)), Opq("r1", (3,))), (1,), None, None, None),
    ]
    for nm, base, key, spec, sh, fi in gi:
        if spec is None:
            continue
        case(f"__getitem__[{nm}]", (lambda base=base, key=key: ([base], lambda o: o[0][key])),
             (lambda w, o, c, e, spec=spec: spec(w, o[0], c, e)), (lambda o, sh=sh, fi=fi: (sh,) + fi_of(fi)))
    lt2 = C.ListTensor(Opq("r0", (3,)), Opq("r1", (3,)))
    case("__getitem__[list[1]]", (lambda: ([lt2], lambda o: o[0][1])), lambda w, o, c, e: D(w, o[0], (1,) + tuple(c), e), lambda o: ((3,), (), ()))
    case("__getitem__[list[1,2]]", (lambda: ([lt2], lambda o: o[0][1, 2])), lambda w, o, c, e: D(w, o[0], (1, 2), e), lambda o: ((), (), ()))
    case("__getitem__[list[i,2]]", (lambda: ([lt2], lambda o: o[0][I, 2])), lambda w, o, c, e: D(w, o[0], (e[I.count()], 2), e),
         lambda o: ((), (I.count(),), (2,)))
    ctb = C.ComponentTensor(Opq("s", (), (I, J), (2, 3)), MultiIndex((I, J)))
    case("__getitem__[ct[i,j] same indices]", (lambda: ([ctb], lambda o: o[0][I, J])), lambda w, o, c, e: D(w, o[0], (e[I.count()], e[J.count()]), e),
         lambda o: ((),) + fi_of([(I.count(), 2), (J.count(), 3)]))
    case("__getitem__[ct[j,i] swapped]", (lambda: ([C.ComponentTensor(Opq("s", (), (I, J), (3, 3)), MultiIndex((I, J)))], lambda o: o[0][J, I])),
         lambda w, o, c, e: D(w, o[0], (e[J.count()], e[I.count()]), e), lambda o: ((),) + fi_of([(I.count(), 3), (J.count(), 3)]))

    # a component tensor over an INDEXED LIST TENSOR whose entries carry a free index, indexed again: every combination of which index the component tensor
    # binds (the list position, the entries' index, both, in either order) and of fixed / free outer indices
    p2, q2 = Opq("p", (2,)), Opq("q", (2,))
    mkL = lambda: as_vector([2 * p2[I], 3 * q2[I]])     # noqa: E731   (list position -> entry with free index I)
    Lval = lambda w, pos, i_: N.mul(2, D(w, p2, (i_,))) if pos == 0 else N.mul(3, D(w, q2, (i_,)))     # noqa: E731
    case("__getitem__[as_tensor(L[j],(i,))[0], L entries carry i]", (lambda: ([], lambda o: as_tensor(mkL()[J], (I,))[0])),
         lambda w, o, c, e: Lval(w, e[J.count()], 0), lambda o: ((),) + fi_of([(J.count(), 2)]), allow_refusal=False)
    case("__getitem__[as_tensor(L[j],(i,))[1], L entries carry i]", (lambda: ([], lambda o: as_tensor(mkL()[J], (I,))[1])),
         lambda w, o, c, e: Lval(w, e[J.count()], 1), lambda o: ((),) + fi_of([(J.count(), 2)]), allow_refusal=False)
    case("__getitem__[as_tensor(L[j],(j,))[1], L entries carry i]", (lambda: ([], lambda o: as_tensor(mkL()[J], (J,))[1])),
         lambda w, o, c, e: Lval(w, 1, e[I.count()]), lambda o: ((),) + fi_of([(I.count(), 2)]), allow_refusal=False)
    case("__getitem__[as_tensor(L[j],(i,j))[1,0]]", (lambda: ([], lambda o: as_tensor(mkL()[J], (I, J))[1, 0])),
         lambda w, o, c, e: Lval(w, 0, 1), lambda o: ((), (), ()), allow_refusal=False)
    case("__getitem__[as_tensor(L[j],(j,i))[1,0]]", (lambda: ([], lambda o: as_tensor(mkL()[J], (J, I))[1, 0])),
         lambda w, o, c, e: Lval(w, 1, 0), lambda o: ((), (), ()), allow_refusal=False)
    case("__getitem__[as_tensor(L[1],(i,))[0]]", (lambda: ([], lambda o: as_tensor(mkL()[1], (I,))[0])),
         lambda w, o, c, e: Lval(w, 1, 0), lambda o: ((), (), ()), allow_refusal=False)
    case("__getitem__[as_tensor(L[j],(i,)) whole]", (lambda: ([], lambda o: as_tensor(mkL()[J], (I,)))),
         lambda w, o, c, e: Lval(w, e[J.count()], c[0]), lambda o: ((2,),) + fi_of([(J.count(), 2)]), allow_refusal=False)

    v3 = Opq("v", (3,))
    case("__truediv__[v/s]", (lambda: ([v3, Opq("s")], lambda o: o[0] / o[1])),
         lambda w, o, c, e: (w.require(N.cmp("!=", D(w, o[1]), 0)), N.div(D(w, o[0], c), D(w, o[1])))[1], lambda o: ((3,), (), ()))
    case("__truediv__[v/2]", (lambda: ([v3], lambda o: o[0] / 2)), lambda w, o, c, e: N.div(D(w, o[0], c), 2), lambda o: ((3,), (), ()))
    case("__rtruediv__[1/s]", (lambda: ([Opq("s")], lambda o: 1 / o[0])),
         lambda w, o, c, e: (w.require(N.cmp("!=", D(w, o[0]), 0)), N.div(1, D(w, o[0])))[1], lambda o: ((), (), ()))
    case("__pow__[v**2]", (lambda: ([v3], lambda o: o[0] ** 2)), lambda w, o, c, e: _sum(3, lambda k: N.mul(D(w, o[0], (k,)), N.conj(D(w, o[0], (k,))))),
         lambda o: ((), (), ()), modes=("complex",))
    case("__pow__[s**3]", (lambda: ([Opq("s")], lambda o: o[0] ** 3)), lambda w, o, c, e: N.ipow(D(w, o[0]), 3), lambda o: ((), (), ()))
    case("__rpow__[2**s]", (lambda: ([Opq("s")], lambda o: 2 ** o[0])),
         lambda w, o, c, e: w.funcs.apply("pow", w.const(2), D(w, o[0])), lambda o: ((), (), ()))
    case("__neg__[v]", (lambda: ([v3], lambda o: -o[0])), lambda w, o, c, e: N.neg(D(w, o[0], c)), lambda o: ((3,), (), ()))
    case("__neg__[s_i]", (lambda: ([Opq("s", (), (I,), (2,))], lambda o: -o[0])), lambda w, o, c, e: N.neg(D(w, o[0], c, e)), lambda o: ((), (I.count(),), (2,)))
    case("__sub__[v-w]", (lambda: ([v3, Opq("w", (3,))], lambda o: o[0] - o[1])), lambda w, o, c, e: N.sub(D(w, o[0], c), D(w, o[1], c)), lambda o: ((3,), (), ()))
    case("__rsub__[1-s]", (lambda: ([Opq("s")], lambda o: 1 - o[0])), lambda w, o, c, e: N.sub(1, D(w, o[0])), lambda o: ((), (), ()))
    case("__radd__[0+v]", (lambda: ([v3], lambda o: 0 + o[0])), lambda w, o, c, e: D(w, o[0], c), lambda o: ((3,), (), ()))
    case("T[A]", (lambda: ([A23], lambda o: o[0].T)), lambda w, o, c, e: D(w, o[0], (c[1], c[0])), lambda o: ((3, 2), (), ()))

    # as_tensor and friends
    AT = [
        ("as_tensor(A[i,j],(j,i))", lambda: as_tensor(A23[I, J], (J, I)), lambda w, c, e: D(w, A23, (c[1], c[0])), (3, 2)),
        ("as_tensor(A[i,j],(i,j))", lambda: as_tensor(A23[I, J], (I, J)), lambda w, c, e: D(w, A23, c), (2, 3)),
        ("as_vector([v0,v1,v2])", lambda: as_vector([v3[0], v3[1], v3[2]]), lambda w, c, e: D(w, v3, c), (3,)),
        ("as_vector([v1,v0,v2])", lambda: as_vector([v3[1], v3[0], v3[2]]), lambda w, c, e: D(w, v3, ({0: 1, 1: 0, 2: 2}[c[0]],)), (3,)),
        ("as_matrix(rows)", lambda: as_matrix([[A23[0, 0], A23[0, 1], A23[0, 2]], [A23[1, 0], A23[1, 1], A23[1, 2]]]), lambda w, c, e: D(w, A23, c), (2, 3)),
        ("as_tensor([A[0,:],A[1,:]])", lambda: as_tensor([A23[0, :], A23[1, :]]), lambda w, c, e: D(w, A23, c), (2, 3)),
        ("as_tensor([A[1,:],A[0,:]])", lambda: as_tensor([A23[1, :], A23[0, :]]), lambda w, c, e: D(w, A23, (1 - c[0], c[1])), (2, 3)),
        ("as_tensor(cols)", lambda: as_tensor([A23[:, 0], A23[:, 1], A23[:, 2]]), lambda w, c, e: D(w, A23, (c[1], c[0])), (3, 2)),
        ("as_tensor([T[0,:,:],T[1,:,:]])", lambda: as_tensor([T223[0, :, :], T223[1, :, :]]), lambda w, c, e: D(w, T223, c), (2, 2, 3)),
        ("as_tensor([T[0].T-like, T[1].T-like])", lambda: as_tensor([as_tensor(T223[0, I, J], (J, I)), as_tensor(T223[1, I, J], (J, I))]),
         lambda w, c, e: D(w, T223, (c[0], c[2], c[1])), (2, 3, 2)),
        ("as_tensor(A.T rows)", lambda: as_tensor([as_tensor(A23[I, 0], (I,)), as_tensor(A23[I, 1], (I,)), as_tensor(A23[I, 2], (I,))]),
         lambda w, c, e: D(w, A23, (c[1], c[0])), (3, 2)),
        ("as_tensor(nested python lists)", lambda: as_tensor([[Opq("a"), 0], [1, Opq("b")]]),
         lambda w, c, e: {(0, 0): lambda: D(w, Opq("a")), (0, 1): lambda: 0, (1, 0): lambda: 1, (1, 1): lambda: D(w, Opq("b"))}[c](), (2, 2)),
        ("as_vector(s_i, i)", lambda: as_vector(Opq("s", (), (I,), (3,)), I), lambda w, c, e: D(w, Opq("s", (), (I,), (3,)), (), {I.count(): c[0]}), (3,)),
        ("(A[i,j]*v[j]) as (i)", lambda: as_tensor(A23[I, J] * v3[J], (I,)), lambda w, c, e: _sum(3, lambda k: N.mul(D(w, A23, (c[0], k)), D(w, v3, (k,)))), (2,)),
        ("(A^(i,j))", lambda: A23[I, J] ^ (J, I), lambda w, c, e: D(w, A23, (c[1], c[0])), (3, 2)),
    ]
    for nm, mkr, spec, sh in AT:
        case(f"tensor-api/{nm}", (lambda mkr=mkr: ([], lambda o: mkr())), (lambda w, o, c, e, spec=spec: spec(w, c, e)),
             (lambda o, sh=sh: (sh, (), ())), allow_refusal=False)

    # ------------------------------------------------------------------ math functions of COMPLEX LITERALS: the constructor returns the folded value (checked against cmath where
    # cmath has the function) or keeps the node; it does not fail
    def complex_literal_mathfunctions():
        import cmath
        fns = {"sqrt": (ufl.sqrt, cmath.sqrt), "exp": (ufl.exp, cmath.exp), "ln": (ufl.ln, cmath.log), "cos": (ufl.cos, cmath.cos), "sin": (ufl.sin, cmath.sin), "tan": (ufl.tan, cmath.tan),
               "cosh": (ufl.cosh, cmath.cosh), "sinh": (ufl.sinh, cmath.sinh), "tanh": (ufl.tanh, cmath.tanh), "acos": (ufl.acos, cmath.acos), "asin": (ufl.asin, cmath.asin),
               "atan": (ufl.atan, cmath.atan), "erf": (ufl.erf, None)}
        n = 0
        for nm_, (fn_, ref_) in fns.items():
            for z_ in (1 + 1j, -0.5 + 2j, 0.25j, C.ComplexValue(2 - 1j)):
                n += 1
                try:
                    r_ = fn_(z_)
                except (TypeError, AttributeError, IndexError, KeyError, OverflowError) as ex:
                    from ufv.core import crash_text
                    return violated(f"{nm_}({z_!r}) fails while the expression is built: {crash_text(ex)}", replay={"function": nm_, "literal": repr(z_)}, reproduced=True, backend="exec")
                except ValueError as ex:
                    from ufv.core import deliberate
                    if not deliberate(ex):
                        return violated(f"{nm_}({z_!r}) fails while the expression is built: {ex}", replay={"function": nm_, "literal": repr(z_)}, reproduced=True, backend="exec")
                    continue
                if isinstance(r_, C.ScalarValue) and ref_ is not None:
                    zv = complex(z_._value) if isinstance(z_, C.ScalarValue) else complex(z_)
                    if abs(complex(r_._value) - ref_(zv)) > 1e-12 * max(1.0, abs(ref_(zv))):
                        return violated(f"{nm_}({z_!r}) is folded to {r_._value!r}; the value is {ref_(zv)!r}", replay={"function": nm_, "literal": repr(z_)}, reproduced=True, backend="numeric")
        from ufv.core import bounded_ok
        return bounded_ok(n, "13 math functions x 4 complex literals; folded values compared with cmath (relative tolerance 1e-12)", sample="constructors of math functions accept complex literals")
    run.add("math/complex-literal-operands", complex_literal_mathfunctions, kind="bounded")

    # ------------------------------------------------------------------ math functions of non-literal operands: whatever the constructor returns (the node, or a
    # folded value when an operand is a zero / a literal) denotes the function of the operands for ALL values of the remaining operands
    def mathfun_cases():
        a_, b_ = Opq("a"), Opq("b")
        unary = [(C.Sqrt, "sqrt"), (C.Exp, "exp"), (C.Ln, "ln"), (C.Cos, "cos"), (C.Sin, "sin"), (C.Tan, "tan"), (C.Cosh, "cosh"), (C.Sinh, "sinh"), (C.Tanh, "tanh"),
                 (C.Acos, "acos"), (C.Asin, "asin"), (C.Atan, "atan"), (C.Erf, "erf")]
        for cls, nm in unary:
            yield f"{cls.__name__}[opq]", [a_], (lambda o, cls=cls: cls(o[0])), (lambda w, o, c, e, nm=nm: w.funcs.apply(nm, D(w, o[0])))
        for k1, x1 in (("opq", a_), ("zero", C.Zero()), ("lit[2]", as_ufl(2)), ("lit[-1.5]", as_ufl(-1.5))):
            for k2, x2 in (("opq", b_), ("zero", C.Zero()), ("lit[2]", as_ufl(2)), ("lit[-1.5]", as_ufl(-1.5))):
                if "opq" not in (k1, k2):
                    continue       # both literal: the numeric folding obligation below
                yield f"Atan2[{k1},{k2}]", [x1, x2], (lambda o: C.Atan2(o[0], o[1])), (lambda w, o, c, e: w.funcs.apply("atan2", D(w, o[0]), D(w, o[1])))
        for cls, kind in ((C.BesselJ, "J"), (C.BesselY, "Y"), (C.BesselI, "I"), (C.BesselK, "K")):
            for nu in (0, 1, 2):
                for k2, x2 in (("opq", b_), ("zero", C.Zero())):
                    yield (f"{cls.__name__}[nu={nu},{k2}]", [as_ufl(nu), x2], (lambda o, cls=cls: cls(o[0], o[1])),
                           (lambda w, o, c, e, kind=kind: w.funcs.apply("bessel_" + kind, D(w, o[0]), D(w, o[1]))))
    for nm_, ops_, bld_, spec_ in mathfun_cases():
        case("math/" + nm_, (lambda ops_=ops_, bld_=bld_: (ops_, bld_)), spec_, lambda o: ((), (), ()))

    # ------------------------------------------------------------------ literal / math-function folding (bounded, numeric)
    def folding():
        lits = [0, 1, -1, 2, 3, -2, 0.5, -0.25, 1.5, 2.0, 1e-3, 1 + 2j, -0.5j, 3 + 0j]
        n = 0

        def val(x):
            if isinstance(x, C.Zero):
                return 0.0
            return complex(x._value)

        def close(a, b):
            return abs(a - b) <= 1e-12 * max(1.0, abs(a), abs(b))
        for a, b in itertools.product(lits, repeat=2):
            for nm, f, g in [("+", lambda x, y: C.Sum(as_ufl(x), as_ufl(y)), lambda x, y: x + y),
                             ("*", lambda x, y: C.Product(as_ufl(x), as_ufl(y)), lambda x, y: x * y),
                             ("/", lambda x, y: C.Division(as_ufl(x), as_ufl(y)), lambda x, y: x / y),
                             ("**", lambda x, y: C.Power(as_ufl(x), as_ufl(y)), lambda x, y: complex(x) ** y)]:
                try:
                    want = g(a, b)
                except (ZeroDivisionError, OverflowError, ValueError):
                    want = None
                try:
                    r = f(a, b)
                except (ValueError, ZeroDivisionError, TypeError, OverflowError):
                    continue        # refusal
                n += 1
                if want is None:
                    continue
                if not isinstance(r, (C.ScalarValue, C.Zero)):
                    if nm == "**" and a == 0:
                        continue
                    continue
                if not close(val(r), complex(want)):
                    return violated(f"literal folding {a!r} {nm} {b!r} gives {r!r}, mathematically {want!r}",
                                    replay={"a": repr(a), "b": repr(b), "op": nm, "got": repr(r), "want": repr(want)}, reproduced=True)
        for a in lits:
            for nm, f, g in [("abs", C.Abs, abs), ("conj", C.Conj, lambda x: complex(x).conjugate()), ("real", C.Real, lambda x: complex(x).real),
                             ("imag", C.Imag, lambda x: complex(x).imag), ("neg", lambda x: -x, lambda x: -x)]:
                r = f(as_ufl(a))
                n += 1
                if isinstance(r, (C.ScalarValue, C.Zero)) and not close(val(r), complex(g(a))):
                    return violated(f"literal folding {nm}({a!r}) gives {r!r}, mathematically {g(a)!r}", reproduced=True,
                                    replay={"a": repr(a), "op": nm, "got": repr(r)})
            for cls, name in [(C.Sqrt, "sqrt"), (C.Exp, "exp"), (C.Ln, "log"), (C.Cos, "cos"), (C.Sin, "sin"), (C.Tan, "tan"), (C.Cosh, "cosh"),
                              (C.Sinh, "sinh"), (C.Tanh, "tanh"), (C.Acos, "acos"), (C.Asin, "asin"), (C.Atan, "atan")]:
                try:
                    want = getattr(cmath, name)(a)
                except (ValueError, ZeroDivisionError, OverflowError):
                    continue
                try:
                    r = cls(as_ufl(a))
                except (ValueError, ZeroDivisionError, OverflowError, TypeError):
                    continue
                n += 1
                if isinstance(r, (C.ScalarValue, C.Zero)) and not close(val(r), complex(want)):
                    return violated(f"constant folding {name}({a!r}) gives {r!r}, mathematically {want!r}", reproduced=True,
                                    replay={"a": repr(a), "function": name, "got": repr(r), "want": repr(want)})
        # as_ufl round trips
        for a in lits:
            r = as_ufl(a)
            n += 1
            if not close(val(r), complex(a)):
                return violated(f"as_ufl({a!r}) = {r!r}", reproduced=True)
        return bounded_ok(n, "14 literals (ints, floats, complex) x {+,*,/,**, abs, conj, real, imag, neg, 12 math functions}; relative tolerance 1e-12",
                          sample="Sum(as_ufl(0.5), as_ufl(1+2j)) folds to ComplexValue(1.5+2j)")
    run.add("literal-and-math-folding", folding, kind="bounded")

    # ------------------------------------------------------------------ index utilities, path-exhaustive on symbolic ids
    def iu_merge(na, nb):
        def thunk():
            hold = {}

            def mk():
                a = [SymInt(f"a{k}") for k in range(na)]
                b = [SymInt(f"b{k}") for k in range(nb)]
                da = [SymInt(f"da{k}") for k in range(na)]
                db = [SymInt(f"db{k}") for k in range(nb)]
                hold["v"] = (a, b, da, db)
                return (tuple(a), tuple(da), tuple(b), tuple(db))
            paths, complete = explore(ICU.merge_unique_indices, mk)
            if not complete:
                return undecided("path cap")
            a, b, da, db = hold["v"]
            pre = [term(a[k]) < term(a[k + 1]) for k in range(na - 1)] + [term(b[k]) < term(b[k + 1]) for k in range(nb - 1)]
            # dims of equal ids agree (documented precondition)
            pre += [z3.Implies(term(x) == term(y), term(dx) == term(dy)) for x, dx in zip(a, da) for y, dy in zip(b, db)]
            n = 0
            for p in paths:
                if p.kind == "exc":
                    return violated(f"merge_unique_indices raised {type(p.value).__name__}: {p.value} on sorted inputs", reproduced=True,
                                    replay={"pc": [str(c) for c in p.pc]})
                fi, fid = p.value
                fi_t = [term(x) for x in fi]
                fid_t = [term(x) for x in fid]
                claims = [fi_t[k] < fi_t[k + 1] for k in range(len(fi_t) - 1)]            # sorted, duplicate free
                for x, dx in list(zip(a, da)) + list(zip(b, db)):                          # covers the union with right dims
                    claims.append(z3.Or(*[z3.And(term(x) == f, term(dx) == d) for f, d in zip(fi_t, fid_t)]) if fi_t else z3.BoolVal(False))
                for f in fi_t:                                                              # no invention
                    claims.append(z3.Or(*[f == term(x) for x in a + b]))
                st, model = prove(p.pc + pre, z3.And(*claims) if claims else z3.BoolVal(True))
                n += 1
                if st == "refuted":
                    return violated(f"merge_unique_indices: postcondition fails on path {[str(c) for c in p.pc]} at {model}",
                                    replay={"model": model, "result": repr(p.value)}, reproduced=True, backend="z3")
                if st == "unknown":
                    return undecided("z3 unknown")
            return proved("z3(path-exhaustive)", vcs=n, sample=f"merge_unique_indices {na}+{nb} symbolic sorted ids: sorted duplicate-free union, dims preserved; {n} paths")
        return thunk
    for na, nb in [(0, 2), (1, 1), (2, 1), (2, 2), (3, 2)] + ([(3, 3)] if thorough else []):
        run.add(f"index-utils/merge_unique_indices/{na}+{nb}", iu_merge(na, nb), kind="proof")

    def iu_unique(n_):
        def thunk():
            hold = {}

            def mk():
                ids = [SymInt(f"i{k}") for k in range(n_)]
                ds = [SymInt(f"d{k}") for k in range(n_)]
                hold["v"] = (ids, ds)
                return (list(zip(ids, ds)),)
            paths, complete = explore(ICU.unique_sorted_indices, mk)
            ids, ds = hold["v"]
            pre = [term(ids[k]) <= term(ids[k + 1]) for k in range(n_ - 1)]
            n = 0
            for p in paths:
                if p.kind == "exc":
                    if isinstance(p.value, ValueError):
                        # must only refuse when equal ids have different dims
                        st, model = prove(p.pc + pre, z3.Or(*[z3.And(term(ids[a]) == term(ids[b]), term(ds[a]) != term(ds[b]))
                                                              for a in range(n_) for b in range(a + 1, n_)]))
                        n += 1
                        if st != "proved":
                            return violated(f"unique_sorted_indices refuses although dimensions agree: {model}", reproduced=True, replay={"model": model})
                        continue
                    return violated(f"unique_sorted_indices raised {type(p.value).__name__}", reproduced=True)
                out = p.value
                o_i = [term(x[0]) for x in out]
                o_d = [term(x[1]) for x in out]
                claims = [o_i[k] < o_i[k + 1] for k in range(len(o_i) - 1)]
                for x, d in zip(ids, ds):
                    claims.append(z3.Or(*[z3.And(term(x) == a, term(d) == b) for a, b in zip(o_i, o_d)]))
                for a in o_i:
                    claims.append(z3.Or(*[a == term(x) for x in ids]))
                st, model = prove(p.pc + pre, z3.And(*claims))
                n += 1
                if st == "refuted":
                    return violated(f"unique_sorted_indices: postcondition fails at {model}", replay={"model": model}, reproduced=True, backend="z3")
                if st == "unknown":
                    return undecided("z3 unknown")
            return proved("z3(path-exhaustive)", vcs=n, sample=f"unique_sorted_indices on {n_} sorted symbolic (id, dim) pairs")
        return thunk
    for n_ in (1, 2, 3, 4):
        run.add(f"index-utils/unique_sorted_indices/{n_}", iu_unique(n_), kind="proof")

    def iu_bounded():
        n = 0
        ids = range(4)
        for la in range(0, 3):
            for afi in itertools.combinations(ids, la):
                for lb in range(0, 3):
                    for bfi in itertools.combinations(ids, lb):
                        afid = tuple(2 + (i % 2) for i in afi)
                        bfid = tuple(2 + (i % 2) for i in bfi)
                        n += 1
                        fi, fid, ri, rid = ICU.merge_overlapping_indices(afi, afid, bfi, bfid)
                        rep = sorted(set(afi) & set(bfi))
                        free = sorted(set(afi) ^ set(bfi))
                        if list(ri) != [i for i in afi if i in bfi] or sorted(ri) != rep or list(fi) != free \
                                or list(fid) != [2 + (i % 2) for i in free] or list(rid) != [2 + (i % 2) for i in ri]:
                            return violated(f"merge_overlapping_indices({afi},{bfi}) = {(fi, fid, ri, rid)}", reproduced=True)
                        # remove_indices
                        for k in range(0, la + 1):
                            for rem in itertools.permutations(afi, k):
                                n += 1
                                out = ICU.remove_indices(afi, afid, list(rem))
                                if not rem:
                                    if tuple(out) != (afi, afid):
                                        return violated(f"remove_indices({afi}, [])={out}", reproduced=True)
                                    continue
                                nfi, nfid, shape = out
                                keep = [i for i in afi if i not in rem]
                                if list(nfi) != keep or list(nfid) != [2 + (i % 2) for i in keep] or list(shape) != [2 + (i % 2) for i in rem]:
                                    return violated(f"remove_indices({afi},{afid},{list(rem)}) = {out}", reproduced=True,
                                                    replay={"fi": afi, "remove": list(rem), "got": repr(out)})
        return bounded_ok(n, "all sorted id tuples over 4 ids with length <= 2 (merge_overlapping_indices) and all removal orders (remove_indices)",
                          sample="remove_indices((0,1),(2,3),[1,0]) == ((), (), (3,2))")
    run.add("index-utils/merge_overlapping+remove_indices", iu_bounded, kind="bounded")

    # ------------------------------------------------------------------ frame: a constructor never modifies its operands
    # Contract: C(args) returns a node (new or existing) and leaves every argument node exactly as it was.  The dangerous branch is
    # "__new__ returns one of its arguments": python then runs __init__ on that existing object whenever it is an instance of the
    # class.  The classes and their arities are read from the real package on every run; the operand pool contains, for each
    # class, instances of that same class (built by the class itself), so that every `return <parameter>` branch is entered with
    # an operand on which __init__ would run again.
    def ctor_frame():
        import inspect
        s, t, v, M, N3 = Opq("s"), Opq("t"), Opq("v", (2,)), Opq("M", (2, 2)), Opq("N", (3, 3))
        si = Opq("u", (), (I,), (2,))
        pool = [s, t, v, M, N3, si, C.Zero(), C.Zero((2,)), as_ufl(1), as_ufl(2), C.LT(s, t), MultiIndex((I,)), MultiIndex((FixedIndex(0),)),
                MultiIndex(())]
        classes = [K for K in C.all_ufl_classes if issubclass(K, C.Operator) and "__new__" in K.__dict__ and not K._ufl_is_abstract_]
        n_calls = n_same = 0
        entered = {}
        bad = {}

        def snap(args):
            return [(id(o), tuple(id(x) for x in o.ufl_operands), type(o)) for o in args if isinstance(o, C.Operator)]
        for K in classes:
            try:
                params = [p for p in list(inspect.signature(K.__new__).parameters.values())[1:]]
            except (TypeError, ValueError):
                continue
            if any(p.kind in (p.VAR_POSITIONAL, p.VAR_KEYWORD) for p in params):
                arities = (1, 2)
            else:
                arities = (len(params),)
            inst = []
            for n in arities:
                if n > 3:
                    continue
                for args in itertools.product(pool, repeat=n):
                    try:
                        r = K(*args)
                    except BaseException:  # noqa: BLE001
                        continue
                    try:
                        key = (r.ufl_shape, r.ufl_free_indices, str(r)[:0])
                    except BaseException:  # noqa: BLE001
                        continue
                    if type(r) is K and not any(r is a for a in args) and len(inst) < 6 and \
                            key not in [(x.ufl_shape, x.ufl_free_indices, "") for x in inst]:
                        inst.append(r)
            for x in inst:
                for n in arities:
                    if n > 3:
                        continue
                    for pos in range(n):
                        for others in itertools.product(pool + [x], repeat=n - 1):
                            if K.__name__ in bad:
                                break       # the instances of K are corrupted from here on
                            args = list(others[:pos]) + [x] + list(others[pos:])
                            before = snap(args)
                            shown = [str(a)[:80] for a in args]
                            try:
                                r = K(*args)
                            except BaseException:  # noqa: BLE001
                                r = None
                            n_calls += 1
                            if r is not None and any(r is a for a in args) and type(r) is K:
                                n_same += 1
                                entered[K.__name__] = entered.get(K.__name__, 0) + 1
                            if snap(args) != before and K.__name__ not in bad:
                                bad[K.__name__] = (f"{K.__name__}({', '.join(shown)}) modified one of its operands: the existing node it returned "
                                                f"was re-initialised (operand tuple now {[tuple(id(y) == id(a) for y in a.ufl_operands) for a in args if isinstance(a, C.Operator)]}, "
                                                f"True = the node is its own operand)",
                                                {"class": K.__name__, "operands": shown, "position_of_same_class_instance": pos})
        if bad:
            return violated("; ".join(m for m, _ in bad.values()), replay={"cases": [r for _, r in bad.values()]}, reproduced=True, backend="exec")
        if not n_same:
            return undecided("no constructor call returned an existing instance of its own class: the pool does not reach the branch")
        return bounded_ok(n_calls, f"{len(classes)} operator classes with their own __new__, operands from a pool of {len(pool)} (opaque scalars/"
                          "vectors/matrices, zeros, literals, a condition, multi-indices) plus up to 6 instances of the class itself at every "
                          f"position; {n_same} calls returned an existing instance of the class ({entered})",
                          sample=f"Determinant(Determinant(M)) returns the existing node and leaves its operand tuple unchanged; {n_calls} calls")
    run.add("constructor-frame/operands-unchanged", ctor_frame, kind="bounded")

    # ---- reconstruction (the hook every rewriting pass uses to rebuild a node around new operands): o._ufl_expr_reconstruct_(*ops') denotes the
    # SAME operator applied to ops', for every operator class of the template catalogue and all operand values
    from ufv.nodes import templates as _templates
    from ufv.opq import mesh as _mesh
    for t_ in _templates():
        def recon(t_=t_):
            dom = _mesh("triangle") if t_.needs_dom else None
            mk = lambda tag_: [Opq(nm_ + tag_, sh_, fi_, fid_, **({"dom": dom} if dom is not None else {})) for (nm_, sh_, fi_, fid_) in t_.specs]   # noqa: E731
            ops1, ops2 = mk(""), mk("2")
            try:
                o = t_.build(ops1)
                want = t_.build(ops2)
            except REFUSE as ex:
                return proved("refused", sample=f"{t_.name}: the template operands are refused: {ex}"[:160])
            if not isinstance(o, C.Operator) or type(o) is not t_.cls:
                return proved("n/a", sample=f"{t_.name}: construction simplifies to {type(o).__name__}; nothing to reconstruct")
            # the operands the node actually holds (multi-indices, literals, ...), with the opaque ones exchanged
            sub = {id(a_): b_ for a_, b_ in zip(ops1, ops2)}
            from ufl.algorithms.replace import replace as _replace
            deep = {a_: b_ for a_, b_ in zip(ops1, ops2)}
            new_ops = [sub[id(x_)] if id(x_) in sub else (_replace(x_, deep) if isinstance(x_, C.Operator) else x_) for x_ in o.ufl_operands]
            if all(a_ is b_ or (isinstance(a_, C.Expr) and a_ == b_) for a_, b_ in zip(new_ops, o.ufl_operands)):
                return proved("n/a", sample=f"{t_.name}: the node does not hold the template operands")
            try:
                r = o._ufl_expr_reconstruct_(*new_ops)
            except REFUSE as ex:
                if not deliberate(ex):
                    return violated(f"crash instead of a result or a refusal: {crash_text(ex)}", reproduced=True, backend="exec")
                return violated(f"{t_.name}: reconstruction around operands of the same shape is refused: {ex}", replay={"template": t_.name}, reproduced=True)
            if r.ufl_shape != want.ufl_shape or r.ufl_free_indices != want.ufl_free_indices or r.ufl_index_dimensions != want.ufl_index_dimensions:
                return violated(f"{t_.name}: the reconstructed node has shape {r.ufl_shape} / free indices {r.ufl_free_indices}, the operator applied to the new operands has "
                                f"{want.ufl_shape} / {want.ufl_free_indices}", replay={"template": t_.name, "got": str(r)[:300]}, reproduced=True, backend="structural")
            if type(r) is type(want) and r == want:
                res = proved("structural", sample=f"{t_.name}: the reconstructed node equals the operator applied to the new operands")
            else:
                mkw = real_world(gdim=2) if t_.needs_dom else real_world()
                res = check_same(mkw, r, lambda w, c, env: den(w, want, c, env), want.ufl_shape, want.ufl_free_indices, want.ufl_index_dimensions, timeout_ms=tmo,
                                 what=f"{t_.name}: _ufl_expr_reconstruct_ with new operands")
            if res.status != "proved" or dom is None or len(ops1) != 1 or ops1[0].ufl_free_indices:
                return res
            # differential operators: a new operand that is constant on each cell (the reconstruction may fold to a zero): still the operator's shape
            import ufl as _u
            cst = _u.Constant(dom, ops1[0].ufl_shape)
            try:
                rc, wc = o._ufl_expr_reconstruct_(cst), t_.build([cst])
            except REFUSE as ex:
                if not deliberate(ex):
                    return violated(f"crash instead of a result or a refusal: {crash_text(ex)}", reproduced=True, backend="exec")
                return res
            if rc.ufl_shape != wc.ufl_shape or rc.ufl_shape != o.ufl_shape:
                return violated(f"{t_.name}: reconstructed around a cellwise-constant operand of shape {cst.ufl_shape} the node has shape {rc.ufl_shape}; the operator applied to "
                                f"it has {wc.ufl_shape} (the node itself {o.ufl_shape})", replay={"template": t_.name, "got": repr(rc)[:300]}, reproduced=True, backend="structural")
            return res
        run.add(f"reconstruct/{t_.name}", recon, kind="values")

    # ---- canary: a wrong intended operation must be refuted
    def canary():
        a, b = Opq("a"), Opq("b")
        return check_same(real_world(), C.Sum(a, b), lambda w, c, e: N.sub(D(w, a), D(w, b)), (), what="canary sum-as-difference")
    run.add("canary/sum-as-difference", canary, kind="canary")
