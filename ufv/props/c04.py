"""C04 — diff() with respect to variables computes partial derivatives.

Functions under contract: VariableRuleset.process registry, VariableRuleset._make_identity, operators.diff,
VariableDerivative.__new__, the VariableDerivative handler of DerivativeRuleDispatcher.
Contract: den(result)[c ++ cv] == d den(f)[c] / d v[cv], holding everything not expressed through v fixed (dual numbers with
the variable's label as the independent quantity); a Variable with the matching label differentiates to the higher-rank
identity, other variables by the chain rule; shape f.shape + v.shape.
"""
from __future__ import annotations

import itertools

import ufl
import ufl.classes as C
from ufl import as_vector, conditional, diff, div, dot, exp, grad, inner, ln, lt, sin, sqrt, tr, variable, det, outer
from ufl.algorithms.apply_algebra_lowering import apply_algebra_lowering
from ufl.algorithms.apply_derivatives import VariableRuleset, apply_derivatives
from ufl.core.multiindex import Index
from ufl.differentiation import VariableDerivative

from ufv import elements as E
from ufv import num as N
from ufv.core import crash_text, deliberate, proved, undecided, violated
from ufv.den import GateauxLayer, VarLayer, World, den
from ufv.drv import registry_of, rule_case
from ufv.nodes import templates
from ufv.opq import Opq, mesh
from ufv.semv import check_same
from ufv.terms import atoms_world

LEVEL = "other"
TECHNIQUE = ("contract VCs on the real VariableRuleset rules (opaque operands, stand-ins) against dual-number partial derivatives w.r.t. "
             "a labelled variable; diff()/apply_derivatives pipeline on a corpus with scalar/vector/tensor, nested and repeated variables")
LEVEL_TEXT = "All-values proofs per (rule, operand pattern, variable rank 0-2); pipeline corpus finite."
LEVEL_NOTE = "Trusted: ufv/num.py, ufv/den.py (Variable semantics: independent quantity of its label), z3."
TRUSTED = ["ufv/num.py, ufv/den.py", "z3, ufv/alg.py"]
ASSUMPTIONS = ["variable shapes (), (2,), (2,2)/(2,3); operand shapes per ufv/nodes.py", "smooth points", "finite corpus; real mode"]
EXPLANATION = ("Local soundness of each variable-derivative rule for all values; chain rule through nested variables; identity tensors "
               "of rank 0/2/4; end-to-end diff() incl. repeated differentiation.")


def build(run):
    thorough = run.tier == "thorough"
    tmo = 20000
    tri = mesh("triangle")
    for T, fn in registry_of(VariableRuleset).items():
        run.functions[f"VariableRuleset.process[{getattr(T, '__name__', T)}]"] = "registered"
    run.function(VariableRuleset._make_identity)
    run.function(diff)
    run.function(VariableDerivative.__new__)

    VS = [(), (2,)] + ([(2, 3)] if thorough else [])
    for t in templates():
        if t.name in ("CellAvg", "FacetAvg") or issubclass(t.cls, (C.CompoundTensorOperator, C.CompoundDerivative)):
            continue
        k = len(t.specs)
        for V in VS:
            for kinds in itertools.product(("opq", "zero"), repeat=k):
                if k > 2 and not thorough and kinds.count("opq") not in (0, 1, k):
                    continue
                tag = f"VariableRuleset/{t.name}/V={V}/" + ",".join(kinds)

                def thunk(t=t, V=V, kinds=kinds, tag=tag):
                    var = C.Variable(Opq("vv", V, dom=tri), C.Label(80001))
                    return rule_case(lambda: VariableRuleset(var), t, kinds, V, lambda seeds, vc: VarLayer(var.label(), vc, seeds), dom=tri,
                                     tmo=tmo, tag=tag)
                run.add(tag, thunk, kind="values")

    # ---- variable / coefficient rules
    def var_self(V):
        def thunk():
            inner_ = Opq("vv", V, dom=tri)
            var = C.Variable(inner_, C.Label(80002))
            rs = VariableRuleset(var)
            rs._visited_cache[(inner_, ())] = Opq("dvv", V + V, dom=tri)     # whatever the inner expression's derivative is
            r = rs(var)
            rank = len(V)

            def spec(w, c, env):
                return w.derive(VarLayer(var.label(), c[rank:]), lambda w2: den(w2, var, c[:rank], env))
            return check_same(lambda s, v: World(symbolic=s, valuation=v), r, spec, V + V, timeout_ms=tmo, what=f"d v / d v, shape {V}")
        return thunk
    for V in [(), (2,), (2, 3), (2, 2)]:
        run.add(f"VariableRuleset/variable-itself/V={V}", var_self(V), kind="values")

    def var_other(V, kind):
        def thunk():
            var = C.Variable(Opq("vv", V, dom=tri), C.Label(80003))
            a = Opq("a", (2,), dom=tri)
            other = C.Variable(a, C.Label(80004))
            rs = VariableRuleset(var)
            if kind == "opq":
                da = Opq("da", (2,) + V, dom=tri)
                seeds = {"a": "da"}
            else:
                da = C.Zero((2,) + V)
                seeds = {}
            rs._visited_cache[(a, ())] = da

            def spec(w, c, env):
                return w.derive(VarLayer(var.label(), c[1:], seeds), lambda w2: den(w2, other, c[:1], env))
            return check_same(lambda s, v: World(symbolic=s, valuation=v), rs(other), spec, (2,) + V, timeout_ms=tmo,
                              what=f"chain rule through another variable, V={V}, inner {kind}")
        return thunk
    for V in [(), (2,)]:
        for kind in ("opq", "zero"):
            run.add(f"VariableRuleset/other-variable/V={V}/{kind}", var_other(V, kind), kind="values")

    # ---- pipeline: diff + apply_derivatives
    cell = tri.ufl_cell()
    S = ufl.FunctionSpace(tri, E.LagrangeElement(cell, 2))
    Vs = ufl.FunctionSpace(tri, E.LagrangeElement(cell, 2, (2,)))
    Ts = ufl.FunctionSpace(tri, E.LagrangeElement(cell, 2, (2, 2)))
    f, g = ufl.Coefficient(S), ufl.Coefficient(S)
    u, A = ufl.Coefficient(Vs), ufl.Coefficient(Ts)
    i, j = Index(), Index()

    def pipe(name, mk):
        def thunk():
            e = mk()
            try:
                r = apply_derivatives(apply_algebra_lowering(e))
            except (ValueError, NotImplementedError, RuntimeError) as ex:
                if not deliberate(ex):
                    return violated(f"crash instead of a result or a refusal: {crash_text(ex)}", reproduced=True, backend="exec")
                return proved("refused", sample=f"{name}: refuses {ex}"[:200])
            except Exception as ex:  # noqa: BLE001
                return violated(f"{name}: crashed {type(ex).__name__}: {ex}", reproduced=True, replay={"expr": str(e)})
            return check_same(atoms_world(), r, lambda w, c, env: den(w, e, c, env), e.ufl_shape, e.ufl_free_indices, e.ufl_index_dimensions,
                              timeout_ms=tmo, what=name)
        run.add(f"pipeline/{name}", thunk, kind="values")

    def mk_cases():
        s = variable(f)
        yield "diff(s^3*g, s)", lambda: diff(variable(f) ** 3 * g, variable(f)) if False else _d(lambda s_: s_ ** 3 * g, variable(f))
        yield "diff(sin(s)*exp(s), s)", lambda: _d(lambda s_: sin(s_) * exp(s_), variable(f * g))
        yield "diff(s*f, s) (f not through s)", lambda: _d(lambda s_: s_ * f, variable(f))
        yield "diff(|w|^2, w) vector", lambda: _d(lambda w_: w_[i] * w_[i], variable(u))
        yield "diff(A w, w) vector -> matrix", lambda: _d(lambda w_: dot(A, w_), variable(u))
        yield "diff(psi(F), F) tensor", lambda: _d(lambda F_: tr(F_ * F_.T) + ln(1 + det(F_) ** 2), variable(A))
        yield "diff(F:F, F)", lambda: _d(lambda F_: inner(F_, F_), variable(A))
        yield "diff(outer(w,w), w)", lambda: _d(lambda w_: outer(w_, w_), variable(u))
        yield "second diff scalar", lambda: _d2(lambda s_: s_ ** 4 + sin(s_) * g, variable(f))
        yield "second diff vector", lambda: _d2(lambda w_: (w_[i] * w_[i]) ** 2, variable(u))
        yield "nested variables chain rule", lambda: _nested()
        yield "diff wrt inner of nested", lambda: _nested(inner_=True)
        yield "conditional", lambda: _d(lambda s_: conditional(lt(s_, g), s_ * s_, g * s_), variable(f))
        yield "sqrt", lambda: _d(lambda s_: sqrt(1 + s_ * s_), variable(f))
        yield "diff(grad(s)-free expr with grad f)", lambda: _d(lambda s_: s_ * grad(f)[i] * grad(f)[i], variable(f))
        yield "diff wrt coefficient", lambda: diff(f * f * g + grad(f)[i] * grad(f)[i], f)
        yield "diff wrt vector coefficient", lambda: diff(u[i] * u[i] * f, u)
        yield "as_vector of variable", lambda: _d(lambda s_: as_vector([s_ * s_, s_ * g])[i] * u[i], variable(f))
        yield "variable used at two components", lambda: _d(lambda w_: w_[0] * w_[1] + w_[1] ** 2, variable(u))

        # several variables in ONE expansion pass (the dispatcher builds one VariableRuleset per variable)
        def two(kind):
            x_, y_ = variable(f), variable(g)
            e_ = sin(x_) * y_ * y_ + x_ ** 3 * y_
            if kind == "sum":
                return diff(e_, x_) + 2 * diff(e_, y_)
            if kind == "mixed second":
                return diff(diff(e_, x_), y_)
            if kind == "vector":
                return as_vector([diff(e_, x_), diff(e_, y_)])[i] * u[i]
            a_, b_ = variable(u), variable(2 * u)
            h_ = (a_[i] * b_[i]) * a_[0]
            return (diff(h_, a_) + 2 * diff(h_, b_))[j] * u[j]
        yield "two scalar variables of the same shape, sum of diffs", lambda: two("sum")
        yield "two scalar variables, mixed second derivative", lambda: two("mixed second")
        yield "two scalar variables, vector of diffs", lambda: two("vector")
        yield "two vector variables of the same shape", lambda: two("vectors")
        yield "variable and coefficient of the same shape", lambda: (lambda x_: diff(x_ * x_ * g, x_) + diff(x_ * g * g, g))(variable(f))

        # the variable wraps an expression that derivative expansion itself rewrites (a derivative of a non-terminal): the variable
        # must still be recognised (by its label) inside f after the wrapped expression was rewritten there
        yield "variable wraps (f*g).dx(0)", lambda: _d(lambda s_: s_ * s_ * g + sin(s_), variable((f * g).dx(0)))
        yield "variable wraps grad(f*f) (vector)", lambda: _d(lambda w_: w_[i] * w_[i] * f + w_[0], variable(grad(f * f)))[j] * u[j]
        yield "variable wraps div(f*u)", lambda: _d(lambda s_: exp(s_) * f, variable(div(f * u)))
        yield "variable wraps grad(grad(f*g))[0,1]", lambda: _d(lambda s_: s_ ** 3, variable(grad(grad(f * g))[0, 1]))
        yield "variable wraps a diff", lambda: (lambda s0: _d(lambda s_: s_ * s_ * s0, variable(diff(s0 ** 3 * g, s0))))(variable(f))

        # a variable that directly labels another variable: two different variables (diff w.r.t. the outer one holds the inner one fixed)
        def direct(kind):
            v_ = variable(f)
            w_ = variable(v_)
            e_ = w_ ** 2 * v_ + sin(w_) + v_ ** 3
            if kind == "outer":
                return diff(e_, w_)
            if kind == "inner":
                return diff(e_, v_)
            a_ = variable(u)
            b_ = variable(a_)
            return diff(dot(b_, a_) * b_[0], b_)[j] * u[j]
        yield "variable of a variable, diff w.r.t. the outer one", lambda: direct("outer")
        yield "variable of a variable, diff w.r.t. the inner one", lambda: direct("inner")
        yield "vector variable of a variable", lambda: direct("vector")

    def _d(F, v):
        return diff(F(v), v)

    def _d2(F, v):
        return diff(diff(F(v), v), v)

    def _nested(inner_=False):
        s = variable(f)
        t = variable(s * s + g)
        e = t ** 3 * s
        return diff(e, s if inner_ else t)
    # ---- contract of ufl.variable(e): a NEW Variable node wrapping e under a label that occurs nowhere in e (so that diff w.r.t. it
    # treats everything inside e, including variables, as held fixed unless reached through the new label)
    def variable_contract():
        import ufl.classes as C_
        from ufl.corealg.traversal import unique_pre_traversal
        v1 = variable(f)
        cases = [("coefficient", f), ("expression", f * g + sin(f)), ("vector", u), ("a variable", v1), ("a variable of a variable", variable(v1)),
                 ("expression of a variable", v1 * v1 + g), ("literal", ufl.as_ufl(2.5))]
        n = 0
        for nm, e in cases:
            r1, r2 = variable(e), variable(e)
            for r in (r1, r2):
                n += 1
                if type(r) is not C_.Variable:
                    return violated(f"variable({nm}) returned a {type(r).__name__}, not a Variable", reproduced=True, replay={"operand": str(e)})
                if r is e:
                    return violated(f"variable({nm}) returned its operand: the new variable is not distinct from what it labels "
                                    f"(diff w.r.t. it would not hold the operand's own variables fixed)", reproduced=True, replay={"operand": str(e)})
                if not (r.ufl_operands[0] == e) or r.ufl_shape != e.ufl_shape:
                    return violated(f"variable({nm}) wraps {r.ufl_operands[0]} instead of its operand", reproduced=True, replay={"operand": str(e)})
                inner_labels = {x for x in unique_pre_traversal(e) if isinstance(x, C_.Label)}
                if r.ufl_operands[1] in inner_labels:
                    return violated(f"variable({nm}) reuses a label that occurs inside its operand", reproduced=True, replay={"operand": str(e)})
            if r1.ufl_operands[1] == r2.ufl_operands[1]:
                return violated(f"two calls of variable({nm}) give the same label", reproduced=True, replay={"operand": str(e)})
        return proved("exec", vcs=n, sample=f"{len(cases)} operand classes: a new Variable node, wrapping the operand, under a fresh label")
    run.function(variable)
    run.add("variable()/new-node-fresh-label", variable_contract, kind="values")

    # ---- everything the language builds ON TOP of a variable reaches the wrapped value only through the Variable node (indexing, slicing, algebra,
    # tensor operators): a construction-time shortcut that looks through the wrapper makes diff w.r.t. the variable lose the dependence
    def operators_keep_the_variable():
        import ufl.classes as C_
        from ufl.corealg.traversal import unique_pre_traversal
        u2 = ufl.Coefficient(Vs)
        wrapped = [("vector coefficient", lambda: u), ("list tensor", lambda: as_vector([f, g * f])), ("sum of vectors", lambda: u + u2), ("scaled vector", lambda: 2 * u),
                   ("component tensor", lambda: ufl.as_tensor(u[i] * f, (i,))), ("matrix-vector product", lambda: dot(A, u)), ("zero-free conditional", lambda: conditional(lt(f, g), u, u2)),
                   ("variable of a vector variable", lambda: variable(u2)), ("gradient", lambda: grad(f * g))]
        accesses = [("v[0]", lambda v: v[0]), ("v[1]*v[0]", lambda v: v[1] * v[0]), ("v[i]*v[i]", lambda v: v[i] * v[i]), ("dot(v, v)", lambda v: dot(v, v)),
                    ("inner(v, u)", lambda v: inner(v, u)), ("outer(v, v)[0, 1]", lambda v: outer(v, v)[0, 1]), ("as_vector(v[i], i)", lambda v: ufl.as_tensor(v[i], (i,))),
                    ("v + u", lambda v: v + u), ("f*v", lambda v: f * v), ("-v", lambda v: -v), ("v/g", lambda v: v / g), ("v[::-1]", lambda v: v[::-1]), ("v[:]", lambda v: v[:]),
                    ("as_vector([v[1], v[0]])", lambda v: as_vector([v[1], v[0]])), ("as_vector([v[0], v[1]])", lambda v: as_vector([v[0], v[1]])),
                    ("lowered dot(v, v)", lambda v: apply_algebra_lowering(dot(v, v))), ("lowered inner(v, v)", lambda v: apply_algebra_lowering(inner(v, v)))]
        n = 0
        for wn, mkw in wrapped:
            for an, acc in accesses:
                v = variable(mkw())
                try:
                    e = acc(v)
                except (ValueError, TypeError) as ex:
                    if not deliberate(ex):
                        return violated(f"crash instead of a result or a refusal: {crash_text(ex)}", reproduced=True, backend="exec")
                    continue
                n += 1
                lab = v.ufl_operands[1]
                if not any(x is lab or (isinstance(x, C_.Label) and x == lab) for x in unique_pre_traversal(e)):
                    return violated(f"{an} with v = variable({wn}) builds {str(e)[:160]}, which no longer contains the variable: diff({an}, v) would be zero "
                                    f"although the expression depends on v", replay={"variable_of": wn, "access": an, "result": str(e)[:600]}, reproduced=True, backend="structural")
        return proved("exec+structural", vcs=n, sample=f"{n} (wrapped expression, access) pairs: the result reaches the wrapped value only through the Variable node")
    run.add("variable()/operators-keep-the-variable", operators_keep_the_variable, kind="values")

    for nm_, mk_ in mk_cases():
        pipe(nm_, mk_)

    def canary():
        s = variable(f)
        r = apply_derivatives(diff(s ** 3, s))
        return check_same(atoms_world(), r, lambda w, c, env: N.mul(2, N.ipow(den(w, f), 2)), (), what="canary 2 s^2 instead of 3 s^2")
    run.add("canary/wrong-power-rule", canary, kind="canary")
