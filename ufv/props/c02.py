"""C02 — Gateaux derivatives are the true directional derivatives.

Functions under contract: every handler in GenericDerivativeRuleset.process and GateauxDerivativeRuleset.process
(live singledispatch registries), _process_coefficient, the Gateaux Grad handler and its helpers, the
CoefficientDerivative handler of DerivativeRuleDispatcher, formoperators._handle_derivative_arguments and derivative.

Contract for the handler of type T with operands a_i and induction-hypothesis stand-ins d_i (shape a_i.shape + var_shape):
    den(h(T(a), d)) == derivative part of the dual-number evaluation of T itself (ufv.num), for all values.
Terminals: D_w[v](w) = v, D(w[c]) by components, other coefficients 0 or the user relation sum_k (dg/dw_k) v_k,
arguments and geometry 0, D(grad w) = grad v.  Second derivatives: two stacked dual layers.  Raising is a refusal.
"""
from __future__ import annotations

import itertools

import ufl
import ufl.classes as C
from ufl import (as_vector, conditional, derivative, dx, exp, grad, inner, ln, lt, max_value, sin, cos, sqrt, variable, atan2, split, dot, div,
                 tr, sym, det, outer)
from ufl.algorithms import expand_derivatives
from ufl.algorithms.apply_derivatives import (DerivativeRuleDispatcher, GateauxDerivativeRuleset, GenericDerivativeRuleset)
from ufl.core.multiindex import Index
from ufl.formoperators import _handle_derivative_arguments

from ufv import elements as E
from ufv import num as N
from ufv.core import crash_text, deliberate, proved, undecided, violated
from ufv.den import GateauxLayer, World, den
from ufv.drv import registry_of, rule_case
from ufv.nodes import templates
from ufv.opq import mesh
from ufv.semv import check_same
from ufv.terms import atoms_hook, atoms_world

LEVEL = "other"
TECHNIQUE = ("contract VCs on the real derivative rules: each handler run on opaque operands with induction-hypothesis stand-ins injected "
             "through the traverser cache; den(result) == dual-number derivative of the node's own denotation, for all values "
             "(z3 / polynomial normaliser, textbook identities for elementary functions); whole derivative()/expand_derivatives pipeline "
             "on a corpus incl. component, tuple, mixed and second derivatives")
LEVEL_TEXT = ("All-values proofs per (rule, operand-dependence pattern, variable shape); shapes and var_shape ranks enumerated (<= 2). "
              "End-to-end obligations over a finite corpus of integrands confirm the composition incl. argument handling.")
LEVEL_NOTE = ("Trusted: ufv/num.py dual numbers + derivative table of elementary functions (textbook), ufv/den.py, z3. Identities used "
              "as ground axioms: sin^2+cos^2=1, double angles, cosh^2-sinh^2=1, pow(a,b)=pow(a,b-1)a, Bessel recurrences/reflection.")
TRUSTED = ["ufv/num.py (dual numbers, elementary function derivative table)", "ufv/den.py", "z3, ufv/alg.py"]
ASSUMPTIONS = ["var_shape in {(), (2,), (2,3)}; operand shapes per ufv/nodes.py", "real mode (complex: Conj/Real/Imag rules checked structurally via den)",
               "points where the integrand is smooth and defined (side conditions: denominators != 0, sqrt/ln arguments > 0, |x| away from 0)",
               "end-to-end corpus finite; gdim 2"]
EXPLANATION = ("Local soundness of every derivative rule against dual-number semantics for all operand values, plus end-to-end checks of "
               "derivative() argument handling (whole / component / tuple / mixed / automatic argument), user coefficient-derivative "
               "relations and second derivatives; lemmas/Induction.lean lifts local soundness to all expression depths.")


def build(run):
    thorough = run.tier == "thorough"
    tmo = 20000
    tri = mesh("triangle")
    reg = registry_of(GenericDerivativeRuleset)
    for T, fn in reg.items():
        run.functions[f"GenericDerivativeRuleset.process[{getattr(T, '__name__', T)}]"] = _h(fn)
    for T, fn in registry_of(GateauxDerivativeRuleset).items():
        run.functions[f"GateauxDerivativeRuleset.process[{getattr(T, '__name__', T)}]"] = _h(fn)
    run.function(GateauxDerivativeRuleset._process_coefficient)
    run.function(_handle_derivative_arguments)
    run.function(derivative)

    VS = [(), (2,)] + ([(2, 3)] if thorough else [])
    SKIP = ("CellAvg", "FacetAvg")
    for t in templates():
        if t.name in SKIP or issubclass(t.cls, (C.CompoundTensorOperator, C.CompoundDerivative)):
            continue
        k = len(t.specs)
        for V in VS:
            for kinds in itertools.product(("opq", "zero"), repeat=k):
                if k > 2 and kinds.count("zero") not in (0, k) and not thorough and kinds.count("opq") > 2:
                    continue
                tag = f"generic/{t.name}/V={V}/" + ",".join(kinds)

                def thunk(t=t, V=V, kinds=kinds, tag=tag):
                    return rule_case(lambda: GenericDerivativeRuleset(var_shape=V), t, kinds, V,
                                     lambda seeds, vc: GateauxLayer(seeds, vc), dom=tri, tmo=tmo, tag=tag)
                run.add(tag, thunk, kind="values")

    # ---- the same local rules with COMPLEX field values (the variation parameter tau stays real): the derivative of the R-linear but not
    # C-linear operators (conj, real, imag, the conjugating products) must act on the variation the same way
    from ufv.semv import complex_world
    CPLX = ("Conj", "Real", "Imag", "Sum", "Product", "Division", "Inner", "Dot", "Outer", "Indexed", "IndexSum", "ComponentTensor", "ListTensor", "Power")
    for t in templates():
        if t.name in ("Power[0.5]", "Power[a,b]"):      # complex non-integer powers have no denotation in the spec (branch cuts)
            continue
        if not any(t.name == c_ or t.name.startswith(c_ + "[") for c_ in CPLX) or issubclass(t.cls, (C.CompoundTensorOperator, C.CompoundDerivative)):
            continue
        k = len(t.specs)
        for V in [(), (2,)]:
            for kinds in itertools.product(("opq", "zero"), repeat=k):
                if kinds.count("opq") == 0 or (k > 2 and kinds.count("zero") not in (0, k)):
                    continue
                tag = f"generic-complex/{t.name}/V={V}/" + ",".join(kinds)

                def thunk(t=t, V=V, kinds=kinds, tag=tag):
                    return rule_case(lambda: GenericDerivativeRuleset(var_shape=V), t, kinds, V,
                                     lambda seeds, vc: GateauxLayer(seeds, vc), dom=tri, tmo=tmo, tag=tag, mkworld=complex_world())
                run.add(tag, thunk, kind="values")

    # ---- Gateaux terminal rules and the whole pipeline on a corpus
    cell = tri.ufl_cell()
    S = ufl.FunctionSpace(tri, E.LagrangeElement(cell, 2))
    V = ufl.FunctionSpace(tri, E.LagrangeElement(cell, 2, (2,)))
    T = ufl.FunctionSpace(tri, E.LagrangeElement(cell, 2, (2, 2)))
    M = ufl.FunctionSpace(tri, E.MixedElement([E.LagrangeElement(cell, 2, (2,)), E.LagrangeElement(cell, 1)]))
    f, g, h = ufl.Coefficient(S), ufl.Coefficient(S), ufl.Coefficient(S)
    u, A = ufl.Coefficient(V), ufl.Coefficient(T)
    m = ufl.Coefficient(M)
    vf, vu, vA, vm = ufl.Argument(S, 1), ufl.Argument(V, 1), ufl.Argument(T, 1), ufl.Argument(M, 1)
    v2f, v2u = ufl.Argument(S, 2), ufl.Argument(V, 2)
    i, j = Index(), Index()
    x = ufl.SpatialCoordinate(tri)
    n = ufl.FacetNormal(tri)

    def nm(t):
        if isinstance(t, C.Coefficient):
            return f"w{t.count()}"
        p = t.part()
        return f"v{t.number()}" + (f"p{p}" if p is not None else "")

    def whole(wc, va):
        return {nm(wc): nm(va)}

    def comp_seed(wc, mapping):
        """mapping: component tuple of wc -> (argument, component of argument)"""
        def fn(desc, world):
            name, comp, idx, dirs = desc
            tgt = mapping.get(tuple(comp))
            if tgt is None:
                return None
            a, ac = tgt
            return (nm(a), tuple(ac), idx, dirs)
        return {nm(wc): fn}

    integrands = [
        ("f*f", lambda: f * f), ("f**3*g", lambda: f ** 3 * g), ("u.u", lambda: u[i] * u[i]), ("grad f . grad f", lambda: grad(f)[i] * grad(f)[i]),
        ("f div u", lambda: f * u[i].dx(i)), ("sqrt(1+f^2)", lambda: sqrt(1 + f * f)), ("exp(f) g", lambda: exp(f) * g), ("f/(1+g^2)", lambda: f / (1 + g * g)),
        ("g/(1+f^2)", lambda: g / (1 + f * f)), ("conditional", lambda: conditional(lt(f, g), f * f, g * f)), ("A:A f", lambda: A[i, j] * A[i, j] * f),
        ("u A u", lambda: u[i] * A[i, j] * u[j]), ("sym grad u : grad u", lambda: (grad(u)[i, j] + grad(u)[j, i]) * grad(u)[i, j]),
        ("variable", lambda: variable(f * f) * f), ("ln", lambda: ln(1 + f * f)), ("sin cos", lambda: sin(f) * cos(g * f)), ("atan2", lambda: atan2(f, 1 + g * g)),
        ("f**g", lambda: (1 + f * f) ** g), ("max_value", lambda: max_value(f, g) * f), ("inner(grad u, grad u)", lambda: inner(grad(u), grad(u))),
        ("dot(u,u)*div(u)", lambda: dot(u, u) * div(u)), ("tr(sym(grad u)) f", lambda: tr(sym(grad(u))) * f), ("det(A)", lambda: det(A)),
        ("inner(outer(u,u), A)", lambda: inner(outer(u, u), A)), ("x-dependent", lambda: x[0] * f * f + x[1] * f), ("hessian", lambda: grad(grad(f))[i, j] * A[i, j] * f),
        ("abs", lambda: abs(f) * g), ("as_vector", lambda: as_vector([f * f, f * g])[i] * u[i]), ("power 0.5", lambda: (1 + f * f) ** 0.5),
        ("restricted-free facet normal", lambda: f * f * n[0]),
        ("inner(grad A, grad A)", lambda: inner(grad(A), grad(A))), ("A : grad(u) + div(A).u", lambda: inner(A, grad(u)) + dot(div(A), u)),
    ]

    def e2e(name, mkform_and_seed, nlayers=1):
        def thunk():
            try:
                F0, dF, seeds = mkform_and_seed()
            except Exception as ex:  # noqa: BLE001
                return undecided(f"{name}: could not build: {type(ex).__name__}: {ex}")
            try:
                D = expand_derivatives(dF)
            except (ValueError, NotImplementedError, RuntimeError) as ex:
                if not deliberate(ex):
                    return violated(f"crash instead of a result or a refusal: {crash_text(ex)}", reproduced=True, backend="exec")
                return proved("refused", sample=f"{name}: raises {type(ex).__name__}: {ex}"[:200])
            except Exception as ex:  # noqa: BLE001
                return violated(f"{name}: derivative expansion crashed: {type(ex).__name__}: {ex}", reproduced=True, replay={"form": str(F0)[:500]})
            itgs = D.integrals()
            if not itgs:
                r = C.Zero()
            else:
                r = itgs[0].integrand()
                for it in itgs[1:]:
                    r = r + it.integrand()
            e = F0.integrals()[0].integrand()

            def spec(w, c, env):
                def go(wk, layers):
                    if not layers:
                        return den(wk, e, c, env)
                    return wk.derive(GateauxLayer(layers[0]), lambda w2: go(w2, layers[1:]))
                return go(w, list(reversed(seeds)))
            return check_same(atoms_world(), r, spec, (), timeout_ms=tmo, what=name)
        run.add(name, thunk, kind="values")

    for inm, mk in integrands:
        e2e(f"derivative/whole f/{inm}", lambda mk=mk: (mk() * dx, derivative(mk() * dx, f, vf), [whole(f, vf)]))
    for inm, mk in integrands:
        if inm in ("u.u", "f div u", "u A u", "sym grad u : grad u", "inner(grad u, grad u)", "dot(u,u)*div(u)", "tr(sym(grad u)) f",
                   "inner(outer(u,u), A)", "as_vector"):
            e2e(f"derivative/whole u/{inm}", lambda mk=mk: (mk() * dx, derivative(mk() * dx, u, vu), [whole(u, vu)]))
            e2e(f"derivative/component u[1]/{inm}", lambda mk=mk: (mk() * dx, derivative(mk() * dx, u[1], vf), [comp_seed(u, {(1,): (vf, ())})]))
            e2e(f"derivative/second (u,u)/{inm}", lambda mk=mk: (mk() * dx, derivative(derivative(mk() * dx, u, vu), u, v2u),
                                                                [whole(u, vu), whole(u, v2u)]))
        if inm in ("A:A f", "u A u", "det(A)", "inner(outer(u,u), A)", "hessian", "inner(grad A, grad A)", "A : grad(u) + div(A).u"):
            e2e(f"derivative/whole A/{inm}", lambda mk=mk: (mk() * dx, derivative(mk() * dx, A, vA), [whole(A, vA)]))
            e2e(f"derivative/component A[0,1]/{inm}", lambda mk=mk: (mk() * dx, derivative(mk() * dx, A[0, 1], vf), [comp_seed(A, {(0, 1): (vf, ())})]))
    for inm, mk in integrands[:12]:
        e2e(f"derivative/second (f,f)/{inm}", lambda mk=mk: (mk() * dx, derivative(derivative(mk() * dx, f, vf), f, v2f), [whole(f, vf), whole(f, v2f)]))
        e2e(f"derivative/mixed second (f,g)/{inm}", lambda mk=mk: (mk() * dx, derivative(derivative(mk() * dx, f, vf), g, v2f), [whole(f, vf), whole(g, v2f)]))
    # tuple of coefficients, direction = tuple of arguments
    e2e("derivative/tuple (f,u)", lambda: ((f * u[i] * u[i] + f * f * g) * dx, derivative((f * u[i] * u[i] + f * f * g) * dx, (f, u), (vf, vu)),
                                           [{**whole(f, vf), **whole(u, vu)}]))
    # the same, with the coefficients listed in every order (the pairing coefficient <-> direction must not depend on the
    # creation order of the coefficients): equal-shaped coefficients, distinct directions
    v3f = ufl.Argument(S, 3)
    Ftup = lambda: (f * f * g + g * g * g * h + sin(h) * f) * dx     # noqa: E731
    dirs = {f: vf, g: v2f, h: v3f}
    for perm in itertools.permutations((f, g, h)):
        for k in (2, 3):
            cs = perm[:k]
            if k == 2 and cs in ((f, g), (f, h), (g, h)) and run.tier != "thorough":
                continue        # creation order: covered by derivative/tuple (f,u)
            tagp = ",".join("fgh"[(f, g, h).index(c_)] for c_ in cs)
            e2e(f"derivative/tuple listed as ({tagp})", lambda cs=cs: (Ftup(), derivative(Ftup(), cs, tuple(dirs[c_] for c_ in cs)),
                                                                       [{k_: v_ for c_ in cs for k_, v_ in whole(c_, dirs[c_]).items()}]))
    e2e("derivative/tuple (u[1], f) components of different coefficients, reverse creation order",
        lambda: ((f * u[i] * u[i] + u[1] * f * f) * dx, derivative((f * u[i] * u[i] + u[1] * f * f) * dx, (u[1], f), (v2f, vf)),
                 [{**comp_seed(u, {(1,): (v2f, ())}), **whole(f, vf)}]))

    # the differentiation variable lives in a degree-0 space (cellwise constant in space, but a variable of the Gateaux derivative):
    # shortcuts valid for spatial gradients ("the operand is cellwise constant, so its derivative vanishes") do not apply
    D0 = ufl.FunctionSpace(tri, E.FiniteElement("Discontinuous Lagrange", cell, 0, (), ufl.pullback.identity_pullback, ufl.sobolevspace.L2))
    c0, vc0, v2c0 = ufl.Coefficient(D0), ufl.Argument(D0, 1), ufl.Argument(D0, 2)
    dg0 = [("(1+f^2)**c", lambda: (1 + f * f) ** c0), ("(1+f^2 c^2)**c", lambda: (1 + f * f * c0 * c0) ** c0), ("c*c*f", lambda: c0 * c0 * f),
           ("sin(c)*f + exp(c)", lambda: sin(c0) * f + exp(c0)), ("f/(1+c^2)", lambda: f / (1 + c0 * c0)), ("(1+c^2)**f", lambda: (1 + c0 * c0) ** f),
           ("abs(c)*g", lambda: abs(c0) * g), ("conditional(c<f, c*c, f*c)", lambda: conditional(lt(c0, f), c0 * c0, f * c0)), ("sqrt(1+c^2)", lambda: sqrt(1 + c0 * c0) * f),
           ("grad(f).grad(f) c^3", lambda: grad(f)[i] * grad(f)[i] * c0 ** 3), ("max_value(c, f) c", lambda: max_value(c0, f) * c0), ("ln(1+c^2) f", lambda: ln(1 + c0 * c0) * f)]
    for inm, mk in dg0:
        e2e(f"derivative/wrt a DG0 coefficient/{inm}", lambda mk=mk: (mk() * dx, derivative(mk() * dx, c0, vc0), [whole(c0, vc0)]))
    for inm, mk in [dg0[0], dg0[2], dg0[3]]:
        e2e(f"derivative/second wrt a DG0 coefficient/{inm}", lambda mk=mk: (mk() * dx, derivative(derivative(mk() * dx, c0, vc0), c0, v2c0), [whole(c0, vc0), whole(c0, v2c0)]))

    # the direction is a COMPONENT of an argument (of a vector argument, of a mixed argument) or a list of such components: the
    # variation of w is then v[c], and D(grad w) = grad(v)[c, :] whatever the shape of w itself
    grad_f = ("grad f . grad f", "hessian", "f*f", "f**3*g", "x-dependent", "conditional", "sqrt(1+f^2)", "variable")
    for inm, mk in integrands:
        if inm in grad_f or thorough:
            e2e(f"derivative/f in the direction of a component vu[1]/{inm}",
                lambda mk=mk: (mk() * dx, derivative(mk() * dx, f, vu[1]), [comp_seed(f, {(): (vu, (1,))})]))
    for inm, mk in integrands:
        if inm in ("grad f . grad f", "hessian", "f**3*g"):
            e2e(f"derivative/f in the direction of a mixed argument's scalar part/{inm}",
                lambda mk=mk: (mk() * dx, derivative(mk() * dx, f, split(vm)[1]), [comp_seed(f, {(): (vm, (2,))})]))
            e2e(f"derivative/f in the direction of a tensor argument's entry vA[1,0]/{inm}",
                lambda mk=mk: (mk() * dx, derivative(mk() * dx, f, vA[1, 0]), [comp_seed(f, {(): (vA, (1, 0))})]))
        if inm in ("u.u", "f div u", "sym grad u : grad u", "inner(grad u, grad u)", "dot(u,u)*div(u)", "u A u"):
            e2e(f"derivative/u[1] in the direction vu[0]/{inm}",
                lambda mk=mk: (mk() * dx, derivative(mk() * dx, u[1], vu[0]), [comp_seed(u, {(1,): (vu, (0,))})]))
            e2e(f"derivative/u in the direction as_vector([vu[1], vu[0]])/{inm}",
                lambda mk=mk: (mk() * dx, derivative(mk() * dx, u, as_vector([vu[1], vu[0]])), [comp_seed(u, {(0,): (vu, (1,)), (1,): (vu, (0,))})]))
            e2e(f"derivative/u in the direction as_vector([vf, 0])/{inm}",
                lambda mk=mk: (mk() * dx, derivative(mk() * dx, u, as_vector([vf, 0])), [comp_seed(u, {(0,): (vf, ())})]))
            e2e(f"derivative/u in the direction of a mixed argument's vector part/{inm}",
                lambda mk=mk: (mk() * dx, derivative(mk() * dx, u, split(vm)[0]), [comp_seed(u, {(0,): (vm, (0,)), (1,): (vm, (1,))})]))

    # mixed space coefficient, split, whole derivative
    def mixed():
        mu, mp = split(m)
        F = (mu[i] * mu[i] * mp + mp * mp * div(mu)) * dx
        return F, derivative(F, m, vm), [whole(m, vm)]
    e2e("derivative/mixed space whole", mixed)

    def mixed_comp():
        mu, mp = split(m)
        F = (mu[i] * mu[i] * mp + mp * mp) * dx
        return F, derivative(F, m[2], vf), [comp_seed(m, {(2,): (vf, ())})]
    e2e("derivative/mixed space component m[2]", mixed_comp)

    def auto_arg():
        F = (f * f * g + grad(f)[i] * grad(f)[i]) * dx
        dF = derivative(F, f)       # automatic argument: number 0 in the same space
        return F, dF, [{nm(f): "v0"}]
    e2e("derivative/automatic argument", auto_arg)

    # tuple of coefficients whose directions are COMPONENTS OF ONE ARGUMENT (an argument of the mixed space, its split, or the argument derivative()
    # creates itself), with gradients of every coefficient of the tuple in the integrand, the coefficients listed in either order
    def tuple_mixed_direction(order, how):
        def mkcase():
            F = (inner(grad(u), grad(u)) + f * div(u) + (1 + f * f) * grad(f)[i] * grad(f)[i] + u[i] * grad(f)[i]) * dx
            su, sf = {(0,): (0,), (1,): (1,)}, {(): (2,)}

            def seed_for(cmap, name):
                def fn(desc, world):
                    nm_, comp, idx, dirs = desc
                    tgt = cmap.get(tuple(comp))
                    return None if tgt is None else (name, tuple(tgt), idx, dirs)
                return fn
            if how == "automatic argument":
                cs = (u, f) if order == "u,f" else (f, u)
                if order == "f,u":
                    su, sf = {(0,): (1,), (1,): (2,)}, {(): (0,)}
                dF = derivative(F, cs)
                return F, dF, [{nm(u): seed_for(su, "v0"), nm(f): seed_for(sf, "v0")}]
            vmu, vmf = split(vm)
            if how == "mixed argument":
                if order == "f,u":
                    return None
                dF = derivative(F, (u, f), vm)
            elif how == "split":
                dF = derivative(F, (u, f), (vmu, vmf)) if order == "u,f" else derivative(F, (f, u), (vmf, vmu))
            else:
                dF = derivative(F, (u, f), (as_vector([vm[0], vm[1]]), vm[2])) if order == "u,f" else derivative(F, (f, u), (vm[2], as_vector([vm[0], vm[1]])))
            return F, dF, [{nm(u): seed_for(su, nm(vm)), nm(f): seed_for(sf, nm(vm))}]
        return mkcase
    for order in ("u,f", "f,u"):
        for how in ("mixed argument", "split", "components", "automatic argument"):
            if how == "mixed argument" and order == "f,u":
                continue
            e2e(f"derivative/tuple ({order}) in the direction of one argument: {how}", tuple_mixed_direction(order, how))

    def two_components_of_A():
        F = (inner(grad(A), grad(A)) + A[0, 0] * A[0, 1] * f) * dx
        return F, derivative(F, (A[0, 0], A[0, 1]), (vf, v2f)), [comp_seed(A, {(0, 0): (vf, ()), (0, 1): (v2f, ())})]
    e2e("derivative/two components of one row of A (gradients in the integrand)", two_components_of_A)

    def column_of_A():
        F = (inner(grad(A), grad(A)) + dot(div(A), u)) * dx
        return F, derivative(F, (A[0, 1], A[1, 1]), (vu[0], vu[1])), [comp_seed(A, {(0, 1): (vu, (0,)), (1, 1): (vu, (1,))})]
    e2e("derivative/a column of A in the direction of a vector argument's components (gradients in the integrand)", column_of_A)

    def two_components():
        F = (u[0] * u[1] * f + u[1] ** 3) * dx
        return F, derivative(F, (u[0], u[1]), (vf, v2f)), [comp_seed(u, {(0,): (vf, ()), (1,): (v2f, ())})]
    e2e("derivative/two components of u", two_components)

    # ---- user supplied coefficient derivative relations: g = g(f), dg/df = h
    def cd_case(name, mkint):
        def thunk():
            F = mkint() * dx
            dF = derivative(F, f, vf, coefficient_derivatives={g: h})
            try:
                D = expand_derivatives(dF)
            except (ValueError, NotImplementedError, RuntimeError) as ex:
                if not deliberate(ex):
                    return violated(f"crash instead of a result or a refusal: {crash_text(ex)}", reproduced=True, backend="exec")
                return proved("refused", sample=f"{name}: raises {type(ex).__name__}: {ex}"[:200])
            itgs = D.integrals()
            r = C.Zero() if not itgs else itgs[0].integrand()
            e = F.integrals()[0].integrand()

            def gseed(desc, world):
                name_, comp, idx, dirs = desc
                if dirs:
                    raise N.Unsupported("spatial derivative of a coefficient with a user-supplied derivative relation")
                return ("lin", [(N.base_value(den(World.__new__(World) if False else world.with_layers([]), h)), (nm(vf), (), idx, ()))])
            seeds = {nm(f): nm(vf), nm(g): gseed}

            def spec(w, c, env):
                return w.derive(GateauxLayer(seeds), lambda w2: den(w2, e, c, env))
            return check_same(atoms_world(), r, spec, (), timeout_ms=tmo, what=name)
        run.add(name, thunk, kind="values")
    cd_case("coefficient_derivatives/g*f", lambda: g * f)
    cd_case("coefficient_derivatives/g*g + sin(g)", lambda: g * g + sin(g))
    cd_case("coefficient_derivatives/f*exp(g)", lambda: f * exp(g))

    def cd_grad():
        F = grad(g)[i] * grad(g)[i] * dx
        dF = derivative(F, f, vf, coefficient_derivatives={g: h})
        try:
            D = expand_derivatives(dF)
        except (ValueError, NotImplementedError, RuntimeError) as ex:
            if not deliberate(ex):
                return violated(f"crash instead of a result or a refusal: {crash_text(ex)}", reproduced=True, backend="exec")
            return proved("refused", sample=f"raises {type(ex).__name__}: {ex}"[:200])
        # true value: 2 grad(g).grad(h vf) which is non-zero in general; a silent zero is a wrong value
        if not D.integrals() or all(isinstance(it.integrand(), C.Zero) for it in D.integrals()):
            return violated("derivative(|grad g|^2 dx, f, v, coefficient_derivatives={g: h}) expands to 0 although g depends on f through "
                            "the user relation dg/df = h (true derivative 2 grad(g).grad(h v)); it neither raises nor computes the value",
                            replay={"form": "grad(g)[i]*grad(g)[i]*dx", "coefficient_derivatives": "{g: h}", "result": str(D)}, reproduced=True,
                            backend="exec")
        return undecided("non-zero result for grad of a coefficient with a user relation: no spec for this case")
    run.add("coefficient_derivatives/grad(g).grad(g)", cd_grad, kind="values")

    # ---- the dispatcher's ruleset cache: several derivative nodes expanded in ONE pass.  Contract of DerivativeRuleDispatcher: the ruleset used for a
    # node is the one constructed from that node's own operands, so expand(d1 + d2) == expand(d1) + expand(d2) whichever parameters d1, d2 share.
    def one_pass(name, mk):
        def thunk():
            d1, d2 = mk()
            both = expand_derivatives(d1 + d2)
            a, b = expand_derivatives(d1), expand_derivatives(d2)
            for x in (both, a, b):
                if any(isinstance(t, (C.CoefficientDerivative, C.VariableDerivative)) for t in ufl.corealg.traversal.unique_pre_traversal(x)):
                    return violated(f"{name}: derivative nodes survive expansion", replay={"case": name}, reproduced=True)

            def spec(w, c, env):
                return N.add(den(w, a, c, env), den(w, b, c, env))
            return check_same(atoms_world(), both, spec, both.ufl_shape, timeout_ms=tmo, what=name)
        run.add(f"one-pass/{name}", thunk, kind="values")
    # ---- user-supplied coefficient derivative relations with COMPLEX field values: the derivative is linear (not anti-linear) in the direction; written out by hand
    def cd_complex():
        cases = [("g*g, dg/df = h", lambda: g * g, lambda: 2 * g * h * vf), ("f*g, dg/df = h", lambda: f * g, lambda: g * vf + f * h * vf),
                 ("g**3*f, dg/df = h*f", lambda: g ** 3 * f, lambda: 3 * g * g * h * f * vf * f + g ** 3 * vf)]
        n = 0
        for nm_, mkF, mkwant in cases:
            rel = {g: h} if "h*f" not in nm_ else {g: h * f}
            D_ = expand_derivatives(derivative(mkF() * dx, f, vf, coefficient_derivatives=rel))
            r_ = D_.integrals()[0].integrand()
            want = mkwant()
            res = check_same(atoms_world(complex_mode=True), r_, lambda w, c, env, want=want: den(w, want, c, env), (), timeout_ms=tmo, what=f"coefficient_derivatives (complex values): {nm_}")
            n += 1
            if res.status != "proved":
                return res
        return proved("normaliser", vcs=n, sample=f"{n} user-supplied derivative relations with complex field values and a complex direction")
    run.add("coefficient_derivatives/complex-field-values", cd_complex, kind="values")

    G = lambda e, w_, v_, cd=None: derivative(e, w_, v_, coefficient_derivatives=cd)  # noqa: E731
    one_pass("same (w,v), different coefficient_derivatives", lambda: (G(sin(f) * g, f, vf, {g: 3 * f * f}), G(f * f * h, f, vf, {h: ufl.cos(f)})))
    one_pass("same (w,v), relation for g vs none", lambda: (G(f * g, f, vf, {g: h}), G(f * g, f, vf)))
    one_pass("same (w,v), same relation target, different relation", lambda: (G(f * g, f, vf, {g: h}), G(f * g, f, vf, {g: f * h})))
    one_pass("same w, different direction", lambda: (G(f * f * g, f, vf), G(f * f * g, f, v2f)))
    one_pass("same v, different variable", lambda: (G(f * f * g, f, vf), G(f * f * g, g, vf)))
    one_pass("identical derivative twice", lambda: (G(f * f * g, f, vf), G(f * f * g, f, vf)))
    one_pass("nested: derivative of a sum of derivatives", lambda: (G(G(f * f * f * g, f, vf) + G(f * g * g, g, vf), f, v2f), G(f * f, f, v2f)))

    def two_variables():
        a_, b_ = variable(f * g), variable(f * g)         # same expression, different labels
        return (ufl.diff(a_ * a_ * b_, a_), ufl.diff(a_ * a_ * b_, b_))
    one_pass("diff w.r.t. two variables wrapping the same expression", two_variables)
    one_pass("diff and derivative in one expression", lambda: ((lambda a_: ufl.diff(a_ ** 3, a_))(variable(f)), G(f ** 3, f, vf)))

    def canary():
        F = f * f * dx
        r = expand_derivatives(derivative(F, f, vf)).integrals()[0].integrand()
        return check_same(atoms_world(), r, lambda w, c, env: N.mul(w.symbol(nm(f)), w.symbol(nm(vf))), (), what="canary f*v instead of 2 f v")
    run.add("canary/wrong-factor", canary, kind="canary")


def _h(fn):
    from ufv.core import src_hash
    import inspect
    try:
        return src_hash(inspect.unwrap(fn))
    except Exception:  # noqa: BLE001
        return "?"
