"""C27 — algorithms never mutate their inputs.

Functions under contract: every public algorithm / form operator listed in ALGS below (compute_form_data with its option combinations,
the apply_* passes, expand_*, derivative/action/adjoint/lhs/rhs/system/replace/..., group_form_integrals, attach_estimated_degrees,
apply_integral_scaling, Measure.__call__/__rmul__, Integral.reconstruct, expr_equals).

Contract (frame condition): for every algorithm A and input x:  snapshot(x) after A(x) == snapshot(x) before, whether A returns or raises;
snapshot = repr, hash, signature, arguments, coefficients, and a deep copy of every integral's metadata (array values included), plus the
(type, operand) structure of every node of the input DAG.
Obligations
  * static frame (AST) on the algorithm modules: every statement that writes through a name bound to a parameter or to a value obtained
    from a parameter without copying (attribute store, item store, del, augmented assignment, mutating method call) must be on the
    reviewed allow-list (caches and locally created containers); an unknown write is reported with its source line;
  * dynamic frame (bounded): every algorithm on every form/expression of a corpus, metadata held in dictionaries that raise on any write,
    snapshot compared after each call, and after running all algorithms one after the other on the same input (sequences).
"""
from __future__ import annotations

import ast
import copy
import importlib
import inspect
import itertools
import os
import pkgutil
import textwrap
import warnings

import numpy as np

import ufl
import ufl.algorithms
import ufl.classes as C
from ufl import (Coefficient, Constant, FunctionSpace, Measure, TestFunction, TrialFunction, as_vector, avg, conditional, derivative, div, dot, dS, ds, dx, grad, inner,
                 jump, lt, sin, variable, diff)
from ufl.core.multiindex import Index

from ufv import sigforms as S
from ufv.core import bounded_ok, proved, undecided, violated

LEVEL = "other"
TECHNIQUE = ("frame contract 'the input's observable state is unchanged': static write-set obligation on the AST of every algorithm module "
             "(writes through parameter-derived names must be on a reviewed allow-list) and dynamic snapshot comparison with write-trapping "
             "metadata dictionaries for every listed algorithm on a corpus, singly and in sequence (bounded)")
LEVEL_TEXT = "The static obligation covers all functions of the listed modules; the dynamic one a finite corpus and the listed algorithms (bounded)."
LEVEL_NOTE = "Trusted: the alias analysis is name-based and intra-procedural (documented below); the allow-list was reviewed by hand."
TRUSTED = ["name-based intra-procedural alias analysis in this file", "hand-reviewed allow-list of cache writes", "CPython"]
ASSUMPTIONS = ["aliases through containers, closures or returned internal lists other than the direct patterns `p.attr`, `p.method()` are not tracked statically",
               "dynamic part: finite corpus; sequences = each algorithm alone and one pass of all algorithms in order on the same input"]
EXPLANATION = "No listed algorithm writes to state reachable from its input; snapshots of inputs are identical before and after every call."

MUTATORS = {"update", "append", "extend", "pop", "popitem", "clear", "sort", "setdefault", "add", "remove", "insert", "discard", "reverse", "fill", "resize", "put", "itemset"}
FRESH_CALLS = {"dict", "list", "set", "tuple", "defaultdict", "OrderedDict", "sorted", "copy", "deepcopy", "frozenset", "zip", "map", "enumerate", "range", "len", "type",
               "isinstance", "str", "repr", "int", "float", "reversed", "sum", "min", "max", "any", "all", "id", "hash", "getattr"}
MODULES = ["ufl.algorithms." + m.name for m in pkgutil.iter_modules(ufl.algorithms.__path__)] + [
    "ufl.formoperators", "ufl.form", "ufl.integral", "ufl.measure", "ufl.exprequals", "ufl.corealg.map_dag", "ufl.corealg.dag_traverser", "ufl.corealg.multifunction",
    "ufl.corealg.traversal", "ufl.action", "ufl.adjoint"]

# (module, function qualname, normalised statement) -> why it is fine.  Reviewed by hand on the pinned tree.
ALLOW = {
    # memo tables that the CALLER passes in for exactly this purpose
    ("ufl.corealg.map_dag", "map_expr_dags", "vcache[v] = r"): "caller-provided memo table (documented parameter)",
    ("ufl.corealg.map_dag", "map_expr_dags", "rcache[r] = r"): "caller-provided memo table (documented parameter)",
    ("ufl.corealg.map_dag", "map_expr_dags", "rcache[v] = r"): "caller-provided memo table",
}


def _norm(node):
    return " ".join(ast.unparse(node).split())


class FrameScan(ast.NodeVisitor):
    """Per function: parameters are tainted; x = p.attr / p.m() / p[..] / alias keeps taint; x = fresh-call / literal / comprehension is clean."""

    def __init__(self, modname):
        self.modname = modname
        self.hits = []
        self.nfunc = 0
        self.stack = []
        self.seen = set()

    def visit_FunctionDef(self, fn):
        self.nfunc += 1
        qual = ".".join([c for c in self.stack] + [fn.name])
        params = [a.arg for a in fn.args.posonlyargs + fn.args.args + fn.args.kwonlyargs]
        if fn.args.vararg:
            params.append(fn.args.vararg.arg)
        if fn.args.kwarg:
            params.append(fn.args.kwarg.arg)
        is_method = bool(self.stack) and params and params[0] in ("self", "cls")
        tainted = set(params)
        if is_method:
            tainted.discard(params[0])        # writes to self.<x> are the object's own state (caches/handler memo); inputs are the other parameters
        # iterate to a fixpoint over simple assignments (flow-insensitive: conservative)
        body_nodes = [n for n in ast.walk(fn) if n is not fn]
        # do not descend into nested function definitions for taint (they are scanned on their own with their own params + closure names)
        changed = True
        while changed:
            changed = False
            for n in body_nodes:
                tgts, val = [], None
                if isinstance(n, ast.Assign):
                    tgts, val = n.targets, n.value
                elif isinstance(n, ast.AnnAssign) and n.value is not None:
                    tgts, val = [n.target], n.value
                elif isinstance(n, (ast.For, ast.comprehension)):
                    tgts, val = [n.target], n.iter
                elif isinstance(n, ast.withitem) and n.optional_vars is not None:
                    tgts, val = [n.optional_vars], n.context_expr
                if val is None:
                    continue
                # a, b = x, y  binds elementwise
                if isinstance(n, ast.Assign) and isinstance(val, (ast.Tuple, ast.List)):
                    for t in tgts:
                        if isinstance(t, (ast.Tuple, ast.List)) and len(t.elts) == len(val.elts):
                            for te, ve in zip(t.elts, val.elts):
                                if isinstance(te, ast.Name) and te.id not in tainted and self.derived(ve, tainted):
                                    tainted.add(te.id)
                                    changed = True
                    continue
                if self.derived(val, tainted):
                    for t in tgts:
                        # only plain names (and tuples/lists of them) become aliases; `obj.attr = p` does not make `obj` an alias of p
                        names = [t] if isinstance(t, ast.Name) else [e for e in ast.walk(t) if isinstance(e, ast.Name)] if isinstance(t, (ast.Tuple, ast.List)) and all(
                            isinstance(e, (ast.Name, ast.Tuple, ast.List, ast.Starred, ast.Store, ast.Load)) for e in ast.walk(t)) else []
                        for nm in names:
                            if nm.id not in tainted:
                                tainted.add(nm.id)
                                changed = True
        for n in body_nodes:
            self.check_write(n, tainted, qual)
        self.stack.append(fn.name)
        for child in ast.walk(fn):
            if child is not fn and isinstance(child, (ast.FunctionDef, ast.AsyncFunctionDef)) and id(child) not in self.seen:
                self.seen.add(id(child))
                self.visit(child)
        self.stack.pop()
    visit_AsyncFunctionDef = visit_FunctionDef

    def visit_ClassDef(self, cd):
        self.stack.append(cd.name)
        for child in cd.body:
            self.visit(child)
        self.stack.pop()

    def derived(self, val, tainted):
        """Does evaluating `val` yield (possibly) an object owned by a tainted name, without copying?"""
        if isinstance(val, ast.Name):
            return val.id in tainted
        if isinstance(val, ast.Attribute):
            return self.derived(val.value, tainted)
        if isinstance(val, ast.Subscript):
            return self.derived(val.value, tainted)
        if isinstance(val, ast.Call):
            f = val.func
            if isinstance(f, ast.Name):
                return False if f.id in FRESH_CALLS else False      # free-function results are treated as fresh (each function is scanned itself)
            if isinstance(f, ast.Attribute):
                if f.attr in ("copy", "reconstruct", "items", "keys", "values", "format", "join", "split", "get") and f.attr not in ("get",):
                    return False
                # p.metadata(), p.integrals(), p.ufl_operands, p.get(...): may return internal state
                return self.derived(f.value, tainted)
            return False
        if isinstance(val, (ast.IfExp,)):
            return self.derived(val.body, tainted) or self.derived(val.orelse, tainted)
        if isinstance(val, ast.BoolOp):
            return any(self.derived(v, tainted) for v in val.values)
        if isinstance(val, (ast.Tuple, ast.List)):
            return False
        return False

    def base_tainted(self, tgt, tainted):
        """tgt is Attribute/Subscript: is its base object derived from a tainted name?"""
        if isinstance(tgt, (ast.Attribute, ast.Subscript)):
            return self.derived(tgt.value, tainted)
        return False

    def check_write(self, n, tainted, qual):
        hit = None
        if isinstance(n, ast.Assign):
            for t in n.targets:
                for tt in (t.elts if isinstance(t, (ast.Tuple, ast.List)) else [t]):
                    if self.base_tainted(tt, tainted):
                        hit = n
        elif isinstance(n, ast.AugAssign):
            if self.base_tainted(n.target, tainted):
                hit = n
        elif isinstance(n, ast.Delete):
            if any(self.base_tainted(t, tainted) for t in n.targets):
                hit = n
        elif isinstance(n, ast.Call) and isinstance(n.func, ast.Attribute) and n.func.attr in MUTATORS:
            if self.derived(n.func.value, tainted):
                hit = n
        elif isinstance(n, ast.Call) and isinstance(n.func, ast.Name) and n.func.id in ("setattr", "delattr") and n.args:
            if self.derived(n.args[0], tainted):
                hit = n
        if hit is not None:
            tgt = hit.targets[0] if isinstance(hit, ast.Assign) else hit.target if isinstance(hit, ast.AugAssign) else hit.targets[0] if isinstance(hit, ast.Delete) else \
                (hit.func.value if isinstance(hit.func, ast.Attribute) else hit.args[0])
            if isinstance(hit, (ast.Assign, ast.AugAssign, ast.Delete)) and isinstance(tgt, (ast.Tuple, ast.List)):
                tgt = next((e for e in tgt.elts if self.base_tainted(e, tainted)), tgt)
            attr = tgt.attr if isinstance(tgt, ast.Attribute) and isinstance(hit, (ast.Assign, ast.AugAssign, ast.Delete)) else None
            root = tgt
            while isinstance(root, (ast.Attribute, ast.Subscript, ast.Call)):
                root = root.value if not isinstance(root, ast.Call) else (root.func.value if isinstance(root.func, ast.Attribute) else root.func)
            self.hits.append((self.modname, qual, _norm(hit), getattr(hit, "lineno", 0), root.id if isinstance(root, ast.Name) else "?", attr))


class TrapDict(dict):
    """A metadata dictionary that refuses every write."""

    def _no(self, *a, **k):
        raise AssertionError("write to input metadata")
    __setitem__ = __delitem__ = update = pop = popitem = clear = setdefault = _no

    def __deepcopy__(self, memo):
        return {k: copy.deepcopy(v, memo) for k, v in self.items()}

    def copy(self):
        return dict(self)


def build(run):
    # ------------------------------------------------------------------ static frame obligation
    def scan_all():
        hits, nfunc = [], 0
        for mn in MODULES:
            try:
                mod = importlib.import_module(mn)
                src = inspect.getsource(mod)
            except Exception as ex:  # noqa: BLE001
                return None, f"cannot read {mn}: {ex}"
            sc = FrameScan(mn)
            sc.visit(ast.parse(src))
            hits += sc.hits
            nfunc += sc.nfunc
        return hits, nfunc

    def static_frame():
        hits, nfunc = scan_all()
        if hits is None:
            return undecided(nfunc)
        import json
        entries = json.load(open(os.path.join(os.path.dirname(os.path.abspath(__file__)), "c27_allow.json")))
        unknown, broken = [], []
        for h in hits:
            ent = next((e for e in entries if e["module"] == h[0] and e["function"] == h[1] and e["root"] == h[4] and (e.get("attr") is None or e.get("attr") == h[5])), None)
            if ent is None:
                unknown.append(h[:4])
                continue
            mod = importlib.import_module(h[0])
            tree = ast.parse(inspect.getsource(mod))
            fdefs = [n for n in ast.walk(tree) if isinstance(n, ast.FunctionDef) and n.name == h[1].split(".")[-1]]
            stmts = {_norm(st) for fd in fdefs for st in ast.walk(fd) if isinstance(st, ast.stmt)}
            for req in ent.get("requires", []):
                if req not in stmts:
                    broken.append((h, f"the guard `{req}` that made this write safe is gone"))
            fn = ent.get("requires_callers_pass_fresh")
            if fn:
                for call in ast.walk(tree):
                    if isinstance(call, ast.Call) and isinstance(call.func, ast.Name) and call.func.id == fn and len(call.args) >= 2:
                        a = call.args[1]
                        fresh = isinstance(a, ast.List) or (isinstance(a, ast.Call) and isinstance(a.func, ast.Name) and a.func.id == fn) or (
                            isinstance(a, ast.Name) and a.id == ent["root"])
                        if not fresh:
                            broken.append((h, f"a call passes `{ast.unparse(a)}` as the accumulator of {fn}"))
        if unknown or broken:
            lines = [f"{m}:{ln} in {q}: `{st}`" for m, q, st, ln in unknown[:6]] + [f"{h[0]}:{h[3]} in {h[1]}: `{h[2]}` -- {why}" for h, why in broken[:4]]
            return violated("statements write through a name derived from a parameter and are not covered by the reviewed allow-list: " + " | ".join(lines),
                            replay={"writes": [{"module": m, "function": q, "statement": st, "line": ln} for m, q, st, ln in unknown],
                                    "broken_guards": [{"module": h[0], "function": h[1], "statement": h[2], "why": why} for h, why in broken]}, reproduced=False, backend="ast")
        return proved("ast(frame)", vcs=nfunc, sample=f"{nfunc} functions in {len(MODULES)} modules scanned; {len(hits)} parameter-derived writes, all on the reviewed allow-list "
                      "with their guards present")
    run.add("static-frame/no-write-through-parameters", static_frame, kind="proof")
    for mn in MODULES:
        run.functions[mn + ".*"] = "module scanned"

    # ------------------------------------------------------------------ dynamic frame
    def corpus():
        S.set_counters({k: 70 for k in S.COUNTER_FAMILIES})
        m = S.new_mesh()
        V, W = FunctionSpace(m, S.L(ufl.triangle, 2)), FunctionSpace(m, S.L(ufl.triangle, 1, (2,)))
        DGs = FunctionSpace(m, S.DG(ufl.triangle, 1))
        u, v, f, g, c = TrialFunction(V), TestFunction(V), Coefficient(V), Coefficient(V), Constant(m)
        uu, vv, w = TrialFunction(W), TestFunction(W), Coefficient(W)
        du, dv = TrialFunction(DGs), TestFunction(DGs)
        i, j = Index(), Index()
        md = lambda **k: TrapDict(k)    # noqa: E731
        arr = np.array([0.5, 0.25])
        forms = {
            "poisson+metadata": c * inner(grad(u), grad(v)) * dx(metadata=md(quadrature_degree=2)) + f * v * ds(1, metadata=md(rule="x", pts=arr)) + u * v * dx((1, 2)),
            "nonlinear functional": (sin(f) * f ** 2 + conditional(lt(f, g), f, g)) * dx(metadata=md(quadrature_degree=3)) + f * g * dx(1),
            "residual": inner((1 + f * f) * grad(f), grad(v)) * dx + g * v * dx(metadata=md(a=[1, 2])),
            "vector": inner(grad(uu), grad(vv)) * dx + dot(w, vv) * ds + div(uu) * div(vv) * dx(2, metadata=md(quadrature_degree=1)),
            "dg facet": jump(du) * avg(dv) * dS(metadata=md(quadrature_degree=2)) + du * dv * dx,
            "indices+variable": (as_vector(w[i] * f, i)[j] * grad(v)[j] + diff(variable(f) ** 2, variable(f)) * v) * dx if False else (as_vector(w[i] * f, i)[j] * grad(v)[j]) * dx,
            "unexpanded derivative": derivative(f * f * g * dx(metadata=md(quadrature_degree=4)), f, u),
            "lhs-rhs mix": u * v * dx + f * v * dx(metadata=md(k=1)) + u * v * ds(3),
        }
        # non-affine geometry (the scaling factor has a positive degree) with an estimated degree already attached by the user
        mq = ufl.Mesh(S.L(ufl.triangle, 2, (2,)))
        Vq = FunctionSpace(mq, S.L(ufl.triangle, 1))
        fq, vq = Coefficient(Vq), TestFunction(Vq)
        forms["quadratic geometry, estimated degree given"] = fq * vq * dx(mq, metadata=md(estimated_polynomial_degree=3, quadrature_degree=4)) + fq * vq * ds(mq, metadata=md(estimated_polynomial_degree=(2, 1)))
        exprs = {"cell average": ufl.cell_avg(f * g), "facet average": ufl.facet_avg(f) * g, "abs / conj / real": abs(f) + ufl.conj(g) * ufl.real(f), "transpose / sym": ufl.sym(ufl.outer(w, w)).T,
                 "restricted": (f * g)("+"), "variable of variable": variable(variable(f) * g), "scalar": sin(f) * g + f ** 2, "grad": grad(f * g), "indexed": w[i] * w[i], "tensor": ufl.outer(w, w) + ufl.Identity(2) * f,
                 "cond": conditional(lt(f, g), f, g * c), "variable": variable(f * g) * f}
        return m, forms, exprs, dict(u=u, v=v, f=f, g=g, c=c, w=w, V=V)

    def snapshot(x):
        try:
            return _snapshot(x)
        except RecursionError:
            return {"repr": "<the object can no longer be printed / traversed: RecursionError (it contains itself)>"}

    def _snapshot(x):
        with warnings.catch_warnings():
            warnings.simplefilter("ignore")
            snap = {"repr": repr(x)}
            try:
                snap["hash"] = hash(x)
            except TypeError:
                pass
            if isinstance(x, ufl.Form):
                snap["signature"] = ufl.algorithms.compute_form_signature(x, x._compute_renumbering())
                snap["arguments"] = tuple(map(repr, x.arguments()))
                snap["coefficients"] = tuple(map(repr, x.coefficients()))
                snap["integrals"] = tuple((it.integral_type(), repr(it.subdomain_id()), repr(sorted((k, repr(v)) for k, v in it.metadata().items())), id(it.metadata()),
                                           repr(it.integrand())) for it in x.integrals())
                roots = [it.integrand() for it in x.integrals()]
            else:
                roots = [x]
            nodes = []
            from ufl.corealg.traversal import unique_pre_traversal
            for r in roots:
                for n in unique_pre_traversal(r):
                    nodes.append((type(n).__name__, tuple(repr(o) for o in n.ufl_operands) if not n._ufl_is_terminal_ else repr(n)))
            snap["nodes"] = tuple(nodes)
        return snap

    def _compare_with_twin(x):
        """Compare a form with an equal form whose integrals spell metadata values and subdomain ids differently (2 vs 2.0, 1 vs True):
        Python's == on dicts / tuples calls them equal.  Comparing must not rewrite either operand."""
        if not isinstance(x, ufl.Form):
            return x == x

        def respell(v):
            if isinstance(v, bool):
                return v
            if isinstance(v, int):
                return float(v)
            return v
        twin_integrals = []
        for it in x.integrals():
            sid = it.subdomain_id()
            sid2 = tuple(True if s_ == 1 else s_ for s_ in sid) if isinstance(sid, tuple) else (True if sid == 1 else sid)
            twin_integrals.append(it.reconstruct(metadata={k: respell(v) for k, v in dict(it.metadata()).items()}, subdomain_id=sid2))
        twin = ufl.Form(twin_integrals)
        return (x.equals(twin), bool(x == twin), x != twin, twin.equals(x))

    def _wrap_ops(x):
        """Apply every unary operator of the language to x (and to the root operand of x): constructing a node on top of x must leave x alone."""
        if not isinstance(x, C.Expr):
            return None
        ops = [ufl.cell_avg, ufl.facet_avg, abs, ufl.conj, ufl.real, ufl.imag, ufl.transpose, ufl.sym, ufl.skew, ufl.dev, ufl.tr, variable, ufl.exp, ufl.sqrt, ufl.sign,
               (lambda e: e("+")), (lambda e: e("-")), (lambda e: -e), (lambda e: 2 * e), (lambda e: e + e), (lambda e: e * e), (lambda e: e / 2), (lambda e: e ** 2),
               (lambda e: grad(e)), (lambda e: ufl.det(e)), (lambda e: ufl.inv(e)), (lambda e: ufl.as_vector([e, e])), (lambda e: ufl.inner(e, e)), (lambda e: ufl.outer(e, e)),
               (lambda e: ufl.dot(e, e)), (lambda e: type(e)(*e.ufl_operands))]
        out = []
        for tgt in (x,) + tuple(o for o in x.ufl_operands if isinstance(o, C.Expr))[:2]:
            for op in ops:
                try:
                    out.append(op(tgt))
                except BaseException as ex:  # noqa: BLE001  (refusals of operands of the wrong shape are fine here)
                    if isinstance(ex, (KeyboardInterrupt, SystemExit)):
                        raise
                if any(o_ is tgt for o_ in tgt.ufl_operands):
                    return out          # the input has become its own operand: stop here, the snapshot comparison reports it
        return out

    def algs(T):
        from ufl.algorithms import (apply_algebra_lowering, apply_derivatives, apply_function_pullbacks, apply_geometry_lowering, apply_integral_scaling, apply_restrictions,
                                    check_arities, comparison_checker, domain_analysis, estimate_degrees, expand_indices as EI, remove_complex_nodes, remove_component_tensors,
                                    renumbering, formtransformations, coordinate_derivative_helpers, balancing, change_to_reference)
        from ufl.algorithms.compute_form_data import attach_estimated_degrees, compute_form_data, preprocess_form
        A = ufl.algorithms
        u, v, f, g = T["u"], T["v"], T["f"], T["g"]
        out = [
            ("expand_derivatives", lambda x: A.expand_derivatives(x)),
            ("expand_indices", lambda x: A.expand_indices(x)),
            ("apply_algebra_lowering", lambda x: apply_algebra_lowering.apply_algebra_lowering(x)),
            ("apply_derivatives", lambda x: apply_derivatives.apply_derivatives(apply_algebra_lowering.apply_algebra_lowering(x))),
            ("apply_function_pullbacks", lambda x: apply_function_pullbacks.apply_function_pullbacks(x)),
            ("apply_integral_scaling", lambda x: apply_integral_scaling.apply_integral_scaling(x)),
            ("apply_geometry_lowering", lambda x: apply_geometry_lowering.apply_geometry_lowering(x)),
            ("apply_default_restrictions", lambda x: apply_restrictions.apply_default_restrictions(x)),
            ("apply_restrictions", lambda x: apply_restrictions.apply_restrictions(x)),
            ("remove_complex_nodes", lambda x: remove_complex_nodes.remove_complex_nodes(x)),
            ("remove_component_tensors", lambda x: remove_component_tensors.remove_component_tensors(x)),
            ("renumber_indices", lambda x: renumbering.renumber_indices(x)),
            ("do_comparison_check", lambda x: comparison_checker.do_comparison_check(x)),
            ("estimate_total_polynomial_degree", lambda x: A.estimate_total_polynomial_degree(x)),
            ("attach_estimated_degrees", lambda x: attach_estimated_degrees(x)),
            ("preprocess_form(real)", lambda x: preprocess_form(x, False)),
            ("preprocess_form(complex)", lambda x: preprocess_form(x, True)),
            ("group_form_integrals", lambda x: domain_analysis.group_form_integrals(x, x.ufl_domains() if hasattr(x, "ufl_domains") else ())),
            ("strip_coordinate_derivatives", lambda x: coordinate_derivative_helpers.strip_coordinate_derivatives(list(x.integrals()))),
            ("change_to_reference_grad", lambda x: A.change_to_reference_grad(x)),
            ("balance_modifiers", lambda x: balancing.balance_modifiers(x)),
            ("compute_form_arities", lambda x: A.compute_form_arities(x)),
            ("compute_form_lhs", lambda x: A.compute_form_lhs(x)),
            ("compute_form_rhs", lambda x: A.compute_form_rhs(x)),
            ("compute_form_functional", lambda x: A.compute_form_functional(x)),
            ("compute_form_adjoint", lambda x: A.compute_form_adjoint(x)),
            ("compute_form_action", lambda x: A.compute_form_action(x, f)),
            ("compute_energy_norm", lambda x: A.compute_energy_norm(x, f)),
            ("lhs", lambda x: ufl.lhs(x)), ("rhs", lambda x: ufl.rhs(x)), ("system", lambda x: ufl.system(x)),
            ("action", lambda x: ufl.action(x, f)), ("adjoint", lambda x: ufl.adjoint(x)), ("derivative", lambda x: ufl.derivative(x, f)),
            ("derivative(expanded)", lambda x: A.expand_derivatives(ufl.derivative(x, f, u))),
            ("replace", lambda x: ufl.replace(x, {f: g})), ("extract_blocks", lambda x: ufl.extract_blocks(x)),
            ("strip_terminal_data", lambda x: A.strip_terminal_data(x)), ("strip_variables", lambda x: A.strip_variables(x)),
            ("validate_form", lambda x: A.validate_form(x)), ("tree_format", lambda x: A.tree_format(x)),
            ("extract_arguments", lambda x: A.extract_arguments(x)), ("extract_coefficients", lambda x: A.extract_coefficients(x)),
            ("extract_elements", lambda x: A.extract_elements(x)), ("extract_unique_elements", lambda x: A.extract_unique_elements(x)),
            ("signature", lambda x: x.signature()), ("equals", lambda x: x.equals(x) if hasattr(x, "equals") else x == x),
            ("== / != / equals with an equal form spelled differently", lambda x: _compare_with_twin(x)),
            ("form + form", lambda x: x + x), ("2*form", lambda x: 2 * x), ("-form", lambda x: -x), ("form(f)", lambda x: x * f if not isinstance(x, ufl.Form) else ufl.action(x)),
            ("Measure call / Integral.reconstruct", lambda x: [it.reconstruct(metadata={"q": 1}) for it in x.integrals()]),
            ("operators of the language applied to the input (also to its root's own kind: avg of avg, abs of abs, ...)", lambda x: _wrap_ops(x)),
            ("str", lambda x: str(x)), ("check_arities", lambda x: check_arities.check_form_arity(x, x.arguments(), False)),
        ]
        flags = ["do_apply_function_pullbacks", "do_apply_integral_scaling", "do_apply_geometry_lowering", "preserve_geometry_types", "do_apply_default_renumbering",
                 "do_apply_restrictions", "do_estimate_degrees", "do_append_everywhere_integrals", "do_replace_functions", "complex_mode", "do_remove_component_tensors"]
        sig = inspect.signature(compute_form_data).parameters
        flags = [fl for fl in flags if fl in sig]
        combos = [dict(), {k: True for k in flags if k != "preserve_geometry_types" and k != "complex_mode"}]
        for fl in flags:
            if fl == "preserve_geometry_types":
                combos.append({"do_apply_geometry_lowering": True, "preserve_geometry_types": (C.Jacobian,)})
            else:
                combos.append({fl: True})
                combos.append({**{k: True for k in flags if k not in ("preserve_geometry_types", "complex_mode")}, fl: False})
        for k, kw in enumerate(combos):
            out.append((f"compute_form_data#{k}{sorted(kw)[:3]}", lambda x, kw=kw: compute_form_data(x, **kw)))
        return out

    def dynamic(target):
        def thunk():
            m, forms, exprs, T = corpus()
            inputs = forms if target == "forms" else exprs
            AL = algs(T)
            ncalls = 0
            for xn, x in inputs.items():
                before = snapshot(x)
                # each algorithm alone (fresh comparison each time), then the whole sequence has run on the same object
                for an, a in AL:
                    try:
                        with warnings.catch_warnings():
                            warnings.simplefilter("ignore")
                            a(x)
                        outcome = "returned"
                    except AssertionError as ex:
                        if "write to input metadata" in str(ex):
                            import traceback
                            tb = traceback.format_exc().splitlines()[-8:]
                            return violated(f"{an} writes into the metadata dictionary of its input form '{xn}'", replay={"algorithm": an, "input": xn, "traceback": tb},
                                            reproduced=True, backend="exec(trap)")
                        outcome = "raised"
                    except BaseException as ex:  # noqa: BLE001  (ufl derives ArityMismatch / ComplexComparisonError from BaseException)
                        if isinstance(ex, (KeyboardInterrupt, SystemExit)):
                            raise
                        outcome = "raised"
                    ncalls += 1
                    after = snapshot(x)
                    if after != before:
                        diff_keys = [k for k in before if before[k] != after.get(k)]
                        return violated(f"{an} ({outcome}) changed its input '{xn}': {diff_keys} differ; e.g. {str(before[diff_keys[0]])[:160]} -> {str(after.get(diff_keys[0]))[:160]}",
                                        replay={"algorithm": an, "input": xn, "changed": diff_keys, "before": {k: str(before[k])[:400] for k in diff_keys},
                                                "after": {k: str(after.get(k))[:400] for k in diff_keys}}, reproduced=True, backend="exec(snapshot)")
            return bounded_ok(ncalls, f"{len(inputs)} {target} x {len(AL)} algorithms/option sets, run one after the other on the same objects",
                              sample="repr, hash, signature, arguments, coefficients, metadata and node structure unchanged after every call")
        return thunk
    run.add("dynamic-frame/forms", dynamic("forms"), kind="bounded")
    run.add("dynamic-frame/expressions", dynamic("exprs"), kind="bounded")

    # ---- forms DERIVED from other forms by the form operators (0*a, 2*a, -a, a + a, a - a, ...), with the parent's caches warm or cold: every public
    # observable, observed FIRST on a freshly derived form, must still have the same value after any other public call on that form (a stale value
    # handed over from the parent and silently corrected by a later call is a change of the input seen by the caller)
    def derived_forms():
        def fresh(kind):
            S.set_counters({k: 170 for k in S.COUNTER_FAMILIES})
            m = S.new_mesh()
            V = FunctionSpace(m, S.L(ufl.triangle, 1))
            u, v, f, g, c = TrialFunction(V), TestFunction(V), Coefficient(V), Coefficient(V), Constant(m)
            a = {"bilinear": lambda: c * f * inner(grad(u), grad(v)) * dx + u * v * ds(1), "linear": lambda: f * g * v * dx + c * v * dx(2),
                 "functional": lambda: f * g * dx + c * f * ds}[kind]()
            return a, dict(f=f, g=g, c=c, u=u, v=v, m=m)
        warmers = {"cold": lambda a: None, "arguments": lambda a: a.arguments(), "coefficients": lambda a: a.coefficients(), "signature": lambda a: a.signature(),
                   "all": lambda a: (a.arguments(), a.coefficients(), a.constants(), a.ufl_domains(), a.signature(), hash(a))}
        derive = {"0*a": lambda a, T: 0 * a, "0.0*a": lambda a, T: 0.0 * a, "2*a": lambda a, T: 2 * a, "-a": lambda a, T: -a, "a+a": lambda a, T: a + a, "a-a": lambda a, T: a - a,
                  "c*a": lambda a, T: T["c"] * a, "a+0*a": lambda a, T: a + 0 * a, "replace(a, f->g)": lambda a, T: ufl.replace(a, {T["f"]: T["g"]}),
                  "a restricted to dx": lambda a, T: ufl.Form([it for it in a.integrals() if it.integral_type() == "cell"])}
        observers = {"arguments": lambda b: tuple(map(repr, b.arguments())), "coefficients": lambda b: tuple(map(repr, b.coefficients())),
                     "constants": lambda b: tuple(map(repr, b.constants())), "ufl_domains": lambda b: tuple(map(repr, b.ufl_domains())),
                     "signature": lambda b: b.signature(), "empty": lambda b: b.empty(), "integrals": lambda b: tuple(map(repr, b.integrals())),
                     "coefficient_numbering": lambda b: tuple(sorted((repr(k), v_) for k, v_ in b.coefficient_numbering().items())),
                     "max_subdomain_ids": lambda b: repr(b.max_subdomain_ids()), "hash": lambda b: hash(b), "base_form_operators": lambda b: tuple(map(repr, b.base_form_operators()))}

        def obs(fn, b):
            try:
                with warnings.catch_warnings():
                    warnings.simplefilter("ignore")
                    return ("value", fn(b))
            except Exception as ex:  # noqa: BLE001
                return ("raises", type(ex).__name__)
        from ufl.algorithms import compute_form_data, extract_arguments, extract_coefficients
        from ufl.domain import extract_domains
        operations = dict(observers)
        operations.update({"compute_form_data": lambda b: compute_form_data(b), "extract_domains": lambda b: extract_domains(b), "str": lambda b: str(b), "b == b": lambda b: b == b,
                           "b.equals(b)": lambda b: b.equals(b), "extract_arguments": lambda b: extract_arguments(b), "extract_coefficients": lambda b: extract_coefficients(b),
                           "expand_derivatives": lambda b: ufl.algorithms.expand_derivatives(b), "2*b": lambda b: 2 * b, "b + b": lambda b: b + b})
        n = 0
        for kind in ("bilinear", "linear", "functional"):
            for wn, warm in warmers.items():
                for dn, dv_ in derive.items():
                    for on, ofn in observers.items():
                        # the reference value: first observation on a freshly derived form
                        a, T = fresh(kind)
                        warm(a)
                        ref = obs(ofn, dv_(a, T))
                        for pn, pfn in operations.items():
                            if pn == on:
                                continue
                            a, T = fresh(kind)
                            warm(a)
                            b = dv_(a, T)
                            first = obs(ofn, b)
                            obs(pfn, b)
                            second = obs(ofn, b)
                            n += 1
                            if first != second or first != ref:
                                return violated(f"{kind} form a (caches: {wn}), b = {dn}: b.{on} is {str(first[1])[:120]} when observed first, {str(second[1])[:120]} after the public call '{pn}' on b",
                                                replay={"form": kind, "parent_caches": wn, "derived": dn, "observable": on, "operation": pn, "first": str(first)[:400], "after": str(second)[:400]},
                                                reproduced=True, backend="exec(snapshot)")
        return bounded_ok(n, f"3 forms x {len(warmers)} cache states x {len(derive)} derivations x {len(observers)} observables x {len(operations)} operations, each on fresh objects",
                          sample="an observable of a derived form does not depend on which public call came first")
    run.add("dynamic-frame/derived-forms-observables-do-not-depend-on-call-order", derived_forms, kind="bounded")

    # ---- binary operations between two DIFFERENT inputs that look alike (comparison, hashing into one set / dict, algorithms handed both): expression equality
    # shares operands between expressions it finds equal -- whatever it concludes, the printed structure of BOTH inputs must stay what it was
    def pairs_of_inputs():
        from ufl import Interpolate, Coargument
        from ufl.algorithms import extract_coefficients, apply_algebra_lowering
        from ufl.algorithms.renumbering import renumber_indices
        n = 0

        def mkpairs():
            S.set_counters({k: 270 for k in S.COUNTER_FAMILIES})
            m = S.new_mesh()
            V1, V2 = FunctionSpace(m, S.L(ufl.triangle, 1)), FunctionSpace(m, S.L(ufl.triangle, 2))
            W = FunctionSpace(m, S.L(ufl.triangle, 1, (2,)))
            f, g, w = Coefficient(V1), Coefficient(V1), Coefficient(W)
            v = TestFunction(V1)
            I1 = lambda: Interpolate(f, Coargument(V1.dual(), 0))      # noqa: E731
            I2 = lambda: Interpolate(f, Coargument(V2.dual(), 0))      # noqa: E731
            i, j = Index(), Index()
            out = {
                "sums of interpolations into different spaces": (2 * I2() + 3 * I1(), 2 * I1() + 3 * I1()),
                "interpolation into P1 / into P2": (I1() * g, I2() * g),
                "equal expressions built separately": (sin(f * g) * (f + g) + w[i] * w[i], sin(f * g) * (f + g) + w[j] * w[j]),
                "expressions differing in one deep leaf": (sin(f * g) * (f + g) * ufl.exp(f * g + f), sin(f * g) * (f + g) * ufl.exp(f * g + g)),
                "shared and unshared subexpression": ((lambda e_: e_ * e_ + e_)(f * g + 1), (f * g + 1) * (f * g + 1) + (f * g + 2)),
                "forms differing in metadata spelling": (f * v * dx(metadata={"quadrature_degree": 2}), f * v * dx(metadata={"quadrature_degree": 2.0})),
                "forms differing in a coefficient": (f * g * v * dx + f * v * ds, f * g * v * dx + g * v * ds),
            }
            return out
        ops = [("a == b", lambda a, b: a == b), ("b == a", lambda a, b: b == a), ("a != b", lambda a, b: a != b), ("a.equals(b)", lambda a, b: a.equals(b) if hasattr(a, "equals") else a == b),
               ("{a, b}", lambda a, b: {a, b}), ("{b: 1, a: 2}", lambda a, b: {b: 1, a: 2}), ("a in [b]", lambda a, b: a in [b]),
               ("extract_coefficients of both", lambda a, b: (extract_coefficients(a), extract_coefficients(b))),
               ("apply_algebra_lowering(a + b)", lambda a, b: apply_algebra_lowering.apply_algebra_lowering(a + b) if hasattr(a, "ufl_shape") and a.ufl_shape == b.ufl_shape else None),
               ("renumber_indices(a * b)", lambda a, b: renumber_indices(a * b) if hasattr(a, "ufl_shape") and a.ufl_shape == b.ufl_shape == () else None),
               ("(a*v*dx) + (b*v*dx)", lambda a, b: None)]
        names = list(mkpairs())
        for pn in names:
            for on, op in ops:
                a, b = mkpairs()[pn]
                before = (snapshot(a), snapshot(b))
                try:
                    with warnings.catch_warnings():
                        warnings.simplefilter("ignore")
                        op(a, b)
                except BaseException as ex:  # noqa: BLE001
                    if isinstance(ex, (KeyboardInterrupt, SystemExit)):
                        raise
                n += 1
                after = (snapshot(a), snapshot(b))
                for which, bf, af in (("a", before[0], after[0]), ("b", before[1], after[1])):
                    if bf != af:
                        keys = [k for k in bf if bf[k] != af.get(k)]
                        return violated(f"'{on}' on the pair '{pn}' changed its operand {which}: {keys} differ; e.g. {str(bf[keys[0]])[:200]} -> {str(af.get(keys[0]))[:200]}",
                                        replay={"pair": pn, "operation": on, "operand": which, "changed": keys, "before": {k: str(bf[k])[:400] for k in keys},
                                                "after": {k: str(af.get(k))[:400] for k in keys}}, reproduced=True, backend="exec(snapshot)")
        return bounded_ok(n, f"{len(names)} pairs of look-alike inputs x {len(ops)} binary operations, fresh objects each time", sample="comparing / hashing two inputs changes neither")
    run.add("dynamic-frame/pairs-of-look-alike-inputs", pairs_of_inputs, kind="bounded")

    # base forms (FormSum with weights, Action, Adjoint, Cofunction, Matrix): passes run through map_integrands, which rebuilds FormSums and
    # drops vanished components -- the input's component and weight lists must stay as they were
    def base_forms():
        from ufl import Action, Adjoint, Cofunction, FormSum, Matrix, ZeroBaseForm, action, adjoint
        from ufl.algorithms import apply_algebra_lowering, apply_derivatives, expand_derivatives, map_integrands
        m, forms, exprs, T = corpus()
        u, v, f, g, V = T["u"], T["v"], T["f"], T["g"], T["V"]
        c1, c2 = Cofunction(V.dual()), Cofunction(V.dual())
        M = Matrix(V, V)
        lin = f * g * v * dx
        inputs = {
            "form + 2*cofunction": FormSum((lin, 1), (c1, 2)),
            "3*cofunction + form + 5*cofunction": FormSum((c1, 3), (lin, 1), (c2, 5)),
            "2*Action(M, f) + 3*c1 + 5*c2": FormSum((Action(M, f), 2), (c1, 3), (c2, 5)),
            "Action(M, f)": Action(M, f), "Adjoint(M)": Adjoint(M), "matrix + 2*adjoint": FormSum((M, 1), (Adjoint(M), 2)),
        }

        def snap(x):
            with warnings.catch_warnings():
                warnings.simplefilter("ignore")
                s_ = {"repr": repr(x), "str": str(x), "hash": hash(x), "arguments": tuple(map(repr, x.arguments())), "coefficients": tuple(map(repr, x.coefficients()))}
                if isinstance(x, FormSum):
                    s_["weights"] = tuple(map(repr, x.weights()))
                    s_["components"] = tuple(map(repr, x.components()))
                    s_["operands"] = tuple(map(repr, x.ufl_operands))
            return s_
        zero_all = lambda e: C.Zero(e.ufl_shape, e.ufl_free_indices, e.ufl_index_dimensions) if isinstance(e, C.Expr) else ZeroBaseForm(e.arguments())  # noqa: E731
        AL = [("apply_algebra_lowering", lambda x: apply_algebra_lowering.apply_algebra_lowering(x)),
              ("apply_derivatives(derivative(x, g, u))", lambda x: apply_derivatives.apply_derivatives(ufl.derivative(x, g, u))),
              ("apply_derivatives(derivative(x, f, u))", lambda x: apply_derivatives.apply_derivatives(ufl.derivative(x, f, u))),
              ("expand_derivatives(derivative(x, f, u))", lambda x: expand_derivatives(ufl.derivative(x, f, u))),
              ("replace c1 -> 0", lambda x: ufl.replace(x, {c1: ZeroBaseForm((v,))})), ("replace f -> 0", lambda x: ufl.replace(x, {f: C.Zero()})),
              ("replace f -> g", lambda x: ufl.replace(x, {f: g})), ("map_integrands(everything -> 0)", lambda x: map_integrands.map_integrands(zero_all, x)),
              ("map_integrands(identity)", lambda x: map_integrands.map_integrands(lambda e: e, x)),
              ("x + x", lambda x: x + x), ("2*x", lambda x: 2 * x), ("-x", lambda x: -x), ("x - x", lambda x: x - x), ("adjoint", lambda x: adjoint(x)),
              ("action(x, f)", lambda x: action(x, f)), ("x == x", lambda x: x.equals(x)), ("signature-like repr", lambda x: repr(x))]
        ncalls = 0
        for xn, x in inputs.items():
            before = snap(x)
            for rounds in (1, 2):           # twice: a pass that shortens a list of its input fails differently the second time
                for an, a in AL:
                    try:
                        with warnings.catch_warnings():
                            warnings.simplefilter("ignore")
                            a(x)
                        outcome = "returned"
                    except BaseException as ex:  # noqa: BLE001
                        if isinstance(ex, (KeyboardInterrupt, SystemExit)):
                            raise
                        outcome = f"raised {type(ex).__name__}"
                    ncalls += 1
                    after = snap(x)
                    if after != before:
                        dk = [k for k in before if before[k] != after.get(k)]
                        return violated(f"{an} ({outcome}) changed its input base form '{xn}': {dk} differ; e.g. {str(before[dk[0]])[:160]} -> {str(after[dk[0]])[:160]}",
                                        replay={"algorithm": an, "input": xn, "changed": dk, "before": {k: str(before[k])[:400] for k in dk}, "after": {k: str(after[k])[:400] for k in dk}},
                                        reproduced=True, backend="exec(snapshot)")
        return bounded_ok(ncalls, f"{len(inputs)} base forms x {len(AL)} algorithms, two rounds on the same objects",
                          sample="repr, str, hash, arguments, coefficients, components and weights unchanged after every call")
    run.add("dynamic-frame/base-forms", base_forms, kind="bounded")

    def measures():
        m, forms, exprs, T = corpus()
        f = T["f"]
        n = 0
        for name, use in (("dx(metadata=md, degree=2)", lambda md: dx(m, metadata=md, degree=2)), ("dx(metadata=md)(degree=3, scheme='x')", lambda md: dx(m, metadata=md)(degree=3, scheme="x")),
                          ("dx(1, md)", lambda md: dx(1, md)), ("f*dx(metadata=md)", lambda md: f * dx(m, metadata=md)),
                          ("Measure.reconstruct(metadata=md)", lambda md: dx(m).reconstruct(metadata=md)),
                          ("(f*dx(md)).integrals()[0].reconstruct(subdomain_id=2)", lambda md: (f * dx(m, metadata=md)).integrals()[0].reconstruct(subdomain_id=2)),
                          ("Measure(metadata=md, degree)", lambda md: Measure("ds", domain=m, metadata=md)(2, degree=1)),
                          ("dx(md)+ds(md) sum measure", lambda md: f * (dx(m, metadata=md) + ds(m, metadata=md)(degree=2)))):
            md = TrapDict(quadrature_degree=7, pts=np.array([0.5, 0.25]))
            before = repr(sorted((k, repr(v)) for k, v in md.items()))
            try:
                use(md)
            except AssertionError as ex:
                if "write to input metadata" in str(ex):
                    return violated(f"{name} writes into the metadata dictionary it was given", replay={"expression": name}, reproduced=True, backend="exec(trap)")
                raise
            except Exception:  # noqa: BLE001
                pass
            n += 1
            if repr(sorted((k, repr(v)) for k, v in md.items())) != before:
                return violated(f"{name} changed the metadata dictionary it was given", replay={"expression": name}, reproduced=True)
        return bounded_ok(n, f"{n} ways of attaching / reconfiguring metadata", sample="the caller's metadata dictionary is never written")
    run.add("dynamic-frame/measure-metadata", measures, kind="bounded")

    def canary():
        d = TrapDict(a=1)
        try:
            d["b"] = 2
        except AssertionError:
            return violated("canary refuted", reproduced=True)
        return proved("canary")
    run.add("canary/trap-dict-accepts-write", canary, kind="canary")
