"""C16 — lhs/rhs/system/action/adjoint/energy_norm/functional respect the algebra.

Functions under contract: PartExtracter handlers, compute_form_with_arity, compute_form_lhs/rhs/functional/action/adjoint,
compute_energy_norm and the formoperators wrappers lhs, rhs, system, action, adjoint, energy_norm, functional.
Contract: with the argument atoms as indeterminates den(F) is a polynomial p in them.  For F multi-affine in (v, u):
   den lhs(F)        == p(1,1) - p(1,0) - p(0,1) + p(0,0)      (the part of degree (1,1); p(a,b) = den F with v scaled by a, u by b)
   den rhs(F)        == -(p(1,0) - p(0,0))
   den functional(F) == p(0,0)
   den action(a, f)  == den a with the last argument's atoms replaced by those of f
   den adjoint(a)    == conj(den a) with the two arguments swapped
   den energy_norm(a, f) == den a with both arguments replaced by f
for all terminal values, per (integral type, domain, subdomain).
"""
from __future__ import annotations

import itertools

import ufl
import ufl.classes as C
from ufl import (CellVolume, FacetNormal, TestFunction, TrialFunction, action, adjoint, avg, conj, derivative, div, dot, ds, dS, dx, energy_norm, exp, functional,
                 grad, inner, jump, lhs, rhs, sin, system, conditional, lt, as_vector)
from ufl.algorithms.formtransformations import (PartExtracter, compute_energy_norm, compute_form_action, compute_form_adjoint, compute_form_functional,
                                                compute_form_lhs, compute_form_rhs, compute_form_with_arity)
from ufl.core.multiindex import Index

from ufv import elements as E
from ufv import num as N
from ufv.core import crash_text, deliberate, proved, undecided, violated
from ufv.den import World, den
from ufv.forms import check_form, form_parts, part_sum
from ufv.opq import mesh
from ufv.terms import atoms_hook

LEVEL = "other"
TECHNIQUE = ("contract VCs on the real form transformations: forms of a corpus (affine in the trial function, several integral types and "
             "subdomains) are transformed; per (integral type, domain, subdomain) the summed integrand must equal the algebraic "
             "specification (coefficient extraction by scaling the argument atoms, substitution, conjugate-swap) for all values")
LEVEL_TEXT = "All-values proofs per (form, operation, integral part); corpus of forms finite; <= 2 argument numbers."
LEVEL_NOTE = "Trusted: ufv/den.py; polynomial coefficient extraction p(1,1)-p(1,0)-p(0,1)+p(0,0) (valid for multi-affine forms, the property's precondition); z3."
TRUSTED = ["ufv/den.py", "coefficient extraction identities for multi-affine polynomials", "z3, ufv/alg.py"]
ASSUMPTIONS = ["forms affine in their highest-numbered argument and linear in the test function (precondition of the property)", "finite corpus; gdim 2",
               "complex mode for adjoint/energy_norm, real mode otherwise",
               "adjoint obligations build forms with un-parted arguments only: for MixedFunctionSpace parts compute_form_adjoint adjoints every block in place "
               "(its documented convention, pinned by the library's own test), which is not decided here (DESIGN 10.4)"]
EXPLANATION = "lhs/rhs/functional are the homogeneous parts, action/energy_norm substitutions and adjoint the conjugate swap, for all terminal values."


# forms that lhs / rhs / system / functional must ACCEPT (well-formed affine forms; a refusal of these is not a legitimate precondition failure)
MUST_ACCEPT = ("mixed space with vector and tensor parts",)


def build(run):
    tmo = 20000
    for nm in ("expr", "variable", "argument", "sum", "product", "division", "linear_operator", "linear_indexed_type", "list_tensor"):
        run.function(getattr(PartExtracter, nm), f"PartExtracter.{nm}")
    for f_ in (compute_form_with_arity, compute_form_lhs, compute_form_rhs, compute_form_functional, compute_form_action, compute_form_adjoint,
               compute_energy_norm, lhs, rhs, system, action, adjoint, energy_norm, functional):
        run.function(f_)
    tri = mesh("triangle")
    cell = tri.ufl_cell()
    S = ufl.FunctionSpace(tri, E.LagrangeElement(cell, 1))
    V = ufl.FunctionSpace(tri, E.LagrangeElement(cell, 1, (2,)))
    v, u = TestFunction(S), TrialFunction(S)
    vv, uu = TestFunction(V), TrialFunction(V)
    f, g = ufl.Coefficient(S), ufl.Coefficient(S)
    w_ = ufl.Coefficient(V)
    n = FacetNormal(tri)
    i = Index()

    S2 = ufl.FunctionSpace(tri, E.LagrangeElement(cell, 2))
    W = ufl.MixedFunctionSpace(S, S2, S)
    (mv0, mv1, mv2), (mu0, mu1, mu2) = ufl.TestFunctions(W), ufl.TrialFunctions(W)
    # a mixed function space with a VECTOR-valued and a tensor-valued part (Stokes-like systems)
    T2 = ufl.FunctionSpace(tri, E.LagrangeElement(cell, 1, (2, 2)))
    Wv = ufl.MixedFunctionSpace(V, S, T2)
    (wv0, wq, wt), (wu0, wp, ws) = ufl.TestFunctions(Wv), ufl.TrialFunctions(Wv)

    def world(complex_mode=False, scale=None, subst=None, swap=False):
        """scale: {argument number: 0/1}; subst: {argument number: coefficient}; swap: exchange argument numbers 0 and 1"""
        def hook(w, e, comp, env):
            if isinstance(e, C.Argument):
                nbr = e.number()
                if subst and (nbr, e.part()) in subst:
                    if isinstance(subst[(nbr, e.part())], C.Zero):
                        return 0
                    return atoms_hook(w, subst[(nbr, e.part())], comp, env)
                if subst and nbr in subst:
                    return atoms_hook(w, subst[nbr], comp, env)
                if swap:
                    nbr = 1 - nbr
                val = w.symbol(f"v{nbr}" + (f"p{e.part()}" if e.part() is not None else ""), comp)
                if scale is not None:
                    return N.mul(scale.get(e.number(), 1), val)
                return val
            return atoms_hook(w, e, comp, env)

        def mk(symbolic, valuation):
            w = World(symbolic=symbolic, complex_mode=complex_mode, valuation=valuation)
            w.terminal_hook = hook
            return w
        return mk

    def derive_world(w, **kw):
        mk = world(complex_mode=w.complex, **kw)
        w2 = w.with_layers(w.layers)
        w2.terminal_hook = mk(True, None).terminal_hook
        return w2

    def P(w, F, key, a, b):
        return part_sum(derive_world(w, scale={0: a, 1: b}), form_parts(F).get(key, []))

    forms = [
        ("mass+source", lambda: u * v * dx - f * v * dx),
        ("poisson", lambda: inner(grad(u), grad(v)) * dx - f * v * dx + g * v * ds),
        ("reaction with coefficient", lambda: f * u * v * dx + g * inner(grad(u), grad(v)) * dx - sin(f) * v * dx(1) + u * v * dx(1)),
        ("vector", lambda: inner(grad(uu), grad(vv)) * dx + dot(w_, vv) * dx - div(uu) * vv[0] * ds),
        ("affine in u via sum inside product", lambda: (u + f) * v * dx + (grad(u)[i] + w_[i]) * grad(v)[i] * dx),
        ("nested sums/products", lambda: (f * (u + g) + g * u) * v * dx + 2 * v * dx),
        ("interior facet", lambda: jump(u) * jump(v) * dS + avg(f) * jump(v) * dS - inner(avg(grad(u)), n("+")) * v("+") * dS),
        ("division/indexed", lambda: (u / (1 + f * f)) * v * dx + as_vector([u, f])[1] * v * dx + as_vector([u, f])[0] * v * ds),
        ("from derivative", lambda: derivative((f ** 3 + inner(grad(f), grad(f))) * dx, f, v) + derivative(derivative(f ** 3 * dx, f, v), f, u)),
        ("only linear", lambda: f * v * dx + g * v * ds(2)),
        ("only bilinear", lambda: u * v * dx + exp(f) * u * v * ds),
        ("functional part too", lambda: u * v * dx + f * v * dx + f * g * dx),
        # list tensors: which component carries the argument (first / last / all), zeros elsewhere
        ("list tensor [u, 0]", lambda: dot(as_vector([u, 0]), vv) * dx - f * vv[0] * dx),
        ("list tensor [0, u]", lambda: dot(as_vector([0, u]), vv) * dx - f * vv[1] * dx),
        ("list tensor [f*u, 0] + [u, u]", lambda: dot(as_vector([f * u, 0]), vv) * dx + dot(as_vector([u, u]), vv) * ds - g * vv[0] * ds),
        ("list tensor matrix [[u,0],[0,0]]", lambda: inner(ufl.as_matrix([[u, 0], [0, 0]]), grad(vv)) * dx - f * vv[0] * dx),
        ("list tensor matrix [[0,0],[grad u . w, 0]]", lambda: inner(ufl.as_matrix([[0, 0], [dot(grad(u), w_), 0]]), grad(vv)) * dx + dot(w_, vv) * dx),
        ("list tensor of test components [v0, 0]", lambda: u * dot(as_vector([vv[0], 0]), w_) * dx - f * dot(as_vector([vv[1], 0]), w_) * dx),
        # a linear operator (restriction, jump / avg, conj, grad) wrapping a sum whose terms have different arity
        ("restricted affine sum (u - g)('+')", lambda: (u - g)("+") * v("+") * dS),
        ("jump of an affine sum", lambda: f * jump(u - g) * jump(v) * dS + avg(u - f) * v("-") * dS),
        ("conj of an affine sum", lambda: v * conj(u - g) * dx),
        ("grad of an affine sum", lambda: inner(grad(u - f * g), grad(v)) * dx + (u - g) * v * ds),
        ("affine sum with a functional term under a restriction", lambda: (u - g)("-") * v("-") * dS + g * g * dx),
        # forms with a single argument plus argument-free terms (separate integrals, or inside the same integrand)
        ("linear + functional terms", lambda: f * v * dx + g * dx + g * f * ds),
        ("linear + functional in one integrand", lambda: (f * v + g) * dx),
        ("only functional", lambda: f * g * dx + sin(f) * ds),
        # labelled sub-expressions (ufl.variable) that provide fewer, exactly, or all of the wanted arguments
        ("variable coefficient factor", lambda: ufl.variable(1 + g * g) * u * v * dx - ufl.variable(1 + g * g) * f * v * dx),
        ("variable residual (u - f)", lambda: ufl.variable(u - f) * v * dx),
        ("variable trial function", lambda: ufl.variable(u) * v * dx + f * v * dx),
        ("variable test function", lambda: u * ufl.variable(v) * dx - f * ufl.variable(v) * dx),
        ("variable around the whole integrand", lambda: ufl.variable(u * v) * dx - ufl.variable(f * v) * dx + ufl.variable(f * g) * dx),
        ("variable inside grad", lambda: inner(grad(ufl.variable(f * u)), grad(v)) * dx - ufl.variable(f) * v * ds),
        # arguments with parts (MixedFunctionSpace): the form is split into blocks first; restrictions, jumps and averages wrapping sums over several parts
        ("mixed space with vector and tensor parts: stokes + rhs", lambda: (inner(grad(wu0), grad(wv0)) - wp * ufl.div(wv0) + ufl.div(wu0) * wq + dot(w_, wv0) + g * wq) * dx),
        ("mixed space with vector and tensor parts: tensor block", lambda: (inner(ws, wt) + inner(grad(wu0), wt) + wp * wq - inner(ufl.outer(w_, w_), wt) - f * wq) * dx + dot(wu0, wv0) * ds),
        ("mixed space with vector and tensor parts: only linear", lambda: (dot(w_, wv0) + f * ufl.tr(wt)) * dx),
        ("mixed space: volume terms", lambda: (mu0 * mv0 + mu1 * mv1 + grad(mu2)[0] * mv0 - f * mv1 - g * mv2) * dx),
        ("mixed space: separate restrictions", lambda: mu0("+") * mv0("+") * dS + mu1("-") * mv0("+") * dS - f("+") * mv1("+") * dS),
        ("mixed space: restricted sum of parts", lambda: (mu0 + mu1)("+") * mv0("+") * dS + mu2("-") * mv1("-") * dS - (f * mv0 + g * mv2)("+") * dS),
        ("mixed space: only a restricted sum", lambda: (mu0 - mu2)("-") * (mv0 + mv1)("+") * dS - avg(f) * (mv1 + mv2)("-") * dS),
        ("mixed space: jump and avg of sums of parts", lambda: jump(mu0 + mu1) * avg(mv0 - mv2) * dS + avg(g) * jump(mv0 + mv1) * dS),
    ]

    for fname, mkF in forms:
        def lhs_ob(mkF=mkF, fname=fname):
            F = mkF()
            from ufl.algorithms import expand_derivatives
            Fe = expand_derivatives(F)
            try:
                L = lhs(F)
            except ValueError as ex:
                if not deliberate(ex):
                    return violated(f"crash instead of a result or a refusal: {crash_text(ex)}", reproduced=True, backend="exec")
                if fname.startswith(MUST_ACCEPT):
                    return violated(f"lhs({fname}) refuses a well-formed affine form: {ex}", replay={"form": fname, "error": str(ex)}, reproduced=True, backend="exec")
                return proved("refused", sample=f"lhs refuses: {ex}"[:200])
            return check_form(world(), L, lambda w, key: N.add(N.sub(N.sub(P(w, Fe, key, 1, 1), P(w, Fe, key, 1, 0)), P(w, Fe, key, 0, 1)), P(w, Fe, key, 0, 0)),
                              [Fe], f"lhs({fname})", tmo)
        run.add(f"lhs/{fname}", lhs_ob, kind="values")

        def rhs_ob(mkF=mkF, fname=fname):
            F = mkF()
            from ufl.algorithms import expand_derivatives
            Fe = expand_derivatives(F)
            try:
                R = rhs(F)
            except ValueError as ex:
                if not deliberate(ex):
                    return violated(f"crash instead of a result or a refusal: {crash_text(ex)}", reproduced=True, backend="exec")
                if fname.startswith(MUST_ACCEPT):
                    return violated(f"rhs({fname}) refuses a well-formed affine form: {ex}", replay={"form": fname, "error": str(ex)}, reproduced=True, backend="exec")
                return proved("refused", sample=f"rhs refuses: {ex}"[:200])
            return check_form(world(), R, lambda w, key: N.neg(N.sub(P(w, Fe, key, 1, 0), P(w, Fe, key, 0, 0))), [Fe], f"rhs({fname})", tmo)
        run.add(f"rhs/{fname}", rhs_ob, kind="values")

        def sys_ob(mkF=mkF, fname=fname):
            F = mkF()
            from ufl.algorithms import expand_derivatives
            Fe = expand_derivatives(F)
            try:
                L, R = system(F)
            except ValueError as ex:
                if not deliberate(ex):
                    return violated(f"crash instead of a result or a refusal: {crash_text(ex)}", reproduced=True, backend="exec")
                if fname.startswith(MUST_ACCEPT):
                    return violated(f"system({fname}) refuses a well-formed affine form: {ex}", replay={"form": fname, "error": str(ex)}, reproduced=True, backend="exec")
                return proved("refused", sample=f"system refuses: {ex}"[:200])
            LR = (L if L != 0 else None, R if R != 0 else None)

            def spec(w, key):
                # F == lhs - rhs  up to the argument-free part, which belongs to neither
                return N.sub(part_sum(derive_world(w), form_parts(Fe).get(key, [])), P(w, Fe, key, 0, 0))
            got = None
            from ufl.form import Form
            parts = [x for x in (L, R) if isinstance(x, Form)]

            class _Diff:
                pass

            def got_minus(w, key):
                a = part_sum(w, form_parts(L).get(key, [])) if isinstance(L, Form) else 0
                b = part_sum(w, form_parts(R).get(key, [])) if isinstance(R, Form) else 0
                return N.sub(a, b)
            # compare lhs - rhs with F - functional part on every key
            from ufv.smt import prove_equal
            keys = set(form_parts(Fe))
            for x in parts:
                keys |= set(form_parts(x))
            nvc = 0
            for key in sorted(keys, key=str):
                w = world()(True, None)
                v_ = prove_equal(w, got_minus(w, key), spec(w, key), tmo)
                nvc += 1
                if v_.status == "refuted":
                    return violated(f"system({fname}): F != lhs(F) - rhs(F) on {key}; counter-model {v_.model}", replay={"form": fname, "key": str(key), "model": v_.model},
                                    reproduced=True, backend=v_.backend)
                if v_.status != "proved":
                    return undecided(f"system({fname}): {key}: {v_.detail}")
            return proved("z3-simplify", vcs=nvc, sample=f"F == lhs(F) - rhs(F) (+ argument-free part) for {fname}")
        run.add(f"system/{fname}", sys_ob, kind="values")

        def fun_ob(mkF=mkF, fname=fname):
            F = mkF()
            from ufl.algorithms import expand_derivatives
            Fe = expand_derivatives(F)
            try:
                Z = functional(F)
            except ValueError as ex:
                if not deliberate(ex):
                    return violated(f"crash instead of a result or a refusal: {crash_text(ex)}", reproduced=True, backend="exec")
                if fname.startswith(MUST_ACCEPT):
                    return violated(f"functional({fname}) refuses a well-formed affine form: {ex}", replay={"form": fname, "error": str(ex)}, reproduced=True, backend="exec")
                return proved("refused", sample=f"functional refuses: {ex}"[:200])
            return check_form(world(), Z, lambda w, key: P(w, Fe, key, 0, 0), [Fe], f"functional({fname})", tmo)
        run.add(f"functional/{fname}", fun_ob, kind="values")

    bilinear = [
        ("mass", lambda: u * v * dx), ("stiffness+boundary", lambda: inner(grad(u), grad(v)) * dx + f * u * v * ds(1)),
        ("nonsymmetric", lambda: dot(w_, grad(u)) * v * dx + u * grad(v)[0] * dx), ("complex coefficient", lambda: (f + 1j * g) * u * conj(v) * dx + inner(grad(u), grad(v)) * dx),
        ("vector nonsym", lambda: inner(dot(grad(uu), w_), vv) * dx + div(uu) * vv[1] * ds), ("interior facet", lambda: jump(u) * avg(v) * dS + u("+") * v("-") * dS),
    ]
    for fname, mkA in bilinear:
        def act_ob(mkA=mkA, fname=fname):
            a = mkA()
            co = ufl.Coefficient(a.arguments()[-1].ufl_function_space())
            r = action(a, co)
            from ufl.algorithms import expand_derivatives
            ae = expand_derivatives(a)
            return check_form(world(complex_mode=True), r, lambda w, key: part_sum(derive_world(w, subst={1: co}), form_parts(ae).get(key, [])), [ae],
                              f"action({fname})", tmo)
        run.add(f"action/{fname}", act_ob, kind="values")

        def adj_ob(mkA=mkA, fname=fname):
            a = mkA()
            r = adjoint(a)
            from ufl.algorithms import expand_derivatives
            ae = expand_derivatives(a)
            return check_form(world(complex_mode=True), r, lambda w, key: N.conj(part_sum(derive_world(w, swap=True), form_parts(ae).get(key, []))), [ae],
                              f"adjoint({fname})", tmo)
        run.add(f"adjoint/{fname}", adj_ob, kind="values")

        def en_ob(mkA=mkA, fname=fname):
            a = mkA()
            co = ufl.Coefficient(a.arguments()[-1].ufl_function_space())
            try:
                r = energy_norm(a, co)
            except ValueError as ex:
                if not deliberate(ex):
                    return violated(f"crash instead of a result or a refusal: {crash_text(ex)}", reproduced=True, backend="exec")
                return proved("refused", sample=f"energy_norm refuses: {ex}"[:200])
            from ufl.algorithms import expand_derivatives
            ae = expand_derivatives(a)
            return check_form(world(complex_mode=True), r, lambda w, key: part_sum(derive_world(w, subst={0: co, 1: co}), form_parts(ae).get(key, [])), [ae],
                              f"energy_norm({fname})", tmo)
        run.add(f"energy_norm/{fname}", en_ob, kind="values")

        def en_default(mkA=mkA, fname=fname):
            """energy_norm(a) without a coefficient must be a(w, w) for ONE new coefficient w in the trial space"""
            a = mkA()
            try:
                r = energy_norm(a)
            except ValueError as ex:
                if not deliberate(ex):
                    return violated(f"crash instead of a result or a refusal: {crash_text(ex)}", reproduced=True, backend="exec")
                return proved("refused", sample=f"energy_norm refuses: {ex}"[:200])
            new = [c_ for c_ in r.coefficients() if c_ not in a.coefficients()]
            if len(new) != 1 or new[0].ufl_function_space() != a.arguments()[-1].ufl_function_space():
                return violated(f"energy_norm({fname}) without a coefficient introduces {len(new)} new coefficients {[str(c_) for c_ in new]}: it is not a(w, w) for a single w",
                                replay={"form": fname, "new_coefficients": [repr(c_) for c_ in new]}, reproduced=True, backend="exec")
            co = new[0]
            from ufl.algorithms import expand_derivatives
            ae = expand_derivatives(a)
            return check_form(world(complex_mode=True), r, lambda w, key: part_sum(derive_world(w, subst={0: co, 1: co}), form_parts(ae).get(key, [])), [ae],
                              f"energy_norm({fname}) default coefficient", tmo)
        run.add(f"energy_norm-default-coefficient/{fname}", en_default, kind="values")

        def act_default(mkA=mkA, fname=fname):
            """action(a) without a coefficient replaces the last argument by ONE new coefficient"""
            a = mkA()
            r = action(a)
            new = [c_ for c_ in r.coefficients() if c_ not in a.coefficients()]
            if len(new) != 1:
                return violated(f"action({fname}) without a coefficient introduces {len(new)} new coefficients", replay={"form": fname}, reproduced=True)
            co = new[0]
            from ufl.algorithms import expand_derivatives
            ae = expand_derivatives(a)
            return check_form(world(complex_mode=True), r, lambda w, key: part_sum(derive_world(w, subst={1: co}), form_parts(ae).get(key, [])), [ae],
                              f"action({fname}) default coefficient", tmo)
        run.add(f"action-default-coefficient/{fname}", act_default, kind="values")

    # ---- action on forms over a MixedFunctionSpace with a user-supplied list of coefficients: the argument of part p is replaced by coefficient[p],
    # whichever parts actually occur in the form
    mixed_forms = [
        ("all trial parts present", lambda: (mu0 * mv0 + mu1 * mv1 + mu2 * mv0 + grad(mu1)[0] * mv2) * dx, 1),
        ("only trial part 1 present", lambda: mu1 * mv0 * dx + grad(mu1)[0] * mv1 * dx, 1),
        ("only trial part 2 present", lambda: f * mu2 * mv0 * dx + mu2 * mv2 * ds, 1),
        ("trial parts 0 and 2 present", lambda: mu0 * mv1 * dx + g * grad(mu2)[1] * mv1 * dx, 1),
        ("linear form, only test part 1 present", lambda: f * grad(mv1)[1] * dx, 0),
        ("linear form, test parts 1 and 2 present", lambda: f * mv1 * dx + g * mv2 * ds, 0),
    ]
    # ... and with blocks of the list that are zero (written 0, 0.0, Zero(), 0*c): the argument of that part is replaced by zero, not left in the form
    ZERO_LISTS = {"": lambda c: c, " [c0, 0, c2]": lambda c: [c[0], 0, c[2]], " [Zero(), c1, 0.0]": lambda c: [C.Zero(), c[1], 0.0], " [c0, c1, 0*c2]": lambda c: [c[0], c[1], 0 * c[2]],
                  " [0, 0, 0]": lambda c: [0, 0, 0]}
    for (fname, mkA, top), (zname, zl) in itertools.product(mixed_forms, ZERO_LISTS.items()):
        fname = fname + zname

        def act_mixed(mkA=mkA, fname=fname, top=top, zl=zl):
            a = mkA()
            cos = [ufl.Coefficient(S), ufl.Coefficient(S2), ufl.Coefficient(S)]
            given = zl(cos)
            cos = [c_ if g_ is c_ else C.Zero() for c_, g_ in zip(cos, given)]
            try:
                r = action(a, given)
            except ValueError as ex:
                if not deliberate(ex):
                    return violated(f"crash instead of a result or a refusal: {crash_text(ex)}", reproduced=True, backend="exec")
                return proved("refused", sample=f"action refuses: {ex}"[:200])
            return check_form(world(complex_mode=True), r, lambda w, key: part_sum(derive_world(w, subst={(top, p_): cos[p_] for p_ in range(3)}), form_parts(a).get(key, [])), [a],
                              f"action({fname}, [c0, c1, c2])", tmo)
        run.add(f"action-mixed-function-space/{fname}", act_mixed, kind="values")

    # ---- forms without arguments: action / adjoint / energy_norm have nothing to replace; a refusal with a message is fine, an internal error is not
    def no_arguments():
        n = 0
        for nm_, F_ in (("f*g*dx", f * g * dx), ("sin(f)*ds + g*dx(1)", sin(f) * ufl.ds + g * dx(1))):
            for fname_, fn_ in (("action(F)", lambda F__: action(F__)), ("action(F, g)", lambda F__: action(F__, g)), ("functional(F)", lambda F__: ufl.functional(F__)),
                                ("lhs(F)", lambda F__: ufl.lhs(F__)), ("rhs(F)", lambda F__: ufl.rhs(F__))):
                n += 1
                try:
                    fn_(F_)
                except (ValueError, RuntimeError) as ex:
                    if not deliberate(ex):
                        return violated(f"{fname_} on the functional {nm_}: {crash_text(ex)}", replay={"form": nm_, "call": fname_}, reproduced=True, backend="exec")
                except (IndexError, KeyError, AttributeError, TypeError) as ex:
                    return violated(f"{fname_} on the functional {nm_} (a form without arguments) fails with an internal error: {crash_text(ex)}", replay={"form": nm_, "call": fname_},
                                    reproduced=True, backend="exec")
        return proved("exec", vcs=n, sample=f"{n} calls on forms without arguments: a result or a refusal, no internal error")
    run.add("forms-without-arguments/result-or-refusal", no_arguments, kind="values")

    # ---- a general EXPRESSION in the place of the coefficient (Form.__mul__ forwards any expression to action): action(a, e) is a(., e), i.e. what replacing a
    # stand-in coefficient c of action(a, c) by e gives; energy_norm(a, e) = a(e, e)
    def expression_in_place_of_coefficient():
        a_ = (u * v + inner(grad(u), grad(v)) * f) * dx + u * v * ufl.ds
        n = 0
        for nm_, e_ in (("2*f", 2 * f), ("f + g", f + g), ("f*g + 3", f * g + 3), ("f", f)):
            c_ = ufl.Coefficient(S)
            for fname_, got_fn, want_fn in (("action(a, e)", lambda: action(a_, e_), lambda: ufl.replace(action(a_, c_), {c_: e_})), ("a * e", lambda: a_ * e_, lambda: ufl.replace(action(a_, c_), {c_: e_})),
                                            ("energy_norm(a, e)", lambda: energy_norm(a_, e_), lambda: ufl.replace(energy_norm(a_, c_), {c_: e_}))):
                n += 1
                try:
                    got = got_fn()
                except (ValueError, RuntimeError) as ex:
                    if not deliberate(ex):
                        return violated(f"{fname_} with e = {nm_}: {crash_text(ex)}", replay={"call": fname_, "expression": nm_}, reproduced=True, backend="exec")
                    continue
                except (AttributeError, TypeError, IndexError, KeyError) as ex:
                    return violated(f"{fname_} with e = {nm_} (an expression in the trial space) fails with an internal error: {crash_text(ex)}", replay={"call": fname_, "expression": nm_},
                                    reproduced=True, backend="exec")
                want = want_fn()
                if not (got.equals(want) or got.signature() == want.signature()):      # (up to the numbers of bound indices created on the way)
                    # not the same tree (derivatives of the expression may have been expanded on one route only): compare the values
                    from ufl.algorithms import expand_derivatives
                    we = expand_derivatives(want)
                    res = check_form(world(complex_mode=True), expand_derivatives(got), lambda w, key, we=we: part_sum(w, form_parts(we).get(key, [])), [we], f"{fname_} with e = {nm_}", tmo)
                    if res.status != "proved":
                        return res
        return proved("exec(relative to a stand-in coefficient)", vcs=n, sample=f"{n} calls with a general expression in place of the coefficient")
    run.add("action-and-energy_norm/expression-in-place-of-the-coefficient", expression_in_place_of_coefficient, kind="values")

    def canary():
        F = u * v * dx - f * v * dx
        return check_form(world(), lhs(F), lambda w, key: N.neg(part_sum(derive_world(w, scale={0: 1, 1: 0}), form_parts(F).get(key, []))), [F], "canary lhs is not rhs")
    run.add("canary/lhs-vs-rhs", canary, kind="canary")
