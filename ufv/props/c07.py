"""C07 — geometry lowering computes the geometric quantities of the actual cell.

Functions under contract: every handler of GeometryLoweringApplier and apply_geometry_lowering.
Contract: on a symbolic non-degenerate affine cell (vertex coordinates are symbols; det(J^T J) > 0) the
denotation of the lowered expression satisfies the *defining predicate* of the quantity computed
directly from the vertices by elementary geometry (ufv/geom.py + the predicates below), for all vertex
positions, every facet and every (cell, gdim) with gdim >= tdim <= 3 — a finite domain of cases, each
for all real values.
"""
from __future__ import annotations

import itertools

import ufl.classes as C
from ufl.algorithms.apply_geometry_lowering import GeometryLoweringApplier, apply_geometry_lowering

from ufv import num as N
from ufv.core import crash_text, deliberate, proved, undecided, violated
from ufv.den import World, den, leibniz_det, _cofactor
from ufv.geom import FACET_CELL, REF_EDGES, TDIM, CellModel, facet_vertices, fact
from ufv.opq import mesh
from ufv.semv import check_conds, check_pred, check_same

LEVEL = "proof"
TECHNIQUE = ("contract VCs: real geometry-lowering handlers executed on geometric terminals of a symbolic affine cell; the lowered "
             "expression's denotation must satisfy the defining predicate of the quantity computed from the vertices; discharged for "
             "all vertex positions by z3 (polynomial normal form / cleared denominators / nlsat with sqrt axioms), cvc5 fallback")
LEVEL_TEXT = ("For every (cell, gdim, facet) case of the finite domain named by the property, each quantity's lowering is proved for "
              "ALL vertex positions of a non-degenerate cell. The run downgrades itself to 'other' if any obligation is undecided.")
LEVEL_NOTE = ("Trusted: reference-cell table and elementary-geometry predicates (ufv/geom.py, this file), ufv/den.py, z3/cvc5. "
              "sqrt is axiomatised by t>=0, t*t=x. Non-affine / non-simplex branches of the lowering are outside the property.")
TRUSTED = ["ufv/geom.py reference-cell data (UFC/basix numbering) and vertex-based definitions", "ufv/den.py",
           "ufv/alg.py exact polynomial normaliser with algebraic atoms", "z3 / cvc5", "continuity argument for strict sign conditions"]
ASSUMPTIONS = ["affine simplex cells interval/triangle/tetrahedron with gdim >= tdim, gdim <= 3 (the property's domain)",
               "non-degenerate cell: det(J^T J) > 0", "CellOrientation is a mesh datum co with co^2 = 1",
               "square roots are algebraic atoms with t >= 0 and t^2 = x (exact polynomial normaliser ufv/alg.py, z3 as fallback)",
               "strict sign conditions (normal points outward / upward) are decided at sample points of each connected component of the "
               "non-degenerate configuration space, using that the quantity is continuous and, given the proved unit/orthogonality/"
               "tangency conditions, cannot vanish there", "real coordinates"]
EXPLANATION = ("Each GeometryLoweringApplier handler is run on the real terminal; den(lowered) is checked against the vertex-based "
               "definition (equalities for Jacobians/inverses/coordinates; characterising predicates r>=0, r^2=... for volumes, "
               "lengths, radii; unit/orthogonal/outward predicates for normals) for all vertex positions.")

CASES = [("interval", 1), ("interval", 2), ("interval", 3), ("triangle", 2), ("triangle", 3), ("tetrahedron", 3)]


def build(run):
    thorough = run.tier == "thorough"
    tmo = 60000 if thorough else 20000
    for nm in ("jacobian", "jacobian_inverse", "jacobian_determinant", "facet_jacobian", "facet_jacobian_inverse",
               "facet_jacobian_determinant", "ridge_jacobian", "ridge_jacobian_inverse", "ridge_jacobian_determinant",
               "spatial_coordinate", "cell_coordinate", "cell_volume", "facet_area", "circumradius", "max_cell_edge_length",
               "min_cell_edge_length", "_reduce_cell_edge_length", "cell_diameter", "max_facet_edge_length", "min_facet_edge_length",
               "_reduce_facet_edge_length", "cell_normal", "facet_normal"):
        run.function(getattr(GeometryLoweringApplier, nm), f"GeometryLoweringApplier.{nm}")
    run.function(apply_geometry_lowering)

    def mk(cm):
        def f(symbolic, valuation):
            w = World(symbolic=symbolic, complex_mode=False, valuation=valuation, gdim=cm.gdim)
            cm.install(w)
            return w
        return f

    def lower(q):
        return apply_geometry_lowering(q)

    def ob(name, cell, g, qcls, spec, facet=None, ridge=None, kind="proof", budget=None):
        tag = f"{name}/{cell}@{g}d" + (f"/facet{facet}" if facet is not None else "") + (f"/ridge{ridge}" if ridge is not None else "")

        def thunk():
            dom = mesh(cell, g)
            cm = CellModel(cell, g, facet=facet, ridge=ridge)
            q = qcls(dom)
            try:
                r = lower(q)
            except ValueError as ex:
                if not deliberate(ex):
                    return violated(f"crash instead of a result or a refusal: {crash_text(ex)}", reproduced=True, backend="exec")
                return proved("refused", sample=f"{tag}: lowering refuses: {ex}")
            if r is q and not isinstance(q, (C.SpatialCoordinate,)):
                return undecided(f"{tag}: quantity was not lowered")
            return spec(cm, mk(cm), q, r, tag)
        run.add(tag, thunk, kind=kind, budget=budget)

    def pre(cm):
        return lambda w: [cm.nondegenerate(w)]

    # ---- specs
    def eq_spec(fn):
        def spec(cm, mkw, q, r, tag):
            return check_same(mkw, r, lambda w, c, env: fn(cm, w, c), q.ufl_shape, timeout_ms=tmo, pre_fn=pre(cm), what=tag)
        return spec

    def component(cm):
        """Connected components of the non-degenerate configuration space: sign(det J) for square J, one component otherwise."""
        if cm.tdim != cm.gdim:
            return lambda cw: 0

        def f(cw):
            d = leibniz_det(lambda a, b: cm.J(cw, a, b), cm.tdim)
            return 1 if d > 0 else -1
        return f

    def co_rel(w):
        if "co[|]" in w.syms:
            import z3
            return [(w.syms["co[|]"], z3.RealVal(1))]
        return []

    def pred_spec(fn):
        def spec(cm, mkw, q, r, tag):
            if tuple(r.ufl_shape) != tuple(q.ufl_shape) or r.ufl_free_indices:
                return violated(f"{tag}: shape {r.ufl_shape}/{r.ufl_free_indices} != {q.ufl_shape}", reproduced=True, backend="structural")
            return check_conds(mkw, lambda w: fn(cm, w, r), what=tag, timeout_ms=tmo, pre_fn=pre(cm),
                               sample_ok=component(cm), extra_rel_fn=co_rel, ncomponents=2 if cm.tdim == cm.gdim else 1)
        return spec

    def G_of(cm, w, cols):
        return cm.gram(w, cols)

    def pinv(cm, w, cols, c):
        """Moore-Penrose left inverse of the gdim x n matrix with given columns: (A^T A)^-1 A^T, entry (c0, c1)."""
        n = len(cols)
        G = cm.gram(w, cols)
        det = leibniz_det(G, n)
        w.require(N.cmp("!=", det, 0))
        tot = 0
        for qq in range(n):
            tot = N.add(tot, N.mul(N.div(_cofactor(G, n, qq, c[0]), det), cols[qq](c[1])))
        return tot

    def jinv(cm, w, c):
        if cm.tdim != cm.gdim:
            return pinv(cm, w, cm.Jcols(w), c)
        M = lambda a, b: cm.J(w, a, b)  # noqa: E731
        det = leibniz_det(M, cm.tdim)
        w.require(N.cmp("!=", det, 0))
        return N.div(_cofactor(M, cm.tdim, c[1], c[0]), det)

    def detJ_pred(cm, w, r):
        v = den(w, r)
        G = cm.gram(w, cm.Jcols(w))
        if cm.tdim == cm.gdim:
            return [("eq", v, leibniz_det(lambda a, b: cm.J(w, a, b), cm.tdim))]
        co = w.symbol("co", real=True)
        return [("eq", N.mul(v, v), leibniz_det(G, cm.tdim)), ("ge0", N.mul(v, co))]

    def vol_pred(cm, w, r):
        v = den(w, r)
        G = cm.gram(w, cm.Jcols(w))
        k = fact(cm.tdim)
        return [("ge0", v), ("eq", N.mul(N.mul(k, v), N.mul(k, v)), leibniz_det(G, cm.tdim))]

    def all_edges(cm):
        return [(a, b) for a in range(cm.nv) for b in range(a + 1, cm.nv)]

    def minmax_pred(op, edges_fn):
        def fn(cm, w, r):
            v = den(w, r)
            l2 = [cm.len2(cm.edge_vec(w, a, b)) for a, b in edges_fn(cm)]
            m = l2[0]
            for x in l2[1:]:
                m = N.ite(N.cmp("<" if op == "min" else ">", x, m), x, m)
            return [("ge0", v), ("eq", N.mul(v, v), m)]
        return fn

    def facet_edges(cm):
        fv = facet_vertices(cm.cellname, cm.facet)
        return [(fv[a], fv[b]) for a, b in REF_EDGES[FACET_CELL[cm.cellname]]]

    def facet_cols(cm, w):
        fv = facet_vertices(cm.cellname, cm.facet)
        return [cm.edge_vec(w, fv[0], fv[j]) for j in range(1, len(fv))]

    def facet_area_pred(cm, w, r):
        v = den(w, r)
        if cm.tdim == 1:
            return [("eq", v, 1)]
        cols = facet_cols(cm, w)
        k = fact(cm.tdim - 1)
        return [("ge0", v), ("eq", N.mul(N.mul(k, v), N.mul(k, v)), leibniz_det(cm.gram(w, cols), len(cols)))]

    def circum_pred(cm, w, r):
        v = den(w, r)
        t = cm.tdim
        cols = cm.Jcols(w)
        G = cm.gram(w, cols)
        b = [G(j, j) for j in range(t)]
        # R^2 = 1/4 b^T G^-1 b  <=>  4 det(G) R^2 = b^T adj(G) b   (circumcentre c = x0 + J y, G y = b/2)
        det = leibniz_det(G, t)
        tot = 0
        for i in range(t):
            for j in range(t):
                tot = N.add(tot, N.mul(N.mul(b[i], _cofactor(G, t, j, i)), b[j]))
        return [("ge0", v), ("eq", N.mul(N.mul(4, det), N.mul(v, v)), tot)]

    def dot(cm, a, b):
        t = 0
        for i in range(cm.gdim):
            t = N.add(t, N.mul(a(i), b(i)))
        return t

    WHY = ("the quantity is a continuous function of the vertices on the non-degenerate configurations and cannot vanish there "
           "given the unit/orthogonality/tangency conditions proved alongside, so its sign is constant on each connected component")

    def facet_normal_pred(cm, w, r):
        n = lambda i: den(w, r, (i,))  # noqa: E731
        fv = facet_vertices(cm.cellname, cm.facet)
        cs = [("eq", dot(cm, n, n), 1)]
        for j in range(1, len(fv)):
            cs.append(("eq", dot(cm, n, cm.edge_vec(w, fv[0], fv[j])), 0))
        # outward: away from the opposite vertex
        cs.append(("sign", dot(cm, n, cm.edge_vec(w, fv[0], cm.facet)), -1, WHY))
        # tangent to the cell (manifolds)
        if cm.gdim == cm.tdim + 1:
            nu = cell_normal_dir(cm, w)
            cs.append(("eq", dot(cm, n, nu), 0))
        elif cm.gdim > cm.tdim + 1:
            tgt = cm.Jcols(w)[0]
            for (a, b) in ((0, 1), (0, 2), (1, 2)):
                cs.append(("eq", N.sub(N.mul(n(a), tgt(b)), N.mul(n(b), tgt(a))), 0))
        return cs

    def cell_normal_dir(cm, w):
        cols = cm.Jcols(w)
        if cm.tdim == 2:
            t0, t1 = cols
            comps = [N.sub(N.mul(t0(1), t1(2)), N.mul(t0(2), t1(1))), N.sub(N.mul(t0(2), t1(0)), N.mul(t0(0), t1(2))),
                     N.sub(N.mul(t0(0), t1(1)), N.mul(t0(1), t1(0)))]
        else:
            t0 = cols[0]
            comps = [N.neg(t0(1)), t0(0)]
        return lambda i: comps[i]

    def cell_normal_pred(cm, w, r):
        n = lambda i: den(w, r, (i,))  # noqa: E731
        co = w.symbol("co", real=True)
        cs = [("eq", dot(cm, n, n), 1)]
        for col in cm.Jcols(w):
            cs.append(("eq", dot(cm, n, col), 0))
        cs.append(("sign", N.mul(co, dot(cm, n, cell_normal_dir(cm, w))), +1, WHY))
        return cs

    # ---- obligations
    for cell, g in CASES:
        t = TDIM[cell]
        ob("jacobian", cell, g, C.Jacobian, eq_spec(lambda cm, w, c: cm.J(w, c[0], c[1])))
        ob("jacobian_determinant", cell, g, C.JacobianDeterminant, pred_spec(detJ_pred))
        ob("jacobian_inverse", cell, g, C.JacobianInverse, eq_spec(lambda cm, w, c: jinv(cm, w, c)))
        ob("spatial_coordinate", cell, g, C.SpatialCoordinate, eq_spec(lambda cm, w, c: cm.x(w, c[0])))
        ob("cell_coordinate", cell, g, C.CellCoordinate, eq_spec(lambda cm, w, c: cm.X(w, c[0])))
        ob("cell_volume", cell, g, C.CellVolume, pred_spec(vol_pred))
        ob("circumradius", cell, g, C.Circumradius, pred_spec(circum_pred), budget=300)
        ob("cell_diameter", cell, g, C.CellDiameter, pred_spec(minmax_pred("max", all_edges)))
        ob("max_cell_edge_length", cell, g, C.MaxCellEdgeLength, pred_spec(minmax_pred("max", all_edges)))
        ob("min_cell_edge_length", cell, g, C.MinCellEdgeLength, pred_spec(minmax_pred("min", all_edges)))
        if g == t + 1:
            ob("cell_normal", cell, g, C.CellNormal, pred_spec(cell_normal_pred))
        for f in range(t + 1):
            ob("facet_area", cell, g, C.FacetArea, pred_spec(facet_area_pred), facet=f)
            ob("facet_normal", cell, g, C.FacetNormal, pred_spec(facet_normal_pred), facet=f)
            if t >= 2:
                ob("facet_jacobian", cell, g, C.FacetJacobian, eq_spec(lambda cm, w, c: facet_cols(cm, w)[c[1]](c[0])), facet=f)
                ob("facet_jacobian_inverse", cell, g, C.FacetJacobianInverse,
                   eq_spec(lambda cm, w, c: pinv(cm, w, facet_cols(cm, w), c)), facet=f)

                def fjd(cm, w, r):
                    v = den(w, r)
                    cols = facet_cols(cm, w)
                    return [("ge0", v), ("eq", N.mul(v, v), leibniz_det(cm.gram(w, cols), len(cols)))]
                ob("facet_jacobian_determinant", cell, g, C.FacetJacobianDeterminant, pred_spec(fjd), facet=f)
            if t == 3:
                ob("max_facet_edge_length", cell, g, C.MaxFacetEdgeLength, pred_spec(minmax_pred("max", facet_edges)), facet=f)
                ob("min_facet_edge_length", cell, g, C.MinFacetEdgeLength, pred_spec(minmax_pred("min", facet_edges)), facet=f)
        if t == 3:
            for rdg in range(6):
                a, b = REF_EDGES[cell][rdg]
                ob("ridge_jacobian", cell, g, C.RidgeJacobian, eq_spec(lambda cm, w, c, a=a, b=b: cm.edge_vec(w, a, b)(c[0])), ridge=rdg)
                ob("ridge_jacobian_inverse", cell, g, C.RidgeJacobianInverse,
                   eq_spec(lambda cm, w, c, a=a, b=b: pinv(cm, w, [cm.edge_vec(w, a, b)], c)), ridge=rdg)

                def rjd(cm, w, r, a=a, b=b):
                    v = den(w, r)
                    return [("ge0", v), ("eq", N.mul(v, v), cm.len2(cm.edge_vec(w, a, b)))]
                ob("ridge_jacobian_determinant", cell, g, C.RidgeJacobianDeterminant, pred_spec(rjd), ridge=rdg)

    def canary():
        cm = CellModel("triangle", 2)
        dom = mesh("triangle", 2)
        r = lower(C.CellVolume(dom))

        def wrong(cm_, w, r_):
            v = den(w, r_)
            G = cm.gram(w, cm.Jcols(w))
            return N.cmp("==", N.mul(v, v), leibniz_det(G, 2))     # forgets the 1/2: must be refuted
        return check_pred(mk(cm), lambda w: wrong(cm, w, r), what="canary", pre_fn=pre(cm))
    run.add("canary/volume-without-reference-volume", canary, kind="canary")
