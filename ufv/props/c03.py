"""C03 — spatial derivatives are lowered to exact derivatives of terminals.

Functions under contract: GradRuleset.process and ReferenceGradRuleset.process registries, grad_to_reference_grad, the
Grad/ReferenceGrad handlers of DerivativeRuleDispatcher, the differential handlers of LowerCompoundAlgebra (div, nabla_div,
nabla_grad, curl — their value contract is C06's), Expr.dx, apply_derivatives.

Contract: den(result)[..., k] == d/dx_k den(f)[...] (dual numbers), same free indices; terminals: form arguments get a
Grad wrapper (symbol f,k), cellwise constants 0; geometric quantities consistently with the affine cell map x = x0 + J X
(grad x = I, grad X = K, grad(rv f) = K^T rgrad(rv f)).  Structural postcondition: in the expanded expression every Grad /
ReferenceGrad wraps a terminal or a chain of grads of a terminal.
"""
from __future__ import annotations

import itertools

import ufl
import ufl.classes as C
from ufl import (as_vector, conditional, curl, div, dot, dx, exp, grad, inner, lt, nabla_div, nabla_grad, sin, sqrt, variable)
from ufl.algorithms.apply_algebra_lowering import apply_algebra_lowering
from ufl.algorithms.apply_derivatives import (DerivativeRuleDispatcher, GenericDerivativeRuleset, GradRuleset, ReferenceGradRuleset,
                                              apply_derivatives, grad_to_reference_grad)
from ufl.core.multiindex import Index
from ufl.corealg.traversal import unique_pre_traversal

from ufv import elements as E
from ufv import num as N
from ufv.core import crash_text, deliberate, proved, undecided, violated
from ufv.den import SpatialLayer, World, _cofactor, den, leibniz_det
from ufv.drv import handler_for, registry_of, rule_case
from ufv.nodes import templates
from ufv.opq import mesh
from ufv.semv import check_same
from ufv.terms import atoms_hook, atoms_world

LEVEL = "other"
TECHNIQUE = ("contract VCs on the real GradRuleset / ReferenceGradRuleset rules (opaque operands, induction-hypothesis stand-ins) against "
             "dual-number spatial derivatives; terminal rules on a symbolic affine cell (x = x0 + J X, K := pinv J); whole "
             "apply_derivatives pipeline on nested grad/div/curl expressions; structural postcondition by traversal")
LEVEL_TEXT = ("All-values proofs per (rule, operand pattern) and per terminal class on affine simplex cells; nestings checked on a "
              "finite corpus (to depth 3) — the induction lemma carries the local rules to arbitrary nesting.")
LEVEL_NOTE = "Trusted: ufv/num.py dual numbers, ufv/den.py, affine cell model (J symbolic, K its pseudo-inverse), z3. Shapes enumerated."
TRUSTED = ["ufv/num.py, ufv/den.py", "affine cell model: x = x0 + J X, K = (J^T J)^-1 J^T", "z3, ufv/alg.py"]
ASSUMPTIONS = ["affine simplex cells (triangle 2D; triangle in 3D for non-coordinate terminals)", "operand shapes per ufv/nodes.py",
               "smooth points (same side conditions as C02)", "finite nesting corpus"]
EXPLANATION = ("Local soundness of every spatial-derivative rule for all operand values; terminal rules against the affine cell map; "
               "end-to-end expansion of nested differential operators compared with dual-number derivatives; derivatives end up on terminals only.")


def geo_world(tdim, gdim, x_via_X=True):
    def Jv(w, i, j):
        return w.base_symbol(("J", (i, j), (), ()))

    def Kv(w, j, i):
        """K[j, i] as a base-level value (constant w.r.t. every layer)"""
        if tdim == gdim:
            M = lambda a, b: Jv(w, a, b)  # noqa: E731
            det = leibniz_det(M, tdim)
            w.require(N.cmp("!=", det, 0))
            return N.div(_cofactor(M, tdim, i, j), det)
        G = lambda r, c: _sum(gdim, lambda q: N.mul(Jv(w, q, r), Jv(w, q, c)))  # noqa: E731
        det = leibniz_det(G, tdim)
        w.require(N.cmp("!=", det, 0))
        return _sum(tdim, lambda q: N.mul(N.div(_cofactor(G, tdim, q, j), det), Jv(w, i, q)))

    def hook(w, e, comp, env):
        if isinstance(e, C.Jacobian):
            return Jv(w, comp[0], comp[1])
        if isinstance(e, C.JacobianInverse):
            return Kv(w, comp[0], comp[1])
        if isinstance(e, C.SpatialCoordinate):
            v = w.symbol("x0", (comp[0],), real=True)
            for j in range(tdim):
                v = N.add(v, N.mul(Jv(w, comp[0], j), w.symbol("X", (j,), real=True)))
            return v
        if isinstance(e, C.CellCoordinate):
            return w.symbol("X", (comp[0],), real=True)
        if isinstance(e, C.ReferenceValue):
            f = e.ufl_operands[0]
            return w.symbol(f"rv{f.count() if hasattr(f, 'count') else id(f)}", comp)
        if isinstance(e, C.GeometricQuantity):
            if e.is_cellwise_constant():
                return w.symbol(f"geo_{type(e).__name__}", comp, real=True)
            return NotImplemented
        return atoms_hook(w, e, comp, env)

    def mk(symbolic, valuation):
        w = World(symbolic=symbolic, complex_mode=False, valuation=valuation)
        w.terminal_hook = hook
        w.spatial_const |= {"x0", "J"} | {f"geo_{n}" for n in ("Jacobian", "JacobianInverse", "JacobianDeterminant", "FacetNormal", "CellVolume",
                                                             "Circumradius", "CellOrientation", "FacetArea", "CellNormal")}
        if x_via_X:
            w.x_via_X = (tdim, Kv)
        return w
    return mk


def _sum(n, f):
    tot = 0
    for k in range(n):
        tot = N.add(tot, f(k))
    return tot


def build(run):
    thorough = run.tier == "thorough"
    tmo = 20000
    tri = mesh("triangle")
    tri3 = mesh("triangle", 3)
    for cls in (GradRuleset, ReferenceGradRuleset):
        for T, fn in registry_of(cls).items():
            run.functions[f"{cls.__name__}.process[{getattr(T, '__name__', T)}]"] = "registered"
    run.function(grad_to_reference_grad)
    run.function(apply_derivatives)

    # ---- (a),(b) operator rules through the templates
    for rsname, mkrs, kind, V in [("GradRuleset", lambda: GradRuleset(2), "x", (2,)), ("ReferenceGradRuleset", lambda: ReferenceGradRuleset(2), "X", (2,))]:
        for t in templates():
            if t.name in ("CellAvg", "FacetAvg") or issubclass(t.cls, (C.CompoundTensorOperator, C.CompoundDerivative)):
                continue
            k = len(t.specs)
            for kinds in itertools.product(("opq", "zero"), repeat=k):
                if k > 2 and not thorough and kinds.count("opq") not in (0, 1, k):
                    continue
                tag = f"{rsname}/{t.name}/" + ",".join(kinds)

                def thunk(t=t, kinds=kinds, tag=tag, mkrs=mkrs, kind=kind, V=V):
                    return rule_case(mkrs, t, kinds, V, lambda seeds, vc: SpatialLayer(vc[0], seeds, kind), dom=tri, tmo=tmo, tag=tag)
                run.add(tag, thunk, kind="values")

    # ---- (a') complex mode: conj / real / imag commute with differentiation w.r.t. the (real) coordinates
    from ufv.semv import complex_world
    for rsname, mkrs, kind, V in [("GradRuleset", lambda: GradRuleset(2), "x", (2,)), ("ReferenceGradRuleset", lambda: ReferenceGradRuleset(2), "X", (2,))]:
        for t in templates():
            if t.cls not in (C.Conj, C.Real, C.Imag, C.Sum, C.Product, C.Division):
                continue
            k = len(t.specs)
            kinds = ("opq",) * k
            tag = f"{rsname}/{t.name}/" + ",".join(kinds) + "/complex-mode"

            def thunk_c(t=t, kinds=kinds, tag=tag, mkrs=mkrs, kind=kind, V=V):
                return rule_case(mkrs, t, kinds, V, lambda seeds, vc: SpatialLayer(vc[0], seeds, kind), dom=tri, tmo=tmo, tag=tag, mkworld=complex_world())
            run.add(tag, thunk_c, kind="values")

    # ---- (c) terminal rules on the affine cell
    def terminal_case(name, msh, mk_o, rs_factory, kind, needs_square=False):
        t = msh.ufl_cell().topological_dimension
        g = msh.geometric_dimension
        tag = f"terminal/{name}/{msh.ufl_cell().cellname}@{g}d"

        def thunk():
            o = mk_o(msh)
            rs = rs_factory(msh)
            try:
                r = rs(o)
            except (ValueError, NotImplementedError, RuntimeError) as ex:
                if not deliberate(ex):
                    return violated(f"crash instead of a result or a refusal: {crash_text(ex)}", reproduced=True, backend="exec")
                return proved("refused", sample=f"{tag}: refuses: {ex}"[:200])
            rank = len(o.ufl_shape)
            n = g if kind == "x" else t

            def spec(w, c, env):
                return w.derive(SpatialLayer(c[rank], {}, kind), lambda w2: den(w2, o, c[:rank], env))
            return check_same(geo_world(t, g), r, spec, o.ufl_shape + (n,), timeout_ms=tmo, what=tag)
        run.add(tag, thunk, kind="values")

    def spaces(msh):
        cell = msh.ufl_cell()
        g = msh.geometric_dimension
        return (ufl.FunctionSpace(msh, E.LagrangeElement(cell, 2)), ufl.FunctionSpace(msh, E.LagrangeElement(cell, 2, (g,))),
                ufl.FunctionSpace(msh, E.FiniteElement("DG", cell, 0, (), ufl.pullback.identity_pullback, ufl.sobolevspace.L2)))
    GR = lambda msh: GradRuleset(msh.geometric_dimension)  # noqa: E731
    RG = lambda msh: ReferenceGradRuleset(msh.ufl_cell().topological_dimension)  # noqa: E731
    for msh in (tri, tri3):
        terminal_case("SpatialCoordinate", msh, lambda m: C.SpatialCoordinate(m), GR, "x")
        terminal_case("CellCoordinate", msh, lambda m: C.CellCoordinate(m), GR, "x")
        terminal_case("Jacobian(cellwise const)", msh, lambda m: C.Jacobian(m), GR, "x")
        terminal_case("JacobianInverse(cellwise const)", msh, lambda m: C.JacobianInverse(m), GR, "x")
        terminal_case("FacetNormal(cellwise const)", msh, lambda m: C.FacetNormal(m), GR, "x")
        terminal_case("Coefficient", msh, lambda m: ufl.Coefficient(spaces(m)[0]), GR, "x")
        terminal_case("Coefficient[vec]", msh, lambda m: ufl.Coefficient(spaces(m)[1]), GR, "x")
        terminal_case("Coefficient[DG0]", msh, lambda m: ufl.Coefficient(spaces(m)[2]), GR, "x")
        # elements that contain P0 without being P0 (sub-degree 0 < super-degree): not constant in space
        terminal_case("Coefficient[sub-degree 0, vector]", msh, lambda m: ufl.Coefficient(ufl.FunctionSpace(m, E.FiniteElement(
            "N1curl", m.ufl_cell(), 1, (m.geometric_dimension,), ufl.pullback.identity_pullback, ufl.sobolevspace.HCurl, subdegree=0))), GR, "x")
        terminal_case("Coefficient[sub-degree 0, scalar]", msh, lambda m: ufl.Coefficient(ufl.FunctionSpace(m, E.FiniteElement(
            "P0+bubble", m.ufl_cell(), 3, (), ufl.pullback.identity_pullback, ufl.sobolevspace.L2, subdegree=0))), GR, "x")
        terminal_case("Argument", msh, lambda m: ufl.TestFunction(spaces(m)[1]), GR, "x")
        terminal_case("Constant", msh, lambda m: ufl.Constant(m), GR, "x")
        terminal_case("Grad(f)", msh, lambda m: C.Grad(ufl.Coefficient(spaces(m)[0])), GR, "x")
        terminal_case("Grad(Grad(u))", msh, lambda m: C.Grad(C.Grad(ufl.Coefficient(spaces(m)[1]))), GR, "x")
        terminal_case("ReferenceValue(f)", msh, lambda m: C.ReferenceValue(ufl.Coefficient(spaces(m)[0])), GR, "x")
        terminal_case("ReferenceValue(u)", msh, lambda m: C.ReferenceValue(ufl.Coefficient(spaces(m)[1])), GR, "x")
        terminal_case("ReferenceGrad(rv f)", msh, lambda m: C.ReferenceGrad(C.ReferenceValue(ufl.Coefficient(spaces(m)[0]))), GR, "x")
        terminal_case("ReferenceGrad(x) = J", msh, lambda m: C.ReferenceGrad(C.SpatialCoordinate(m)), GR, "x")
        # reference gradient rules
        terminal_case("rgrad SpatialCoordinate", msh, lambda m: C.SpatialCoordinate(m), RG, "X")
        terminal_case("rgrad CellCoordinate", msh, lambda m: C.CellCoordinate(m), RG, "X")
        terminal_case("rgrad ReferenceValue(u)", msh, lambda m: C.ReferenceValue(ufl.Coefficient(spaces(m)[1])), RG, "X")
        terminal_case("rgrad ReferenceGrad(rv f)", msh, lambda m: C.ReferenceGrad(C.ReferenceValue(ufl.Coefficient(spaces(m)[0]))), RG, "X")
        terminal_case("rgrad Jacobian", msh, lambda m: C.Jacobian(m), RG, "X")
        terminal_case("rgrad Coefficient (refused)", msh, lambda m: ufl.Coefficient(spaces(m)[0]), RG, "X")

    # ---- (d),(e) nested operators, whole pipeline
    S, Vs, _ = spaces(tri)
    Ts = ufl.FunctionSpace(tri, E.LagrangeElement(tri.ufl_cell(), 2, (2, 2)))
    S3, V3, _ = spaces(mesh("tetrahedron"))
    f, g_ = ufl.Coefficient(S), ufl.Coefficient(S)
    u, v = ufl.Coefficient(Vs), ufl.Coefficient(Vs)
    A = ufl.Coefficient(Ts)
    u3 = ufl.Coefficient(V3)
    f3 = ufl.Coefficient(S3)
    x = ufl.SpatialCoordinate(tri)
    i, j = Index(), Index()
    nest = [
        ("grad(f*g)", lambda: grad(f * g_)), ("grad(grad(f*f))", lambda: grad(grad(f * f))), ("div(f*u)", lambda: div(f * u)),
        ("div(grad(f))", lambda: div(grad(f))), ("grad(div(u))", lambda: grad(div(u))), ("curl(u) 2d", lambda: curl(u)),
        ("curl(f) 2d scalar", lambda: curl(f)), ("curl(curl(u3))", lambda: curl(curl(u3))), ("curl(f3*u3)", lambda: curl(f3 * u3)),
        ("div(curl(u3))", lambda: div(curl(u3))), ("nabla_grad(u)", lambda: nabla_grad(u)), ("nabla_grad(f*u)", lambda: nabla_grad(f * u)),
        ("nabla_div(A)", lambda: nabla_div(A)), ("div(A)", lambda: div(A)), ("nabla_div(outer-like)", lambda: nabla_div(ufl.outer(u, v))),
        ("grad(u)[i,j]*grad(v)[j,i]", lambda: grad(u)[i, j] * grad(v)[j, i]), ("(f*g).dx(0)", lambda: (f * g_).dx(0)),
        ("u[i].dx(i)", lambda: u[i].dx(i)), ("(u[i]*v[i]).dx(j) (free j)", lambda: (u[i] * v[i]).dx(j)), ("f.dx(0,1)", lambda: f.dx(0, 1)),
        ("grad(sqrt(1+f*f))", lambda: grad(sqrt(1 + f * f))), ("grad(sin(f)*exp(g))", lambda: grad(sin(f) * exp(g_))),
        ("grad(conditional)", lambda: grad(conditional(lt(f, g_), f * f, g_))), ("grad(x[0]*f)", lambda: grad(x[0] * f)),
        ("grad(f/(1+g*g))", lambda: grad(f / (1 + g_ * g_))), ("div(grad(f)*f)", lambda: div(grad(f) * f)), ("grad(variable)", lambda: grad(variable(f * g_) * f)),
        ("grad(as_vector)", lambda: grad(as_vector([f * f, u[0] * f]))), ("grad(inner(u,u))", lambda: grad(inner(u, u))),
        ("grad(dot(A,u))", lambda: grad(dot(A, u))), ("grad(grad(grad(f)))", lambda: grad(grad(grad(f)))), ("grad(abs(f))", lambda: grad(abs(f))),
        ("grad(f**3)", lambda: grad(f ** 3)), ("grad(f**g)", lambda: grad((1 + f * f) ** g_)),
    ]

    # one expansion pass over meshes of different geometric dimension (the rulesets are parametrised by gdim: a dispatcher must not
    # reuse the ruleset of the first Grad it meets)
    tet = S3.ufl_domain()
    x3 = ufl.SpatialCoordinate(tet)
    c2, c3 = ufl.Constant(tri), ufl.Constant(tet)
    nest += [
        ("two gdims: div(x2)*div(x3)", lambda: div(x) * div(x3)), ("two gdims: div(x3)*div(x2)", lambda: div(x3) * div(x)),
        ("two gdims: f*div(x2) + f3*div(x3)", lambda: f * div(x) + f3 * div(x3)), ("two gdims: grad(x3)[2,2] + grad(x2)[1,1]", lambda: grad(x3)[2, 2] + grad(x)[1, 1]),
        ("two gdims: grad(c3*x3)[i,i] * grad(c2*f)[0]", lambda: grad(c3 * x3)[i, i] * grad(c2 * f)[0]),
        ("two gdims: div(u)*div(u3)", lambda: div(u) * div(u3)), ("two gdims: div(f3*u3) + div(f*x2)", lambda: div(f3 * u3) + div(f * x)),
    ]

    w_sub0 = ufl.Coefficient(ufl.FunctionSpace(tri, E.FiniteElement("RT-like", tri.ufl_cell(), 1, (2,), ufl.pullback.identity_pullback, ufl.sobolevspace.HDiv, subdegree=0)))
    nest += [("sub-degree 0 element: div(w)", lambda: div(w_sub0)), ("sub-degree 0 element: grad(w)[0,1]*f", lambda: grad(w_sub0)[0, 1] * f),
             ("sub-degree 0 element: curl(w)", lambda: curl(w_sub0)), ("sub-degree 0 element: (w[0]*w[1]).dx(0)", lambda: (w_sub0[0] * w_sub0[1]).dx(0))]

    def pipe(name, mk):
        def thunk():
            e = mk()
            try:
                r = apply_derivatives(apply_algebra_lowering(e))
            except (ValueError, NotImplementedError, RuntimeError) as ex:
                if not deliberate(ex):
                    return violated(f"crash instead of a result or a refusal: {crash_text(ex)}", reproduced=True, backend="exec")
                return proved("refused", sample=f"{name}: refuses {ex}"[:200])
            except Exception as ex:  # noqa: BLE001
                return violated(f"{name}: expansion crashed: {type(ex).__name__}: {ex}", reproduced=True, replay={"expr": str(e)})
            for node in unique_pre_traversal(r):
                if isinstance(node, (C.Grad, C.ReferenceGrad)):
                    op = node.ufl_operands[0]
                    if not isinstance(op, (C.Terminal, C.Grad, C.ReferenceGrad, C.ReferenceValue)):
                        return violated(f"{name}: after expansion a derivative still wraps a non-terminal {type(op).__name__}",
                                        replay={"expr": str(e), "result": str(r)[:1500]}, reproduced=True, backend="structural")
                elif isinstance(node, C.Derivative):
                    return violated(f"{name}: unexpanded derivative node {type(node).__name__} remains", reproduced=True,
                                    replay={"expr": str(e), "result": str(r)[:1500]}, backend="structural")
            return check_same(atoms_world(), r, lambda w, c, env: den(w, e, c, env), e.ufl_shape, e.ufl_free_indices, e.ufl_index_dimensions,
                              timeout_ms=tmo, what=name)
        run.add(f"pipeline/{name}", thunk, kind="values")
    for nm_, mk_ in nest:
        pipe(nm_, mk_)

    # ---- shapes: the derivative operators have the textbook shapes whatever the operand (in particular for cellwise-constant operands, which the
    # constructors fold to zero before any rule runs), and the expansion keeps that shape
    def shapes():
        from ufl.sobolevspace import L2 as _L2
        spec = {"grad": lambda sh, gd: sh + (gd,), "nabla_grad": lambda sh, gd: (gd,) + sh, "div": lambda sh, gd: sh[:-1], "nabla_div": lambda sh, gd: sh[1:],
                "dx0": lambda sh, gd: sh}
        ops = {"grad": grad, "nabla_grad": ufl.nabla_grad, "div": div, "nabla_div": ufl.nabla_div, "dx0": lambda e_: e_.dx(0)}
        n = 0
        for msh, gd in ((tri, 2), (tet, 3)):
            cell_ = msh.ufl_cell()
            for sh in ((), (2,), (3,), (4,), (2, 2), (2, 3), (3, 2), (3, 3), (4, 2), (2, 3, 2)):
                operands = {"Constant": ufl.Constant(msh, sh),
                            "DG0 coefficient": ufl.Coefficient(ufl.FunctionSpace(msh, E.FiniteElement("DG", cell_, 0, sh, ufl.pullback.identity_pullback, _L2))),
                            "2*Constant + DG0": None, "P2 coefficient": ufl.Coefficient(ufl.FunctionSpace(msh, E.LagrangeElement(cell_, 2, sh)))}
                operands["2*Constant + DG0"] = 2 * operands["Constant"] + operands["DG0 coefficient"]
                for oname, op in ops.items():
                    if oname == "div" and (not sh or sh[-1] != gd):
                        continue
                    if oname == "nabla_div" and (not sh or sh[0] != gd):
                        continue
                    want = spec[oname](sh, gd)
                    for kind, fo in operands.items():
                        try:
                            e = op(fo)
                            r = apply_derivatives(apply_algebra_lowering(e))
                        except (ValueError, NotImplementedError) as ex:
                            if not deliberate(ex):
                                return violated(f"crash instead of a result or a refusal: {crash_text(ex)}", reproduced=True, backend="exec")
                            continue
                        n += 1
                        for what, x_ in (("the constructed expression", e), ("its expansion", r)):
                            if tuple(x_.ufl_shape) != tuple(want):
                                return violated(f"{oname}({kind} of shape {sh}) on a mesh of geometric dimension {gd}: {what} has shape {x_.ufl_shape}, the operator's shape is {want}",
                                                replay={"operator": oname, "operand": kind, "operand_shape": list(sh), "gdim": gd, "got": list(x_.ufl_shape), "want": list(want)},
                                                reproduced=True, backend="structural")
                        if kind != "P2 coefficient" and not isinstance(r, C.Zero):
                            res = check_same(atoms_world(), r, lambda w, c, env: 0, want, timeout_ms=tmo, what=f"{oname}({kind} {sh}) vanishes")
                            if res.status != "proved":
                                return res
        return proved("exec+structural", vcs=n, sample=f"{n} (operator, operand kind, shape, gdim) cases: textbook shapes before and after expansion; derivatives of cellwise constants vanish")
    run.add("constructor/derivative-operator-shapes(incl. cellwise-constant operands)", shapes, kind="values")

    # ---- every spelling of a partial derivative: x.dx(i, j), x.dx((i, j)), Dx(x, i, j), Dx(x, (i, j)) with fixed and free indices denote d_i d_j x (one gradient
    # per index, taken on the LAST axes), with the shape of x; compared with the components of grad(grad(x)) written out here
    def dx_spellings():
        from ufl import Dx, as_tensor
        ii, jj, kk = Index(), Index(), Index()
        P2 = lambda sh: ufl.Coefficient(ufl.FunctionSpace(tri, E.LagrangeElement(tri.ufl_cell(), 3, sh)))     # noqa: E731
        n = 0
        for sh in ((), (2,), (2, 2)):
            x_ = P2(sh)
            lead = (slice(None),) * len(sh)
            idx_sets = [(0,), (1,), (0, 1), (1, 0), (1, 1), (0, 1, 1), (ii,), (ii, jj), (ii, ii), (0, ii), (ii, 1), (ii, jj, kk), (ii, jj, jj)]
            for idx in idx_sets:
                nested = x_
                for _ in idx:
                    nested = grad(nested)
                want = nested[lead + tuple(idx)] if sh else nested[tuple(idx)]
                spellings = {"x.dx(*idx)": lambda: x_.dx(*idx), "x.dx(idx as a tuple)": lambda: x_.dx(tuple(idx)), "Dx(x, *idx)": lambda: Dx(x_, *idx), "Dx(x, idx as a tuple)": lambda: Dx(x_, tuple(idx))}
                for sname, mk in spellings.items():
                    try:
                        e = mk()
                    except (ValueError, IndexError, TypeError) as ex:
                        return violated(f"{sname} with idx = {tuple(map(str, idx))} on a field of shape {sh} cannot be built: {crash_text(ex)}",
                                        replay={"spelling": sname, "indices": [str(i_) for i_ in idx], "shape": list(sh)}, reproduced=True, backend="exec")
                    n += 1
                    if tuple(e.ufl_shape) != tuple(want.ufl_shape) or tuple(e.ufl_free_indices) != tuple(want.ufl_free_indices):
                        return violated(f"{sname} with idx = {tuple(map(str, idx))} on a field of shape {sh} has shape {e.ufl_shape} and free indices {e.ufl_free_indices}; "
                                        f"the partial derivative has shape {want.ufl_shape} and free indices {want.ufl_free_indices} (expression: {e})",
                                        replay={"spelling": sname, "indices": [str(i_) for i_ in idx], "shape": list(sh), "expr": str(e)}, reproduced=True, backend="structural")
                    r = apply_derivatives(apply_algebra_lowering(e))
                    res = check_same(atoms_world(), r, lambda w, c, env, want=want: den(w, want, c, env), want.ufl_shape, want.ufl_free_indices, want.ufl_index_dimensions,
                                     timeout_ms=tmo, what=f"{sname} idx={tuple(map(str, idx))} shape={sh}")
                    if res.status != "proved":
                        return res
        return proved("exec+normaliser", vcs=n, sample=f"{n} (spelling, index tuple, field shape) cases: shape, free indices and value of the partial derivative")
    run.add("operator/dx-and-Dx-spellings", dx_spellings, kind="values")

    # ---- which geometric quantities may be treated as constant on a cell: the Jacobian (and what derives from it) is constant exactly on AFFINE cells, i.e. on
    # simplices with a degree-1 coordinate field; on quadrilaterals, hexahedra, prisms, pyramids and products of two or more cells the map is multilinear and the
    # spatial derivative of detJ, J, K must not be folded to zero
    def affine_cells_only():
        from ufl import TensorProductCell as TP
        import ufl.cell as UC
        cells = {"interval": (ufl.interval, True), "triangle": (ufl.triangle, True), "tetrahedron": (ufl.tetrahedron, True), "quadrilateral": (ufl.quadrilateral, False),
                 "hexahedron": (ufl.hexahedron, False), "prism": (UC.Cell("prism"), False), "pyramid": (UC.Cell("pyramid"), False),
                 "TP(interval, interval)": (TP(ufl.interval, ufl.interval), False), "TP(triangle, interval)": (TP(ufl.triangle, ufl.interval), False),
                 "TP(interval, interval, interval)": (TP(ufl.interval, ufl.interval, ufl.interval), False), "TP(triangle)": (TP(ufl.triangle), True), "TP(interval)": (TP(ufl.interval), True)}
        n = 0
        for cname, (cell_, affine) in cells.items():
            gdim = cell_.topological_dimension
            try:
                msh_ = ufl.Mesh(E.LagrangeElement(cell_, 1, (gdim,)))
            except Exception:  # noqa: BLE001
                continue
            n += 1
            if bool(cell_.is_simplex) != affine:
                return violated(f"{cname}.is_simplex is {cell_.is_simplex}; the cell is {'a' if affine else 'not a'} simplex", replay={"cell": cname}, reproduced=True, backend="exec")
            for Q in (C.Jacobian, C.JacobianDeterminant, C.JacobianInverse):
                q = Q(msh_)
                n += 1
                if bool(q.is_cellwise_constant()) != affine:
                    return violated(f"{Q.__name__} on a degree-1 mesh of {cname} cells reports is_cellwise_constant() = {q.is_cellwise_constant()}; the cell map is "
                                    f"{'affine' if affine else 'multilinear, not affine'}", replay={"cell": cname, "quantity": Q.__name__}, reproduced=True, backend="exec")
                if not affine:
                    comp = q if not q.ufl_shape else q[(0,) * len(q.ufl_shape)]
                    try:
                        r = apply_derivatives(apply_algebra_lowering(grad(comp)))
                    except (ValueError, NotImplementedError):
                        continue
                    n += 1
                    if isinstance(r, C.Zero):
                        return violated(f"grad({Q.__name__}[0..]) on a degree-1 mesh of {cname} cells is folded to zero although the cell map is not affine",
                                        replay={"cell": cname, "quantity": Q.__name__}, reproduced=True, backend="exec")
        return proved("exec(finite)", vcs=n, sample=f"{n} (cell kind, quantity) facts: cellwise constant exactly on affine simplex cells; derivatives not folded to zero elsewhere")
    run.add("geometry/jacobian-is-cellwise-constant-on-affine-cells-only", affine_cells_only, kind="values")

    def canary():
        e = grad(f * g_)
        r = apply_derivatives(e)
        return check_same(atoms_world(), r, lambda w, c, env: N.mul(den(w, f), den(w, grad(g_), c, env)), (2,), what="canary: drops a product-rule term")
    run.add("canary/half-product-rule", canary, kind="canary")
