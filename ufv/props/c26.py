"""C26 — reference cell topology is internally consistent.

Functions under contract: the `_sub_entity_celltypes` table, Cell.* accessors, TensorProductCell.*,
AbstractCell.__lt__ and the facet/ridge/peak helpers, simplex(), hypercube(), as_cell().
The domain (10 named cells, tensor-product cells of total dimension <= 3) is finite and enumerated
exhaustively on the real code; the Euler identities are additionally discharged by z3 over the integers
returned by the real accessors.
"""
from __future__ import annotations

import itertools

import z3

import ufl.cell as UC

from ufv.core import proved, undecided, violated

LEVEL = "proof"
TECHNIQUE = ("postconditions of the cell accessors (Euler characteristic, sub-entity dimension/recursion, facet/ridge/peak "
             "definitions, strict total order) evaluated on the real code over the complete finite domain; Euler sums discharged by z3")
LEVEL_TEXT = ("The property quantifies over a finite set (all named cells; tensor-product cells up to dimension 3), which is "
              "enumerated completely against the real accessors; every law of the statement is an obligation. Complete for that domain.")
LEVEL_NOTE = ("Trusted: CPython and z3 (linear integer arithmetic over concrete counts). TensorProductCell refuses "
              "(NotImplementedError) intermediate dimensions; those are accepted as refusals and the Euler law is only required where "
              "all counts are available (tdim <= 2).")
TRUSTED = ["CPython evaluating the real accessors", "z3 (integer arithmetic on the returned counts)"]
ASSUMPTIONS = ["tensor-product cells: all products of 1-3 named factors with total dimension <= 3",
               "TensorProductCell.num_sub_entities/sub_entities raising NotImplementedError for intermediate dimensions is a refusal",
               "the 'diamond' identity (every ridge lies in exactly two facets: sum over facets of their facet counts = 2 * ridges) is "
               "used as part of 'sub-entity counts are consistent'"]
EXPLANATION = ("Finite domain enumerated exhaustively on the real code: Euler characteristic sum_d (-1)^d n_d = 1 for every named cell "
               "and recursively for every sub-entity, sub-entities of dimension d are cells of dimension d, counts agree with the "
               "entity tuples and type sets, facets/ridges/peaks are the entities of dimension tdim-1/-2/-3, '<' is a strict total "
               "order consistent with ==.")


def named_cells():
    return [UC.Cell(n) for n in UC._sub_entity_celltypes]


def tp_cells():
    base = [n for n in UC._sub_entity_celltypes]
    out = []
    for k in (1, 2, 3):
        for combo in itertools.product(base, repeat=k):
            cells = [UC.Cell(n) for n in combo]
            if sum(c.topological_dimension for c in cells) <= 3:
                out.append(UC.TensorProductCell(*cells))
    return out


def build(run):
    for f in (UC.Cell.__init__, UC.Cell.num_sub_entities, UC.Cell.sub_entities, UC.Cell.sub_entity_types, UC.Cell._lt,
              UC.AbstractCell.__lt__, UC.TensorProductCell.__init__, UC.TensorProductCell.num_sub_entities,
              UC.TensorProductCell.sub_entities, UC.TensorProductCell.sub_entity_types, UC.TensorProductCell._lt,
              UC.simplex, UC.hypercube, UC.as_cell):
        run.function(f)
    for pname in ("num_facets", "num_ridges", "num_peaks", "facets", "ridges", "peaks", "num_vertices", "num_edges",
                  "num_faces", "facet_types", "ridge_types", "peak_types"):
        run.function(getattr(UC.AbstractCell, pname).fget, f"ufl.cell.AbstractCell.{pname}")
    run.functions["ufl.cell._sub_entity_celltypes(table)"] = str(hash(repr(UC._sub_entity_celltypes)))

    def euler(c, path):
        """z3-discharged Euler identity on the counts the real accessor returns."""
        tdim = c.topological_dimension
        counts = [c.num_sub_entities(d) for d in range(tdim + 1)]
        s = z3.Solver()
        ns = [z3.Int(f"n{d}") for d in range(tdim + 1)]
        s.add(*[n == v for n, v in zip(ns, counts)])
        s.add(z3.Sum([(-1) ** d * ns[d] for d in range(tdim + 1)]) != 1)
        if s.check() != z3.unsat:
            return f"Euler characteristic of {path} is {sum((-1) ** d * n for d, n in enumerate(counts))} != 1 (counts {counts})"
        return None

    for c in named_cells():
        name = c.cellname

        def cell_thunk(name=name):
            c = UC.Cell(name)
            tdim = c.topological_dimension
            n = 0

            def rec(x, path, depth):
                nonlocal n
                t = x.topological_dimension
                bad = euler(x, path)
                n += 1
                if bad:
                    return bad
                if x.num_sub_entities(t) != 1 or x.num_sub_entities(t + 1) != 0 or x.num_sub_entities(-1) != 0:
                    return f"{path}: the cell itself must be its only entity of dimension tdim"
                for d in range(t + 1):
                    ents = x.sub_entities(d)
                    n += 1
                    if len(ents) != x.num_sub_entities(d):
                        return f"{path}: num_sub_entities({d})={x.num_sub_entities(d)} but {len(ents)} sub_entities"
                    if d == 0 and x.num_sub_entities(0) < 1:
                        return f"{path}: no vertices"
                    for e in ents:
                        if e.topological_dimension != d:
                            return f"{path}: sub-entity {e} of dimension {d} has topological dimension {e.topological_dimension}"
                    types = x.sub_entity_types(d)
                    if set(map(str, types)) != set(map(str, ents)) or len(types) != len(set(map(str, types))):
                        return f"{path}: sub_entity_types({d})={types} inconsistent with sub_entities {ents}"
                    if d < t and depth < 5:
                        for e in ents:
                            b = rec(e, f"{path}>{e}", depth + 1)
                            if b:
                                return b
                # facets / ridges / peaks
                for k, (num, ents, types) in enumerate([(x.num_facets, x.facets, x.facet_types), (x.num_ridges, x.ridges, x.ridge_types),
                                                        (x.num_peaks, x.peaks, x.peak_types)], start=1):
                    n += 1
                    if num != x.num_sub_entities(t - k) or tuple(map(str, ents)) != tuple(map(str, x.sub_entities(t - k))) \
                            or set(map(str, types)) != set(map(str, x.sub_entity_types(t - k))):
                        return f"{path}: entities of codimension {k} are not those of dimension tdim-{k}"
                    if len(ents) != num or any(e.topological_dimension != t - k for e in ents) or len(set(map(str, types))) != len(types) \
                            or any(ty.topological_dimension != t - k for ty in types):
                        return (f"{path}: codimension-{k} entities {tuple(map(str, ents))} / types {tuple(map(str, types))} disagree with the count {num} "
                                f"or are not of dimension {t - k}")
                    if t - k < 0 and (num != 0 or tuple(ents) != () or tuple(types) != ()):
                        return f"{path}: there are no entities of dimension {t - k}, but codimension {k} reports {num} / {tuple(map(str, ents))}"
                # dimensions outside 0..tdim have no entities
                for d in (-3, -2, -1, t + 1, t + 2):
                    n += 1
                    if x.num_sub_entities(d) != 0 or tuple(x.sub_entities(d)) != () or tuple(x.sub_entity_types(d)) != ():
                        return (f"{path}: dimension {d} is outside 0..{t} but num_sub_entities={x.num_sub_entities(d)}, sub_entities={tuple(map(str, x.sub_entities(d)))}, "
                                f"sub_entity_types={tuple(map(str, x.sub_entity_types(d)))}")
                if (x.num_vertices, x.num_edges, x.num_faces) != (x.num_sub_entities(0), x.num_sub_entities(1), x.num_sub_entities(2)):
                    return f"{path}: num_vertices/edges/faces disagree with num_sub_entities"
                # diamond property: each ridge is shared by exactly two facets
                if t >= 2:
                    n += 1
                    tot = sum(f.num_facets for f in x.facets)
                    if tot != 2 * x.num_ridges:
                        return f"{path}: sum of facets' facet counts {tot} != 2*ridges {2 * x.num_ridges}"
                # vertices: every d-entity has at least d+1 vertices and at most the cell's
                for d in range(t + 1):
                    for e in x.sub_entities(d):
                        if not (d + 1 <= e.num_vertices <= x.num_vertices):
                            return f"{path}: entity {e} of dim {d} has {e.num_vertices} vertices (cell has {x.num_vertices})"
                return None
            bad = rec(c, name, 0)
            if bad:
                return violated(bad, replay={"cell": name, "law": bad}, reproduced=True, backend="exhaustive+z3")
            return proved("exhaustive-finite-domain+z3", vcs=n, sample=f"Cell('{name}'): Euler + recursion + facet/ridge/peak laws, {n} checks")
        run.add(f"cell[{name}]/topology", cell_thunk, kind="proof")

    def tp_thunk():
        n = 0
        for c in tp_cells():
            t = c.topological_dimension
            path = str(c)
            try:
                counts = {}
                for d in range(t + 1):
                    try:
                        counts[d] = c.num_sub_entities(d)
                    except NotImplementedError:
                        counts[d] = None
                n += 1
                if counts[t] != 1 or c.num_sub_entities(t + 1) != 0 or c.num_sub_entities(-1) != 0:
                    return violated(f"{path}: cell is not its only top-dimensional entity", reproduced=True)
                if all(v is not None for v in counts.values()):
                    e = sum((-1) ** d * v for d, v in counts.items())
                    if e != 1:
                        return violated(f"{path}: Euler characteristic {e} != 1 (counts {counts})",
                                        replay={"cell": path, "counts": str(counts)}, reproduced=True)
                # vertices = product of factor vertices ; facets = sum over factors
                nv = 1
                for f in c.sub_cells:
                    nv *= f.num_vertices
                if counts[0] is not None and counts[0] != nv:
                    return violated(f"{path}: {counts[0]} vertices, product of factors is {nv}", reproduced=True)
                if t >= 1 and counts.get(t - 1) is not None:
                    nf = sum(f.num_facets * 1 for f in c.sub_cells if f.topological_dimension > 0)
                    if t - 1 != 0 and counts[t - 1] != nf:
                        return violated(f"{path}: {counts[t - 1]} facets, sum over factors is {nf}", reproduced=True)
                for d in (0, t):
                    ents = c.sub_entities(d)
                    if len(ents) != counts[d] or any(e.topological_dimension != d for e in ents):
                        return violated(f"{path}: sub_entities({d}) inconsistent", reproduced=True)
                if c.num_facets != (counts.get(t - 1) if t >= 1 else 0):
                    return violated(f"{path}: num_facets != num_sub_entities(tdim-1)", reproduced=True)
            except NotImplementedError:
                continue
        return proved("exhaustive-finite-domain", vcs=n, sample=f"{n} tensor product cells of total dimension <= 3")
    run.add("tensor_product_cells/topology", tp_thunk, kind="proof")

    def order_thunk():
        cells = named_cells() + tp_cells()
        # distinct representatives (structural ==)
        reps = []
        for c in cells:
            if not any(c == r for r in reps):
                reps.append(c)
        n = 0
        lt = {}
        for a in reps:
            for b in reps:
                lt[(id(a), id(b))] = a < b
                if not isinstance(lt[(id(a), id(b))], bool):
                    return violated(f"{a} < {b} returned non-bool", reproduced=True)
        for a in cells:
            for b in cells:
                n += 1
                if a == b and (a < b or b < a):
                    return violated(f"order inconsistent with ==: {a} == {b} but one is < the other",
                                    replay={"a": str(a), "b": str(b)}, reproduced=True)
        for a in reps:
            if lt[(id(a), id(a))]:
                return violated(f"{a} < {a}", reproduced=True)
            for b in reps:
                if a is b:
                    continue
                n += 1
                if lt[(id(a), id(b))] == lt[(id(b), id(a))]:
                    return violated(f"not a strict total order: ({a} < {b}) = {lt[(id(a), id(b))]} and ({b} < {a}) = {lt[(id(b), id(a))]}",
                                    replay={"a": str(a), "b": str(b)}, reproduced=True)
                for c in reps:
                    if lt[(id(a), id(b))] and lt[(id(b), id(c))] and not lt[(id(a), id(c))]:
                        return violated(f"not transitive: {a} < {b} < {c} but not {a} < {c}",
                                        replay={"a": str(a), "b": str(b), "c": str(c)}, reproduced=True)
        # the other comparison operators, wherever they give an answer, are the same order: a > b iff b < a, a <= b iff not b < a, a >= b iff not a < b
        import operator
        for a in cells:
            for b in cells:
                base_lt, base_gt = a < b, b < a
                for opname, op, want in (("__gt__", operator.gt, base_gt), ("__le__", operator.le, not base_gt), ("__ge__", operator.ge, not base_lt)):
                    try:
                        got = op(a, b)
                    except TypeError:
                        continue           # operator not defined for cells
                    n += 1
                    if bool(got) != want:
                        return violated(f"the comparison operators disagree about one order: ({a} {opname} {b}) is {got} but ({a} < {b}) is {base_lt} and ({b} < {a}) is {base_gt}"
                                        f" (a == b: {a == b})", replay={"a": repr(a), "b": repr(b), "operator": opname}, reproduced=True)
        srt = sorted(reps)
        if any(not (srt[k_] < srt[k_ + 1]) for k_ in range(len(srt) - 1)) or sorted(reversed(reps)) != srt or sorted(reps, reverse=True) != srt[::-1]:
            return violated("sorted() of the cells is not the strictly increasing chain of the order", reproduced=True)
        return proved("exhaustive-finite-domain", vcs=n, sample=f"strict total order over {len(reps)} distinct cells (all pairs, all triples); >, <=, >= agree with < where defined")
    run.add("cell_order/strict_total", order_thunk, kind="proof")

    def history_thunk():
        """Equality, hash and order of product cells are functions of their factors: they must not depend on which cells were created and discarded before
        (objects built freshly for every comparison and dropped again, so that the interpreter may reuse their memory)."""
        import gc
        base = [n_ for n_ in UC._sub_entity_celltypes]
        combos = [c_ for k_ in (1, 2, 3) for c_ in itertools.product(base, repeat=k_) if sum(UC.Cell(n_).topological_dimension for n_ in c_) <= 3]
        mk = lambda c_: UC.TensorProductCell(*[UC.Cell(n_) for n_ in c_])     # noqa: E731
        ref = {c_: mk(c_) for c_ in combos}            # all alive at once: the reference order
        ref_lt = {(x, y): ref[x] < ref[y] for x in combos for y in combos}
        ref_hash = {c_: hash(ref[c_]) for c_ in combos}
        n = 0
        for fa in combos:
            for fb in combos:
                a = mk(fa)
                hash(a), a == a, a < a
                del a
                gc.collect() if n % 97 == 0 else None
                b = mk(fb)
                c = mk(fa)
                n += 1
                got = (b == c, c == b, b != c, b < c, c < b, hash(b), hash(c))
                want = (fa == fb, fa == fb, fa != fb, ref_lt[(fb, fa)], ref_lt[(fa, fb)], ref_hash[fb], ref_hash[fa])
                if got != want:
                    names = ("b == c", "c == b", "b != c", "b < c", "c < b", "hash(b)", "hash(c)")
                    bad = [f"{nm} is {g_!r}, expected {w_!r}" for nm, g_, w_ in zip(names, got, want) if g_ != w_]
                    return violated(f"after creating, hashing and discarding TensorProductCell{fa}: b = TensorProductCell{fb}, c = TensorProductCell{fa}: " + "; ".join(bad),
                                    replay={"discarded": list(fa), "b": list(fb), "c": list(fa), "differences": bad}, reproduced=True, backend="exec")
                del b, c
        return proved("exhaustive-finite-domain", vcs=n, sample=f"{len(combos)}^2 ordered pairs of product cells, each built after a discarded cell: ==, !=, <, hash as in the all-alive reference")
    run.add("cell_order/independent-of-creation-history", history_thunk, kind="proof")

    def ctor_thunk():
        n = 0
        for d in range(5):
            s, h = UC.simplex(d), UC.hypercube(d)
            n += 2
            if s.topological_dimension != d or s.num_vertices != d + 1 or (d <= 3 and not s.is_simplex):
                return violated(f"simplex({d}) = {s} has tdim {s.topological_dimension}, {s.num_vertices} vertices", reproduced=True)
            if s.num_facets != (d + 1 if d >= 1 else 0):
                return violated(f"simplex({d}) has {s.num_facets} facets", reproduced=True)
            if h.topological_dimension != d or h.num_vertices != 2 ** d or h.num_facets != (2 * d if d >= 1 else 0):
                return violated(f"hypercube({d}) = {h}: tdim {h.topological_dimension}, {h.num_vertices} vertices, {h.num_facets} facets",
                                reproduced=True)
            for dd in range(d + 1):
                # f-vector of the d-simplex / d-cube
                import math
                if s.num_sub_entities(dd) != math.comb(d + 1, dd + 1):
                    return violated(f"simplex({d}).num_sub_entities({dd}) = {s.num_sub_entities(dd)}", reproduced=True)
                if h.num_sub_entities(dd) != 2 ** (d - dd) * math.comb(d, dd):
                    return violated(f"hypercube({d}).num_sub_entities({dd}) = {h.num_sub_entities(dd)}", reproduced=True)
        for nm in UC._sub_entity_celltypes:
            if UC.as_cell(nm) != UC.Cell(nm) or UC.as_cell(UC.Cell(nm)) != UC.Cell(nm):
                return violated(f"as_cell({nm!r})", reproduced=True)
            n += 1
        return proved("exhaustive-finite-domain", vcs=n, sample="simplex(d), hypercube(d), d=0..4: f-vectors C(d+1,k+1), 2^(d-k)C(d,k)")
    run.add("simplex_hypercube_as_cell", ctor_thunk, kind="proof")

    def canary():
        c = UC.Cell("tetrahedron")
        counts = [c.num_sub_entities(d) for d in range(4)]
        if sum((-1) ** d * v for d, v in enumerate(counts)) != 0:   # deliberately wrong law: chi == 0
            return violated("canary refuted", reproduced=True)
        return proved("canary")
    run.add("canary/euler-zero", canary, kind="canary")
