"""C10 — index rewriting passes are value-preserving and hygienic.

Functions under contract: IndexExpander handlers (+ inherited Transformer.reuse_variable) / expand_indices,
IndexRemover.indexed, IndexReplacer.zero/multi_index, remove_component_tensors, IndexRelabeller.zero/multi_index,
renumber_indices.
Contract: den(pass(e)) == den(e) for every component and free-index assignment, same shape and free indices
(renumber_indices: same up to the bijective renaming it performs on free indices), for all terminal values.
Hygiene is part of the contract: substituting i -> j must not capture inside a scope binding i or j; results computed
for a Variable under one component context must not be reused under another.
Operand structure matters for these passes (they rewrite scopes), so the obligations run the real passes on a corpus of
scoped expressions (ufv/corpus.py: reused index objects in sibling/nested scopes, component tensors indexed by indices
bound inside, variables under several components, zeros with free indices) and additionally per-handler on opaque operands.
"""
from __future__ import annotations

import itertools

import ufl
import ufl.classes as C
from ufl.algorithms.expand_indices import IndexExpander, expand_indices
from ufl.algorithms.remove_component_tensors import IndexRemover, IndexReplacer, remove_component_tensors
from ufl.algorithms.renumbering import IndexRelabeller, renumber_indices
from ufl.algorithms.transformer import Transformer
from ufl.core.multiindex import FixedIndex, Index, MultiIndex

from ufv import corpus
from ufv.core import crash_text, deliberate, proved, undecided, violated
from ufv.den import den
from ufv.opq import Opq
from ufv.semv import check_same
from ufv.terms import atoms_world

LEVEL = "other"
TECHNIQUE = ("contract VCs: the real index passes are run on scoped expressions (corpus of adversarial scope patterns + per-handler "
             "opaque operands); den(result) == den(input), shape and free indices, for all terminal values (z3 / polynomial normaliser)")
LEVEL_TEXT = ("All-values equality proofs per corpus expression and per handler case; the corpus is finite (scope patterns enumerated by "
              "hand: sibling/nested reuse, capture, shadowing, variables under contexts), so this is not a proof over all expressions.")
LEVEL_NOTE = "Trusted: ufv/den.py, z3. Corpus and handler cases are enumerated; dims 2."
TRUSTED = ["ufv/den.py", "z3, ufv/alg.py"]
ASSUMPTIONS = ["expression corpus is finite (ufv/corpus.py); gdim 2", "renumber_indices is compared modulo its own bijective renaming of free indices",
               "real mode"]
EXPLANATION = ("expand_indices / remove_component_tensors / renumber_indices run on every corpus expression; the output must denote "
               "the same value for all terminal values, with the same shape and free indices.")


# corpus expressions the three passes must ACCEPT (plain index notation over conditionals: a refusal of these is not a legitimate precondition failure)
MUST_ACCEPT = ("vector conditional with a literal in the condition", "matrix conditional with a division in the condition", "vector conditional with a zero in the condition",
               "nested tensor conditionals")


def build(run):
    for f in (IndexExpander.terminal, IndexExpander.form_argument, IndexExpander.zero, IndexExpander.scalar_value, IndexExpander.conditional,
              IndexExpander.division, IndexExpander.index_sum, IndexExpander.multi_index, IndexExpander.indexed, IndexExpander.component_tensor,
              IndexExpander.list_tensor, IndexExpander.grad, Transformer.reuse_variable, expand_indices, IndexRemover.indexed,
              IndexReplacer.zero, IndexReplacer.multi_index, remove_component_tensors, IndexRelabeller.zero, IndexRelabeller.multi_index,
              renumber_indices):
        run.function(f)
    mk = atoms_world()
    tmo = 20000

    def pass_ob(pname, fn, name, builder, closed_only=False):
        tag = f"{pname}/{name}"

        def thunk():
            e = builder()
            try:
                r = fn(e)
            except ValueError as ex:
                if not deliberate(ex):
                    return violated(f"crash instead of a result or a refusal: {crash_text(ex)}", reproduced=True, backend="exec")
                if any(k_ in tag for k_ in MUST_ACCEPT):
                    return violated(f"{tag}: the pass refuses a valid index-notation expression of the kind it is specified for: {ex}", replay={"obligation": tag, "error": str(ex)},
                                    reproduced=True, backend="exec")
                return proved("refused", sample=f"{tag}: raises ValueError: {ex}"[:200])
            except Exception as ex:  # noqa: BLE001
                return violated(f"{tag}: pass crashed with {type(ex).__name__}: {ex}", replay={"expr": str(e)[:800], "repr": repr(e)[:3000]},
                                reproduced=True, backend="exec")
            if pname == "renumber_indices" and e.ufl_free_indices:
                # compare modulo the renaming: same shape and same index dimensions in order of first occurrence
                if r.ufl_shape != e.ufl_shape or sorted(r.ufl_index_dimensions) != sorted(e.ufl_index_dimensions):
                    return violated(f"{tag}: shape/index dimensions changed", reproduced=True, replay={"expr": str(e)})
                return proved("structural", sample=f"{tag}: open expression, free indices renamed bijectively")
            return check_same(mk, r, lambda w, c, env: den(w, e, c, env), e.ufl_shape, e.ufl_free_indices, e.ufl_index_dimensions,
                              timeout_ms=tmo, what=tag)
        run.add(tag, thunk, kind="values")

    names_closed = [n for n, _ in corpus.closed()]
    names_open = [n for n, _ in corpus.open_()]

    def get_closed(n):
        return lambda: dict(corpus.closed())[n]

    def get_open(n):
        return lambda: dict(corpus.open_())[n]
    for n in names_closed:
        pass_ob("expand_indices", expand_indices, n, get_closed(n))
        pass_ob("remove_component_tensors", remove_component_tensors, n, get_closed(n))
        pass_ob("renumber_indices", renumber_indices, n, get_closed(n))
    for n in names_open:
        pass_ob("remove_component_tensors", remove_component_tensors, n, get_open(n))
        pass_ob("renumber_indices", renumber_indices, n, get_open(n))

    # ---- Zero carrying two free indices of different dimensions, opposite a non-zero branch; one index summed, one bound by a component tensor.
    # The renumbering meets the indices in either order (IndexRelabeller.zero must keep each dimension with its index).
    def zero_two_dims(first_is_small, zero_first, bind_first):
        def mkz():
            t = corpus.terminals()
            import ufl
            from ufv import elements as E_
            a3 = ufl.Coefficient(ufl.FunctionSpace(t["msh"], E_.LagrangeElement(t["msh"].ufl_cell(), 1, (3,))))
            a2, f_ = t["u"], t["f"]
            p_, q_ = Index(), Index()
            if first_is_small:
                dims, nz = {p_: 2, q_: 3}, a3[q_] * a2[p_]
            else:
                dims, nz = {p_: 3, q_: 2}, a2[q_] * a3[p_]
            z = C.Zero((), (p_, q_), dims)
            cond = ufl.lt(f_, 0)
            e = ufl.conditional(cond, z, nz) if zero_first else ufl.conditional(cond, nz, z)
            bound, summed = (p_, q_) if bind_first else (q_, p_)
            return ufl.as_tensor(C.IndexSum(e, MultiIndex((summed,))), (bound,))
        return mkz
    for fs_, zf_, bf_ in itertools.product((True, False), repeat=3):
        nm_ = f"zero with two free indices of dims (2,3) small_first={fs_} zero_first={zf_} bind_first={bf_}"
        for pn_, fn_ in (("renumber_indices", renumber_indices), ("expand_indices", expand_indices), ("remove_component_tensors", remove_component_tensors)):
            pass_ob(pn_, fn_, nm_, zero_two_dims(fs_, zf_, bf_))

    # ---- coefficients in a SYMMETRIC tensor space: expand_indices replaces every component by the canonical component that carries the same degree of freedom
    # (the spec gives one value per degree of freedom, so any non-equivalent component changes the value)
    def sym_world():
        from ufv.terms import atoms_hook as _ah

        def hook(w, e, comp, env):
            if isinstance(e, C.Coefficient) and len(getattr(e.ufl_function_space(), "components", {})) > 1 and comp:
                return w.symbol(f"w{e.count()}", (e.ufl_function_space().components[tuple(comp)],))
            return _ah(w, e, comp, env)

        def mk_(symbolic, valuation):
            from ufv.den import World
            w = World(symbolic=symbolic, complex_mode=False, valuation=valuation)
            w.terminal_hook = hook
            return w
        return mk_

    def sym_cases():
        import ufl
        from ufv import elements as E_
        t = corpus.terminals()
        cell = t["msh"].ufl_cell()
        P1 = E_.LagrangeElement(cell, 1)
        S2 = ufl.Coefficient(ufl.FunctionSpace(t["msh"], E_.SymmetricElement({(0, 0): 0, (0, 1): 1, (1, 0): 1, (1, 1): 2}, [P1, P1, P1])))
        S3 = ufl.Coefficient(ufl.FunctionSpace(t["msh"], E_.SymmetricElement(
            {(0, 0): 0, (0, 1): 1, (0, 2): 2, (1, 0): 1, (1, 1): 3, (1, 2): 4, (2, 0): 2, (2, 1): 4, (2, 2): 5}, [P1] * 6)))
        A_, u_, f_ = t["A"], t["u"], t["f"]
        i_, j_, k_ = Index(), Index(), Index()
        return {"S[1,1]": S2[1, 1], "S[1,0] f": S2[1, 0] * f_, "tr S = S[i,i]": S2[i_, i_], "S[i,j] A[j,i]": S2[i_, j_] * A_[j_, i_], "S[i,j] S[i,j]": S2[i_, j_] * S2[i_, j_],
                "(S A)[1,1]": ufl.as_tensor(S2[i_, k_] * A_[k_, j_], (i_, j_))[1, 1], "S[i,0] u[i]": S2[i_, 0] * u_[i_], "S3[i,i]": S3[i_, i_], "S3[2,1] + S3[1,2]": S3[2, 1] + S3[1, 2],
                "S3[i,j] S3[j,i]": S3[i_, j_] * S3[j_, i_], "S3[2,2] S3[0,2]": S3[2, 2] * S3[0, 2]}
    for nm_ in sym_cases():
        for pn_, fn_ in (("expand_indices", expand_indices), ("remove_component_tensors", remove_component_tensors)):
            def sym_thunk(nm_=nm_, fn_=fn_, pn_=pn_):
                e = sym_cases()[nm_]
                try:
                    r = fn_(e)
                except ValueError as ex:
                    if not deliberate(ex):
                        return violated(f"crash instead of a result or a refusal: {crash_text(ex)}", reproduced=True, backend="exec")
                    return proved("refused", sample=f"{pn_}/{nm_}: raises ValueError: {ex}"[:200])
                return check_same(sym_world(), r, lambda w, c, env: den(w, e, c, env), e.ufl_shape, e.ufl_free_indices, e.ufl_index_dimensions, timeout_ms=tmo,
                                  what=f"{pn_}/symmetric coefficient/{nm_}")
            run.add(f"{pn_}/symmetric-space coefficient/{nm_}", sym_thunk, kind="values")

    # ---- per-handler: IndexReplacer.zero (opaque bodies cannot be substituted into, so only Zero bodies are used here)
    I, J, K = Index(), Index(), Index()
    cases = [
        ("zero_ij[(i)->(k)]", C.Zero((), tuple(sorted((I.count(), J.count()))), (2, 2)), (I,), (K,)),
        ("zero_ij[(i,j)->(0,k)]", C.Zero((), tuple(sorted((I.count(), J.count()))), (2, 2)), (I, J), (FixedIndex(0), K)),
    ]
    for nm, body, jj, ii in cases:
        def mkexpr(body=body, jj=jj, ii=ii):
            ct = C.ComponentTensor(body, MultiIndex(jj))
            # build the Indexed node without the constructor shortcut, as derivative expansion produces it
            x = C.Operator.__new__(C.Indexed)
            x._initialised = False
            C.Indexed.__init__(x, ct, MultiIndex(ii))
            return x
        pass_ob("remove_component_tensors", remove_component_tensors, f"handler/{nm}", mkexpr)

    def canary():
        t = corpus.terminals()
        i = Index()
        e = t["u"][i] * t["v"][i]
        return check_same(mk, expand_indices(e), lambda w, c, env: den(w, t["u"][0] * t["v"][0], c, env), (), what="canary (drops a term)")
    run.add("canary/dropped-term", canary, kind="canary")
