"""C25 — Sobolev space comparisons form a consistent partial order.

Functions under contract: SobolevSpace.__lt__/__eq__/__contains__/__init__, the derived
__gt__/__le__/__ge__, and the DirectionalSobolevSpace overrides.  The postconditions are the six
laws of the property statement, taken literally; the domain (12 predefined spaces and directional
spaces with orders in {0,1,2,3,inf}^n, n<=3 — the orders that have a meaning in __getitem__) is finite
and enumerated exhaustively by running the real methods, so each law is decided for all inputs.
"""
from __future__ import annotations

import itertools
from math import inf

import ufl.sobolevspace as S

from ufv.core import proved, violated

LEVEL = "proof"
TECHNIQUE = ("contract laws of the statement checked on the real comparison methods by exhaustive enumeration of the finite "
             "domain (12 named spaces + directional spaces with orders in {0,1,2,3,inf}^n, n<=3); ground truth for '<' from an "
             "independent inclusion table")
LEVEL_TEXT = ("All pairs/triples of the finite domain named in the property are enumerated and each law of the statement is "
              "evaluated on the real methods; a finite domain covered completely is a proof for that domain. "
              "Directional spaces are covered for n<=3 spatial directions.")
LEVEL_NOTE = ("Trusted: the inclusion table of the named spaces and the anisotropic-order semantics of directional spaces written in "
              "ufv/props/c25.py (from the literature, not from ufl). Directional spaces with more than 3 directions or with integer "
              "orders > 3 are outside the enumerated domain (orders > 3 have no meaning in __getitem__).")
TRUSTED = ["ground-truth inclusion table of named Sobolev spaces and order semantics of directional spaces (ufv/props/c25.py)",
           "CPython evaluating the real comparison methods"]
ASSUMPTIONS = ["directional spaces enumerated for n<=3 directions, orders in {0,1,2,3,inf}",
               "comparisons of a directional space with HDivDiv/HEin/HCurlDiv may refuse by raising (ground truth unknown); "
               "a non-bool return value is a violation",
               "transitivity is required only of triples whose directional members have the same number of directions "
               "(spaces over domains of different dimension are unrelated; named spaces are dimension-agnostic)",
               "thorough tier enumerates all triples including directional ones; quick tier: all pairs, triples of named spaces and "
               "triples of 2-directional spaces"]
EXPLANATION = ("Finite-domain exhaustive evaluation of the real methods against the laws of the statement "
               "(1) a<b iff proper subspace, (2) a>b iff b<a, (3) a<=b iff a<b or a==b, (4) irreflexive, (5) transitive, "
               "(6) element membership consistent with inclusion; results must be bool.")

# independent ground truth: direct super-spaces (space is a subspace of each listed one)
SUPERS = {
    "L2": [], "HDiv": ["L2"], "HCurl": ["L2"], "HEin": ["L2"], "HDivDiv": ["L2"], "HCurlDiv": ["L2"],
    "H1": ["HDiv", "HCurl"], "H1Div": ["H1"], "H1Curl": ["H1"], "H2": ["H1Div", "H1Curl"], "H3": ["H2"], "HInf": ["H3"],
}
ISO_ORDER = {"L2": 0, "H1": 1, "H2": 2, "H3": 3, "HInf": inf}


def ancestors(n):
    out = set()
    todo = list(SUPERS[n])
    while todo:
        x = todo.pop()
        if x not in out:
            out.add(x)
            todo += SUPERS[x]
    return out


class FakeElement:
    def __init__(self, space):
        self.sobolev_space = space


def truth_lt(a, b):
    """Ground truth 'a is a proper subspace of b' ; None = unknown (refusal allowed)."""
    da, db = isinstance(a, S.DirectionalSobolevSpace), isinstance(b, S.DirectionalSobolevSpace)
    if not da and not db:
        return b.name in ancestors(a.name)
    if da and db:
        if len(a._orders) != len(b._orders):
            return False
        return all(x >= y for x, y in zip(a._orders, b._orders)) and tuple(a._orders) != tuple(b._orders)
    if da:
        if b.name in ISO_ORDER:
            k = ISO_ORDER[b.name]
            return all(o >= k for o in a._orders) and any(o > k for o in a._orders)
        if b.name in ("HDiv", "HCurl"):
            return all(o >= 1 for o in a._orders)
        if b.name in ("H1Div", "H1Curl"):
            return all(o >= 2 for o in a._orders)   # H2 subset of both; anything less regular is not known to be inside
        return None
    # named a, directional b
    if a.name in ISO_ORDER:
        k = ISO_ORDER[a.name]
        return all(k >= o for o in b._orders) and any(k > o for o in b._orders)
    # other named spaces are subspaces of L2 = D(0,..,0) only
    if all(o == 0 for o in b._orders):
        return True
    if a.name in ("H1Div", "H1Curl"):
        return all(o <= 1 for o in b._orders)
    return False if a.name in ("HDiv", "HCurl", "HEin", "HDivDiv", "HCurlDiv") else None


def call(f):
    try:
        return ("ok", f())
    except (NotImplementedError, TypeError) as ex:
        return ("refused", type(ex).__name__)


def build(run):
    for f in (S.SobolevSpace.__lt__, S.SobolevSpace.__eq__, S.SobolevSpace.__contains__, S.SobolevSpace.__init__,
              S.SobolevSpace.__gt__, S.SobolevSpace.__le__, S.SobolevSpace.__ge__,
              S.DirectionalSobolevSpace.__lt__, S.DirectionalSobolevSpace.__eq__, S.DirectionalSobolevSpace.__contains__,
              S.DirectionalSobolevSpace.__gt__, S.DirectionalSobolevSpace.__le__, S.DirectionalSobolevSpace.__ge__,
              S.DirectionalSobolevSpace.__getitem__):
        run.function(f)
    named = [getattr(S, n) for n in SUPERS]
    orders = [0, 1, 2, 3, inf]
    # every order vector given as a tuple and as a list (the two spellings denote the same space)
    dirs = {n: [S.DirectionalSobolevSpace(o) for o in itertools.product(orders, repeat=n)] + [S.DirectionalSobolevSpace(list(o)) for o in itertools.product(orders, repeat=n)]
            for n in (1, 2, 3)}
    thorough = run.tier == "thorough"

    def fam(name):
        if name == "named":
            return named
        return dirs[int(name[1])]

    def label(x):
        return str(x)

    def pair_law(law, fa, fb):
        """Each law over all pairs of two families."""
        def thunk():
            n = 0
            for a in fam(fa):
                for b in fam(fb):
                    n += 1
                    bad = law(a, b)
                    if bad:
                        return violated(f"{bad} for a={label(a)}, b={label(b)}",
                                        replay={"a": repr(a) if fa == "named" else f"DirectionalSobolevSpace({a._orders})",
                                                "b": repr(b) if fb == "named" else f"DirectionalSobolevSpace({b._orders})",
                                                "law": bad}, reproduced=True, backend="exhaustive")
            return proved("exhaustive-finite-domain", vcs=n, sample=f"{law.__name__} over all {n} pairs of {fa} x {fb}")
        return thunk

    def law_bool(a, b):
        for nm, f in (("<", lambda: a < b), (">", lambda: a > b), ("<=", lambda: a <= b), (">=", lambda: a >= b),
                      ("==", lambda: a == b), ("!=", lambda: a != b)):
            st, v = call(f)
            if st == "ok" and not isinstance(v, bool):
                return f"a {nm} b returned non-bool {type(v).__name__} ({v!r:.80})"
        return None

    def law_lt_truth(a, b):
        t = truth_lt(a, b)
        st, v = call(lambda: a < b)
        if t is None:
            return None
        if st != "ok":
            return f"a < b refused ({v}) but inclusion is known ({t})"
        if bool(v) != t:
            return f"law(1): a < b is {v!r} but 'a is a proper subspace of b' is {t}"
        return None

    def law_gt(a, b):
        (s1, v1), (s2, v2) = call(lambda: a > b), call(lambda: b < a)
        if s1 == "ok" and s2 == "ok" and bool(v1) != bool(v2):
            return f"law(2): a > b is {v1!r} but b < a is {v2!r}"
        if s1 != s2 and truth_lt(b, a) is not None:
            return f"law(2): a > b {s1}/{v1} vs b < a {s2}/{v2}"
        return None

    def law_le(a, b):
        (s1, v1), (s2, v2), (s3, v3) = call(lambda: a <= b), call(lambda: a < b), call(lambda: a == b)
        if s1 == s2 == s3 == "ok" and bool(v1) != (bool(v2) or bool(v3)):
            return f"law(3): a <= b is {v1!r} but (a < b or a == b) is {bool(v2) or bool(v3)}"
        return None

    def law_eq_truth(a, b):
        """== holds exactly for the same space (same name / same order vector, however it was spelled)."""
        da, db = isinstance(a, S.DirectionalSobolevSpace), isinstance(b, S.DirectionalSobolevSpace)
        if da != db:
            return None
        same = (tuple(a._orders) == tuple(b._orders)) if da else (a.name == b.name)
        st, v = call(lambda: a == b)
        if st == "ok" and bool(v) != same:
            return f"a == b is {v!r} but 'a and b are the same space' is {same}"
        st, v = call(lambda: a != b)
        if st == "ok" and bool(v) == same:
            return f"a != b is {v!r} but 'a and b are the same space' is {same}"
        return None

    def law_irrefl(a, b):
        s0, e = call(lambda: a == b)
        if s0 == "ok" and e is True:
            st, v = call(lambda: a < b)
            if st == "ok" and bool(v):
                return "law(4): a < b holds although a == b"
        return None

    def law_member(a, b):
        """element of space a: `e in b` iff a == b or a < b."""
        e = FakeElement(a)
        (s1, v1), (s2, v2), (s3, v3) = call(lambda: e in b), call(lambda: a < b), call(lambda: a == b)
        if s1 == s2 == s3 == "ok":
            t = truth_lt(a, b)
            if t is None:
                return None
            want = bool(v3) or t
            if bool(v1) != want:
                return f"law(6): (element of a) in b is {v1!r} but a == b or a proper-subspace-of b is {want}"
        return None

    fams = ["named", "d1", "d2"] + (["d3"] if thorough else [])
    for law in (law_bool, law_lt_truth, law_eq_truth, law_gt, law_le, law_irrefl, law_member):
        for fa in fams:
            for fb in fams:
                run.add(f"{law.__name__}/{fa}x{fb}", pair_law(law, fa, fb), kind="proof")
    if not thorough:
        # 3-directional spaces against named and themselves, pairs only on the quick tier
        for law in (law_lt_truth, law_gt, law_le):
            run.add(f"{law.__name__}/d3xd3", pair_law(law, "d3", "d3"), kind="proof")
            run.add(f"{law.__name__}/d3xnamed", pair_law(law, "d3", "named"), kind="proof")
            run.add(f"{law.__name__}/namedxd3", pair_law(law, "named", "d3"), kind="proof")

    def trans(fa, fb, fc):
        def thunk():
            n = 0
            A, B, Cc = fam(fa), fam(fb), fam(fc)
            lt = {}

            def LT(x, y):
                k = (id(x), id(y))
                if k not in lt:
                    st, v = call(lambda: x < y)
                    lt[k] = bool(v) if st == "ok" else None
                return lt[k]
            for a in A:
                for b in B:
                    if not LT(a, b):
                        continue
                    for c in Cc:
                        if len({len(x._orders) for x in (a, b, c) if isinstance(x, S.DirectionalSobolevSpace)}) > 1:
                            continue   # directional spaces over domains of different dimension are not comparable objects
                        n += 1
                        if LT(b, c) and LT(a, c) is False:
                            return violated(f"law(5): a<b and b<c but not a<c for a={label(a)}, b={label(b)}, c={label(c)}",
                                            replay={"a": label(a), "b": label(b), "c": label(c)}, reproduced=True,
                                            backend="exhaustive")
            return proved("exhaustive-finite-domain", vcs=max(n, 1), sample=f"transitivity over {fa}x{fb}x{fc}: {n} triples with a<b")
        return thunk
    tf = ["named", "d1", "d2"] + (["d3"] if thorough else [])
    for fa in tf:
        for fb in tf:
            for fc in tf:
                run.add(f"law_transitive/{fa}x{fb}x{fc}", trans(fa, fb, fc), kind="proof")

    def canary():
        # deliberately false law: 'a < b for all a, b' must be refuted
        for a in named:
            for b in named:
                if not (a < b):
                    return violated("canary refuted", reproduced=True)
        return proved("canary")
    run.add("canary/all-less", canary, kind="canary")
