"""C12 — signatures do not depend on incidental numbering or process state.

Functions under contract: cmp_expr, _cmp_multi_index/_cmp_label/_cmp_coefficient/_cmp_argument/_cmp_terminal_by_repr and every entry
of _terminal_cmps, sorted_expr, Form.terminal_numbering/domain_numbering/_compute_renumbering, compute_form_signature and every
_ufl_signature_data_, Mesh._ufl_sort_key_.

Contract (relational): for every strictly monotone renumbering phi of each counter family (indices, coefficients, constants, labels,
mesh ids, base form operators)        cmp(phi a, phi b) == cmp(a, b)      and     signature(phi F) == signature(F).
Obligations
  * comparator invariance, all counter values: the real comparators run path-exhaustively on z3 integer proxies; on every path pair the
    results agree under the order-isomorphism assumption (unbounded);
  * repr-ordered terminals: Lemma (z3/cvc5 strings): decimal printing is not monotone (exists x<y with str(x) > str(y)); so for each
    terminal class that cmp_expr orders by repr, the obligation is that its repr embeds no counter: two instances built under different
    counter histories must compare the same way as under the solver's witness history;
  * frame of the signature functions (AST): counters are read only as keys of `renumbering`;
  * history differential (bounded): each corpus form built under counter histories that straddle powers of ten has one signature;
  * PYTHONHASHSEED / process independence (bounded): the corpus signatures computed in separate processes under different seeds agree.
"""
from __future__ import annotations

import ast
import inspect
import itertools
import json
import os
import subprocess
import sys
import textwrap
import types
import warnings

import z3

import ufl
import ufl.classes as C
import ufl.sorting as SRT
import ufl.algorithms.signature as SIG
from ufl.core.multiindex import FixedIndex, Index

from ufv import sigforms as S
from ufv.core import bounded_ok, proved, undecided, violated
from ufv.symx import SymInt, explore, prove

LEVEL = "other"
TECHNIQUE = ("relational contract 'monotone renumbering of every counter family changes neither cmp_expr nor the signature': integer "
             "comparators proved on z3 integer proxies (path-exhaustive, unbounded); repr-ordered terminal classes decided with the SMT "
             "string lemma's witness replayed on the real classes; AST frame obligation on the signature functions; counter-history and "
             "hash-seed differentials on a form corpus (bounded)")
LEVEL_TEXT = ("Comparator invariance is proved for all counter values; the per-class repr obligations and the whole-signature runs use the "
              "solver's witness histories plus sampled histories on a finite corpus (bounded).")
LEVEL_NOTE = "Trusted: ufv/symx.py proxies, z3/cvc5; the corpus of ufv/sigforms.py is finite; hash-seed independence is sampled, not proved."
TRUSTED = ["ufv/symx.py integer proxies", "z3 / cvc5 (strings lemma)", "CPython"]
ASSUMPTIONS = ["creation order is the same in both histories (as the property states), so histories differ only by the start value of each counter",
               "PYTHONHASHSEED independence: sampled seeds only (bounded)", "corpus of forms finite"]
EXPLANATION = ("cmp_expr and the signature read counters only through order comparisons within one family or through the renumbering, "
               "so shifting the counters changes neither.")

HISTORIES_QUICK = [
    {"Index": 7, "Coefficient": 8, "Constant": 8, "Label": 9, "Mesh": 9, "BaseFormOperator": 9},
    {"Index": 97, "Coefficient": 98, "Constant": 97, "Label": 99, "Mesh": 99, "BaseFormOperator": 99},
    {"Index": 1000, "Coefficient": 5, "Constant": 50, "Label": 3, "Mesh": 12345, "BaseFormOperator": 17},
    {"Index": 9, "Coefficient": 0, "Constant": 0, "Label": 0, "Mesh": 0, "BaseFormOperator": 0},
    # the first objects of a family straddle a digit boundary (9 | 10, 99 | 100, 999 | 1000): anything ordered by printed names flips
    {"Index": 9, "Coefficient": 9, "Constant": 9, "Label": 9, "Mesh": 9, "BaseFormOperator": 9},
    {"Index": 99, "Coefficient": 99, "Constant": 99, "Label": 99, "Mesh": 99, "BaseFormOperator": 99},
    {"Index": 998, "Coefficient": 999, "Constant": 999, "Label": 999, "Mesh": 999, "BaseFormOperator": 999},
    {"Index": 0, "Coefficient": 0, "Constant": 9, "Label": 0, "Mesh": 0, "BaseFormOperator": 0},
    {"Index": 0, "Coefficient": 0, "Constant": 0, "Label": 0, "Mesh": 9, "BaseFormOperator": 0},
]


def _sig(builder, start):
    S.set_counters(start)
    with warnings.catch_warnings():
        warnings.simplefilter("ignore")
        return builder().signature()


def decimal_witness():
    """SMT lemma: exists 0 <= x, y = x + 1 with str(x) > str(y) (lexicographic).  Returns (x, y) from the solver."""
    s = z3.Solver()
    s.set("timeout", 20000)
    x, y = z3.Ints("x y")
    s.add(x >= 0, y == x + 1, y < 200, z3.IntToStr(y) < z3.IntToStr(x))      # consecutive numbers: objects are created one after the other
    if s.check() == z3.sat:
        m = s.model()
        return m[x].as_long(), m[y].as_long(), "z3"
    return 9, 10, "fallback(9,10)"


def build(run):
    for f in (SRT.cmp_expr, SRT._cmp_multi_index, SRT._cmp_label, SRT._cmp_coefficient, SRT._cmp_argument, SRT._cmp_terminal_by_repr, SRT.sorted_expr,
              ufl.Form.terminal_numbering, ufl.Form.domain_numbering, ufl.Form._compute_renumbering, SIG.compute_form_signature,
              SIG.compute_terminal_hashdata, SIG.compute_multiindex_hashdata, SIG.compute_expression_hashdata, ufl.Mesh._ufl_sort_key_,
              ufl.Mesh._ufl_signature_data_, C.Coefficient._ufl_signature_data_, C.Constant._ufl_signature_data_, C.Argument._ufl_signature_data_,
              C.GeometricQuantity._ufl_signature_data_, C.Label._ufl_signature_data_, C.Terminal._ufl_signature_data_):
        run.function(f)

    # ---------------------------------------------------------------- comparator invariance, all counter values
    def iso(pairs):
        """order isomorphism between (x, y) and (x2, y2) for each pair of corresponding counters"""
        cs = []
        for (x, y, x2, y2) in pairs:
            cs += [(x.t < y.t) == (x2.t < y2.t), (x.t == y.t) == (x2.t == y2.t), x.t >= 0, y.t >= 0, x2.t >= 0, y2.t >= 0]
        return cs

    def invariance(name, mk):
        """mk() -> (fn returning (r1, r2), pairs) ; r1 must equal r2 on every path consistent with the isomorphism."""
        def thunk():
            holder = {}

            def fn():
                f2, pairs = mk()
                holder["pairs"] = pairs
                return f2()
            paths, complete = explore(fn, lambda: ())
            if not complete:
                return undecided(f"{name}: path cap")
            n = 0
            for p in paths:
                if p.kind == "exc":
                    return undecided(f"{name}: comparator raised {type(p.value).__name__}: {p.value}")
                r1, r2 = p.value
                n += 1
                if r1 == r2:
                    continue
                st, model = prove(list(p.pc) + iso(holder["pairs"]), z3.BoolVal(False))
                if st == "proved":
                    continue
                if st == "refuted":
                    return violated(f"{name}: the comparator's answer depends on counter values: {r1} before vs {r2} after an order-preserving renumbering; {model}",
                                    replay={"comparator": name, "model": model}, reproduced=False, backend="z3")
                return undecided(f"{name}: z3 unknown")
            return proved("z3(path-exhaustive)", vcs=n, sample=f"{name}: {n} path pairs, result invariant under every order-preserving renumbering")
        run.add(f"comparator-invariance/{name}", thunk, kind="proof")

    def coeff_case(cmpname):
        def mk():
            cmp = getattr(SRT, cmpname)
            a, b, a2, b2 = (SymInt(n) for n in ("a", "b", "a2", "b2"))
            A, B, A2, B2 = (types.SimpleNamespace(_count=c) for c in (a, b, a2, b2))
            return (lambda: (cmp(A, B), cmp(A2, B2))), [(a, b, a2, b2)]
        return mk
    invariance("_cmp_coefficient", coeff_case("_cmp_coefficient"))

    def label_mk():
        a, b, a2, b2 = (SymInt(n) for n in ("a", "b", "a2", "b2"))
        A, B, A2, B2 = (types.SimpleNamespace(_count=c) for c in (a, b, a2, b2))
        return (lambda: (SRT._cmp_label(A, B), SRT._cmp_label(A2, B2))), [(a, b, a2, b2)]
    invariance("_cmp_label", label_mk)

    def fixed(v):
        o = object.__new__(FixedIndex)
        o._value = v
        return o

    for n in (1, 2, 3):
        for kinds in itertools.product("fi", repeat=2 * n):
            ka, kb = kinds[:n], kinds[n:]

            def mi_mk(ka=ka, kb=kb, n=n):
                pairs = []

                def side(tag):
                    out = []
                    for who, ks in (("a", ka), ("b", kb)):
                        idx = []
                        for p, k in enumerate(ks):
                            if k == "f":
                                idx.append(fixed(SymInt(f"{who}v{p}")))      # fixed index values are NOT renumbered: same in both histories
                            else:
                                idx.append(Index(count=SymInt(f"{who}c{p}{tag}")))
                        out.append(types.SimpleNamespace(_indices=tuple(idx)))
                    return out
                A, B = side("")
                A2, B2 = side("'")
                cs = [(x._count, y._count) for x, y in itertools.product([i for i in A._indices + B._indices if isinstance(i, Index)], repeat=2)]
                cs2 = [(x._count, y._count) for x, y in itertools.product([i for i in A2._indices + B2._indices if isinstance(i, Index)], repeat=2)]
                for (x, y), (x2, y2) in zip(cs, cs2):
                    pairs.append((x, y, x2, y2))
                return (lambda: (SRT._cmp_multi_index(A, B), SRT._cmp_multi_index(A2, B2))), pairs
            invariance(f"_cmp_multi_index/{''.join(ka)}-vs-{''.join(kb)}", mi_mk)

    def arg_frame():
        """_cmp_argument reads only number and part (form-level data, never renumbered)."""
        tree = ast.parse(textwrap.dedent(inspect.getsource(SRT._cmp_argument)))
        attrs = sorted({n.attr for n in ast.walk(tree) if isinstance(n, ast.Attribute)})
        if set(attrs) <= {"_number", "_part"}:
            return proved("ast", sample=f"_cmp_argument reads {attrs}")
        return violated(f"_cmp_argument reads {attrs}: more than number and part", replay={"attrs": attrs}, reproduced=False, backend="ast")
    run.add("comparator-invariance/_cmp_argument(frame)", arg_frame, kind="proof")

    # ---------------------------------------------------------------- repr-ordered terminal classes
    wx, wy, wback = decimal_witness()

    def mk_terminals(start):
        """One pair (a, b) per terminal class that may be ordered by repr, built afresh under history `start`; b is created after a."""
        S.set_counters(start)
        m1, m2 = S.new_mesh(), S.new_mesh()
        i, j = Index(), Index()
        out = {}
        out["Constant"] = (ufl.Constant(m1), ufl.Constant(m1))
        out["Constant(two meshes)"] = (ufl.Constant(m1), ufl.Constant(m2))
        for cls in sorted((c for c in C.all_ufl_classes if issubclass(c, C.GeometricQuantity) and not c._ufl_is_abstract_), key=lambda c: c.__name__):
            try:
                out[cls.__name__] = (cls(m1), cls(m2))
            except Exception:  # noqa: BLE001
                continue
        out["Zero(free index)"] = (C.Zero((), (i.count(),), (2,)), C.Zero((), (j.count(),), (2,)))
        out["Zero(free index, different dims)"] = (C.Zero((), (i.count(),), (2,)), C.Zero((), (j.count(),), (3,)))
        out["Zero(shape)"] = (C.Zero((2,)), C.Zero((3,)))
        out["IntValue"] = (C.IntValue(2), C.IntValue(10))
        out["FloatValue"] = (C.FloatValue(0.5), C.FloatValue(2.5))
        out["Identity"] = (C.Identity(2), C.Identity(3))
        out["PermutationSymbol"] = (C.PermutationSymbol(2), C.PermutationSymbol(3))
        V1, V2 = ufl.FunctionSpace(m1, S.L(ufl.triangle, 1)), ufl.FunctionSpace(m2, S.L(ufl.triangle, 1))
        out["Coefficient"] = (ufl.Coefficient(V1), ufl.Coefficient(V2))
        out["Argument"] = (ufl.Argument(V1, 0), ufl.Argument(V2, 1))
        out["Label"] = (C.Label(), C.Label())
        out["MultiIndex"] = (C.MultiIndex((i,)), C.MultiIndex((j,)))
        return out

    base_terms = mk_terminals({})
    for cname in base_terms:
        def repr_ob(cname=cname):
            # history H0: every counter starts at 0; history Hw: every counter starts so that the two objects straddle the solver's witness
            r0 = None
            res = {}
            for tag, start in (("H0", {}), ("Hw", {k: wx for k in S.COUNTER_FAMILIES}), ("H1", {k: 10 * wy + 1 for k in S.COUNTER_FAMILIES}),
                               ("H99", {k: 99 for k in S.COUNTER_FAMILIES}), ("H999", {k: 999 for k in S.COUNTER_FAMILIES})):
                a, b = mk_terminals(start)[cname]
                res[tag] = (SRT.cmp_expr(a, b), SRT.cmp_expr(b, a), repr(a), repr(b))
                if r0 is None:
                    r0 = res[tag][:2]
                elif res[tag][:2] != r0:
                    return violated(f"cmp_expr orders two {cname} terminals by repr and the answer changes with the counter history: "
                                    f"{r0} under H0 but {res[tag][:2]} under {tag} ({res[tag][2]} vs {res[tag][3]}); decimal witness {wx}<{wy} from {wback}",
                                    replay={"class": cname, "history": tag, "results": {k: list(map(str, v)) for k, v in res.items()}}, reproduced=True,
                                    backend=wback)
            return proved(f"exec+{wback}", vcs=len(res), sample=f"{cname}: cmp_expr answers {r0} under all {len(res)} histories incl. the solver's witness ({wx},{wy})")
        run.add(f"repr-ordered-terminal/{cname}", repr_ob, kind="values")

    # ---------------------------------------------------------------- frame of the signature functions
    def frame():
        bad, n = [], 0
        fns = []
        for cls in sorted(C.all_ufl_classes, key=lambda c: c.__name__) + [ufl.Mesh, ufl.FunctionSpace, ufl.domain.MeshSequence, ufl.functionspace.BaseFunctionSpace, ufl.functionspace.DualSpace,
                                        ufl.coefficient.BaseCoefficient, ufl.argument.BaseArgument]:
            f = cls.__dict__.get("_ufl_signature_data_")
            if f is not None and inspect.isfunction(f):
                fns.append((f"{cls.__name__}._ufl_signature_data_", f))
        for nm in ("compute_multiindex_hashdata", "compute_terminal_hashdata", "compute_expression_hashdata", "compute_form_signature"):
            fns.append((nm, getattr(SIG, nm)))
        seen = set()
        for nm, f in fns:
            if f in seen:
                continue
            seen.add(f)
            n += 1
            tree = ast.parse(textwrap.dedent(inspect.getsource(f)))
            for node in ast.walk(tree):
                hit = None
                if isinstance(node, ast.Attribute) and node.attr in ("_count", "_ufl_id"):
                    hit = node.attr
                if isinstance(node, ast.Call) and isinstance(node.func, ast.Attribute) and node.func.attr in ("count", "ufl_id"):
                    hit = node.func.attr + "()"
                if isinstance(node, ast.Call) and isinstance(node.func, ast.Name) and node.func.id in ("id", "hash"):
                    hit = node.func.id + "()"
                # hash data / repr of sub-objects embed raw ids by design: a signature function may descend only through _ufl_signature_data_
                if isinstance(node, ast.Call) and isinstance(node.func, ast.Attribute) and node.func.attr in ("_ufl_hash_data_", "__hash__", "__repr__"):
                    hit = node.func.attr + "()"
                if hit and not (nm == "Label._ufl_signature_data_"):
                    bad.append(f"{nm} reads {hit}")
        # Label: the raw count may only be used when the label is not in the renumbering
        lt = ast.parse(textwrap.dedent(inspect.getsource(C.Label._ufl_signature_data_)))
        unguarded = _unguarded_count_reads(lt)
        if bad:
            return violated("signature functions read raw counters: " + "; ".join(bad), replay={"reads": bad}, reproduced=False, backend="ast")
        # by execution as well (whatever the shape of the guard): for a label that IS in the renumbering the signature data is a function of its NEW number only,
        # for every new number including 0, and distinct new numbers give distinct data
        per_new = {}
        for new in (0, 1, 2, 3, 17):
            outs = set()
            for cnt in (0, 1, 2, 7, 12345, 10 ** 9):
                lab = C.Label(cnt)
                outs.add(repr(lab._ufl_signature_data_({lab: new})))
            if len(outs) != 1:
                return violated(f"Label._ufl_signature_data_ depends on the raw count of a label that is renumbered to {new}: " + ", ".join(sorted(outs)),
                                replay={"new_number": new, "outputs": sorted(outs)}, reproduced=True, backend="exec")
            per_new[new] = outs.pop()
        if len(set(per_new.values())) != len(per_new):
            return violated(f"Label._ufl_signature_data_ does not distinguish labels renumbered differently: {per_new}", replay={"outputs": {str(k): v for k, v in per_new.items()}},
                            reproduced=True, backend="exec")
        if unguarded:
            # the syntactic guard analysis does not recognise the shape of the code: the contract is decided by the executions above only (bounded)
            from ufv.core import bounded_ok
            return bounded_ok(30, "Label._ufl_signature_data_ executed for 6 raw counts x 5 new numbers with the label present in the renumbering (the guard of the raw "
                                 "count read has a shape the AST analysis does not recognise: " + "; ".join(unguarded) + ")",
                              sample="signature data of a renumbered label is independent of its raw count")
        return proved("ast", vcs=n, sample=f"{n} signature functions read counters only through `renumbering`")
    run.add("frame/signature-functions-read-no-raw-counter", frame, kind="proof")

    # ---------------------------------------------------------------- a number pinned by the caller is the object's number, whatever the counters hold
    def pinned():
        import inspect as _i
        m = S.new_mesh()
        V = ufl.FunctionSpace(m, S.L(ufl.triangle, 1))
        makers = {"Constant": lambda c: ufl.Constant(m, count=c), "Constant(shape)": lambda c: ufl.Constant(m, (2, 2), count=c), "VectorConstant": lambda c: ufl.VectorConstant(m, count=c),
                  "TensorConstant": lambda c: ufl.TensorConstant(m, count=c), "Coefficient": lambda c: ufl.Coefficient(V, count=c), "Cofunction": lambda c: ufl.Cofunction(V.dual(), count=c),
                  "Index": lambda c: Index(count=c), "Label": lambda c: C.Label(count=c), "Matrix": lambda c: ufl.Matrix(V, V, count=c)}
        # every other callable of the public namespace that accepts a `count` keyword is exercised too, so that a new convenience wrapper is not forgotten
        known = {ufl.Constant, ufl.VectorConstant, ufl.TensorConstant, ufl.Coefficient, ufl.Cofunction, Index, C.Label, ufl.Matrix}
        unknown = []
        for nm, o in vars(ufl).items():
            if callable(o) and o not in known:
                try:
                    if "count" in _i.signature(o).parameters:
                        unknown.append(nm)
                except (TypeError, ValueError):
                    pass
        n = 0
        for start in (0, 7, 1000):
            S.set_counters({k: start for k in S.COUNTER_FAMILIES})
            for nm, mk in makers.items():
                for c in (0, 5, 41, 10 ** 6):
                    o = mk(c)
                    n += 1
                    if o.count() != c:
                        return violated(f"{nm}(..., count={c}) has count {o.count()} when the global counters stand at {start}: the pinned number is ignored, so the relative "
                                        f"numbering (and the signature) of a form that pins it depends on how many objects were created before",
                                        replay={"constructor": nm, "count": c, "got": o.count(), "counter_start": start}, reproduced=True, backend="exec")
            for uid in (0, 3, 999):
                if ufl.Mesh(S.L(ufl.triangle, 1, (2,)), ufl_id=uid).ufl_id() != uid:
                    return violated(f"Mesh(..., ufl_id={uid}) ignores the pinned id", reproduced=True, backend="exec")
                n += 1
        # ... and automatic numbers keep following creation order whatever numbers were pinned in between (also numbers BELOW the counter): the relative
        # order of two automatically numbered objects is what the canonical numbering of a form is built on
        auto = {"Mesh": (lambda: ufl.Mesh(S.L(ufl.triangle, 1, (2,))), lambda k: ufl.Mesh(S.L(ufl.triangle, 1, (2,)), ufl_id=k), lambda o: o.ufl_id()),
                "Coefficient": (lambda: ufl.Coefficient(V), lambda k: ufl.Coefficient(V, count=k), lambda o: o.count()),
                "Constant": (lambda: ufl.Constant(m), lambda k: ufl.Constant(m, count=k), lambda o: o.count()),
                "Index": (lambda: Index(), lambda k: Index(count=k), lambda o: o.count()), "Label": (lambda: C.Label(), lambda k: C.Label(count=k), lambda o: o.count())}
        for start in (0, 5, 50):
            for fam, (mk_auto, mk_pin, num) in auto.items():
                for pinned_no in (0, 3, start, start + 1, start + 40, 10 ** 6):
                    S.set_counters({k: start for k in S.COUNTER_FAMILIES})
                    a_ = mk_auto()
                    mk_pin(pinned_no)
                    b_ = mk_auto()
                    c_ = mk_auto()
                    n += 1
                    if not (num(a_) < num(b_) < num(c_)):
                        return violated(f"{fam}: with the counter at {start}, three automatically numbered objects created around one pinned to {pinned_no} get the numbers "
                                        f"{num(a_)}, {num(b_)}, {num(c_)}: they are not in creation order, so the numbering of a form holding them depends on the counter's history",
                                        replay={"family": fam, "counter_start": start, "pinned": pinned_no, "numbers": [num(a_), num(b_), num(c_)]}, reproduced=True, backend="exec")
        return proved("exec", vcs=n, sample=f"{len(makers)} constructors x 4 pinned counts x 3 counter states (+ Mesh ufl_id): the pinned number is the object's number; automatic numbers stay in creation order around pinned ones"
                      + (f"; NOT covered (public callables with a `count` parameter unknown to this obligation): {unknown}" if unknown else ""))
    run.add("frame/pinned-numbers-are-honoured", pinned, kind="values")

    # ---------------------------------------------------------------- no unordered iteration on the numbering / signature path
    def unordered():
        """A set-valued expression may only be turned into a sequence (tuple/list/enumerate/for/+) through a sorter."""
        import ufl.form as FM
        SETISH = {"set", "frozenset", "join_domains"}
        SORTERS = {"sorted", "sort_domains", "sorted_by_count", "sorted_expr", "sorted_by_key", "sorted_by_ufl_id"}
        fns = [FM.Form._analyze_domains, FM.Form.domain_numbering, FM.Form.terminal_numbering, FM.Form._compute_renumbering, FM.Form._analyze_form_arguments,
               FM.Form.ufl_domains, FM.Form.constants if hasattr(FM.Form, "constants") else FM.Form.coefficients, SIG.compute_form_signature, SIG.compute_terminal_hashdata]
        bad, n = [], 0
        for fn in fns:
            try:
                tree = ast.parse(textwrap.dedent(inspect.getsource(fn)))
            except (OSError, TypeError):
                continue
            fdef = tree.body[0]
            setnames = set()
            changed = True

            def setish(e):
                if isinstance(e, ast.Call) and isinstance(e.func, ast.Name) and e.func.id in SETISH:
                    return True
                if isinstance(e, (ast.Set, ast.SetComp)):
                    return True
                if isinstance(e, ast.Name) and e.id in setnames:
                    return True
                if isinstance(e, ast.BinOp) and isinstance(e.op, (ast.BitOr, ast.BitAnd, ast.Sub, ast.BitXor)):
                    return setish(e.left) or setish(e.right)
                return False
            while changed:
                changed = False
                for node in ast.walk(fdef):
                    if isinstance(node, ast.Assign) and len(node.targets) == 1 and isinstance(node.targets[0], ast.Name) and setish(node.value):
                        if node.targets[0].id not in setnames:
                            setnames.add(node.targets[0].id)
                            changed = True
                    if isinstance(node, ast.AugAssign) and isinstance(node.target, ast.Name) and setish(node.value) and node.target.id not in setnames:
                        pass

            def ordered_use(e):
                """e is consumed as a sequence: is it (transitively through +) set-valued without a sorter?"""
                if isinstance(e, ast.Call) and isinstance(e.func, ast.Name) and e.func.id in SORTERS:
                    return False
                if isinstance(e, ast.BinOp) and isinstance(e.op, ast.Add):
                    return ordered_use(e.left) or ordered_use(e.right)
                if isinstance(e, ast.Call) and isinstance(e.func, ast.Name) and e.func.id in ("tuple", "list", "enumerate") and e.args:
                    return ordered_use(e.args[0]) or setish(e.args[0])
                return setish(e)
            for node in ast.walk(fdef):
                n += 1
                if isinstance(node, ast.Call) and isinstance(node.func, ast.Name) and node.func.id in ("tuple", "list", "enumerate") and node.args and (setish(node.args[0])):
                    bad.append(f"{fn.__qualname__}: `{ast.unparse(node)[:90]}` orders a set without sorting")
                if isinstance(node, ast.BinOp) and isinstance(node.op, ast.Add) and (setish(node.left) or setish(node.right)):
                    bad.append(f"{fn.__qualname__}: `{ast.unparse(node)[:90]}` concatenates a set")
                if isinstance(node, (ast.DictComp, ast.ListComp, ast.GeneratorExp)):
                    for g in node.generators:
                        if ordered_use(g.iter):
                            bad.append(f"{fn.__qualname__}: comprehension over unsorted set `{ast.unparse(g.iter)[:80]}`")
        if bad:
            return violated("numbering/signature code orders a set without a canonical sort (result depends on hash values, i.e. on counters and PYTHONHASHSEED): " + " | ".join(bad[:4]),
                            replay={"sites": bad}, reproduced=False, backend="ast")
        return proved("ast", vcs=n, sample=f"{len(fns)} functions on the numbering path: every set is ordered through sorted/sort_domains/sorted_by_count")
    run.add("frame/no-unordered-iteration-on-the-numbering-path", unordered, kind="proof")

    # ---------------------------------------------------------------- history differential on the corpus
    hist = list(HISTORIES_QUICK)
    if run.tier == "thorough":
        import random
        rnd = random.Random(run.seed)
        for _ in range(40):
            hist.append({k: rnd.choice([0, 1, 8, 9, 10, 11, 95, 99, 100, 101, 998, 1000, rnd.randint(0, 10 ** 6)]) for k in S.COUNTER_FAMILIES})
    for bname, b in S.builders():
        def hob(bname=bname, b=b):
            try:
                s0 = _sig(b, {})
            except Exception as ex:  # noqa: BLE001
                return undecided(f"{bname}: builder failed: {type(ex).__name__}: {ex}")
            for h in hist:
                s1 = _sig(b, h)
                if s1 != s0:
                    return violated(f"the form '{bname}' built the same way has a different signature when the global counters start at {h} instead of 0",
                                    replay={"builder": bname, "history": h, "sig0": s0, "sig1": s1}, reproduced=True, backend="exec")
            if _sig(b, {}) != s0:
                return violated(f"'{bname}': signature not reproducible in-process", reproduced=True)
            return bounded_ok(len(hist), f"{len(hist)} counter histories incl. starts at 9, 99 and mixed offsets", sample=f"{bname}: one signature under all histories")
        run.add(f"history/{bname}", hob, kind="bounded")

    # ---------------------------------------------------------------- histories given as prior object creations in a fresh process
    # (counters are class attributes created on first use: which class creates the counter, and which classes share it, is part of
    # the history).  Forms mixing plain coefficients / constants with instances of user subclasses.
    def creations():
        import itertools as _it
        import ufl.utils.counted as _cnt

        def fresh():
            seen, todo = set(), [_cnt.Counted]
            while todo:
                c = todo.pop()
                for sub in c.__subclasses__():
                    if sub not in seen:
                        seen.add(sub)
                        todo.append(sub)
            for c in seen:
                if "_counter" in c.__dict__:
                    try:
                        delattr(c, "_counter")
                    except AttributeError:
                        pass
            ufl.Mesh._ufl_global_id = 0

        def build(prior):
            fresh()
            m0 = S.new_mesh()
            P1, P2 = ufl.FunctionSpace(m0, S.L(ufl.triangle, 1)), ufl.FunctionSpace(m0, S.L(ufl.triangle, 2))
            for kind in prior:
                {"c": lambda: ufl.Coefficient(P1), "u": lambda: S.UserCoefficient(P2), "k": lambda: ufl.Constant(m0), "K": lambda: S.UserConstant(m0),
                 "i": lambda: ufl.Index()}[kind]()
            fresh_first = prior[:0]
            f, g = ufl.Coefficient(P1), S.UserCoefficient(P2)
            c, k = ufl.Constant(m0), S.UserConstant(m0)
            v = ufl.TestFunction(P1)
            return ((f * g + c * k) * v * ufl.dx + g * g * f * c * v * ufl.ds).signature()
        priors = ["", "c", "u", "uuuuu", "cccuu", "ucucuc", "kKKK", "Kkkkk", "ccccccccccu", "uuuuuuuuuuuc", "iiii", "cuKkic" * 3]
        sigs = {}
        for pr in priors:
            try:
                sigs[pr] = build(pr)
            except Exception as ex:  # noqa: BLE001
                sigs[pr] = f"<no signature: {type(ex).__name__}: {ex}>"
        base = sigs[""]
        for pr, sg in sigs.items():
            if sg != base:
                return violated(f"the form (f*g + c*k)*v*dx + g*g*f*c*v*ds (g, k of user subclasses) has a different signature after the prior creations "
                                f"'{pr}' (c/u: plain / user coefficient, k/K: plain / user constant, i: index) than in a fresh process",
                                replay={"prior": pr, "sig_fresh": base, "sig": sg}, reproduced=True, backend="exec")
        return bounded_ok(len(priors), f"{len(priors)} prior-creation histories from a fresh counter state", sample="one signature after all prior creations")
    run.add("history/prior-creations(user subclasses of Coefficient and Constant)", creations, kind="bounded")

    # ---------------------------------------------------------------- hash seed / process independence
    def seeds():
        nseeds = 4 if run.tier == "quick" else 16
        code = ("import warnings, json, sys; warnings.simplefilter('ignore'); import ufv.opq; from ufv import sigforms as S\n"
                "out = {}\n"
                "from ufl.algorithms.domain_analysis import group_form_integrals\n"
                "for nm, b in S.builders():\n"
                "    S.set_counters({})\n"
                "    F = b()\n"
                "    out[nm] = F.signature()\n"
                "    try:\n"
                "        G = group_form_integrals(F, F.ufl_domains())\n"
                "        out[nm + ' | grouped (group_form_integrals)'] = G.signature() + ' ' + repr([str(i.integrand())[:60] for i in G.integrals()])\n"
                "    except Exception as ex:\n"
                "        out[nm + ' | grouped (group_form_integrals)'] = 'refused ' + type(ex).__name__\n"
                "print(json.dumps(out))\n")
        ref = None
        for sd in range(nseeds):
            env = dict(os.environ, PYTHONHASHSEED=str(sd * 7919 + 1))
            r = subprocess.run([sys.executable, "-c", code], env=env, capture_output=True, text=True, timeout=300)
            if r.returncode != 0:
                return undecided(f"subprocess failed: {r.stderr[-300:]}")
            got = json.loads(r.stdout.strip().splitlines()[-1])
            if ref is None:
                ref = got
            elif got != ref:
                d = [k for k in got if got[k] != ref[k]]
                return violated(f"signatures differ between processes with different PYTHONHASHSEED for {d}", replay={"forms": d, "seed": env["PYTHONHASHSEED"]},
                                reproduced=True, backend="subprocess")
        return bounded_ok(nseeds, f"{nseeds} processes with distinct PYTHONHASHSEED", sample=f"{len(ref)} corpus signatures identical across processes")
    run.add("process/hash-seed", seeds, kind="bounded")

    def canary():
        a, b, a2, b2 = 1, 2, 2, 1        # NOT an order isomorphism: must be refuted
        A, B, A2, B2 = (types.SimpleNamespace(_count=c) for c in (a, b, a2, b2))
        if SRT._cmp_coefficient(A, B) == SRT._cmp_coefficient(A2, B2):
            return proved("canary")
        return violated("canary refuted", reproduced=True)
    run.add("canary/order-reversal-changes-cmp", canary, kind="canary")


def _unguarded_count_reads(tree):
    """Reads of `_count` that are not dominated by a test establishing that the object is absent from `renumbering`.
    Recognised guards: `if x not in renumbering: <read>`, `if x in renumbering: ... else: <read>`, the same as conditional expressions,
    statements following an `if x in renumbering:` whose body always leaves the function, `except KeyError:` after a try that subscripts
    renumbering, and the default argument of renumbering.get(x, <read>)."""
    import ast

    def test_kind(t):
        if isinstance(t, ast.Compare) and len(t.ops) == 1 and isinstance(t.comparators[0], ast.Name) and t.comparators[0].id == "renumbering":
            if isinstance(t.ops[0], ast.NotIn):
                return "absent"
            if isinstance(t.ops[0], ast.In):
                return "present"
        if isinstance(t, ast.UnaryOp) and isinstance(t.op, ast.Not):
            k = test_kind(t.operand)
            return {"absent": "present", "present": "absent"}.get(k)
        return None

    def leaves(stmts):
        return bool(stmts) and isinstance(stmts[-1], (ast.Return, ast.Raise))

    out = []

    def expr(e, absent):
        if e is None:
            return
        if isinstance(e, ast.IfExp):
            k = test_kind(e.test)
            expr(e.test, absent)
            expr(e.body, absent or k == "absent")
            expr(e.orelse, absent or k == "present")
            return
        if isinstance(e, ast.Call) and isinstance(e.func, ast.Attribute) and e.func.attr == "get" and isinstance(e.func.value, ast.Name) \
                and e.func.value.id == "renumbering" and len(e.args) == 2:
            expr(e.args[0], absent)
            expr(e.args[1], True)
            return
        if isinstance(e, ast.Attribute) and e.attr == "_count" and not absent:
            out.append(f"line {e.lineno}: {ast.unparse(e)}")
        for ch in ast.iter_child_nodes(e):
            if isinstance(ch, ast.expr):
                expr(ch, absent)
            elif isinstance(ch, (ast.comprehension, ast.keyword)):
                for c2 in ast.iter_child_nodes(ch):
                    if isinstance(c2, ast.expr):
                        expr(c2, absent)

    def block(stmts, absent):
        for k_, st in enumerate(stmts):
            if isinstance(st, ast.If):
                k = test_kind(st.test)
                expr(st.test, absent)
                block(st.body, absent or k == "absent")
                block(st.orelse, absent or k == "present")
                if k == "present" and leaves(st.body) and not st.orelse:
                    absent = True
                continue
            if isinstance(st, ast.Try):
                block(st.body, absent)
                subs = any(isinstance(n_, ast.Subscript) and isinstance(n_.value, ast.Name) and n_.value.id == "renumbering" for b in st.body for n_ in ast.walk(b))
                for h in st.handlers:
                    is_key = h.type is not None and "KeyError" in ast.unparse(h.type)
                    block(h.body, absent or (subs and is_key))
                block(st.orelse, absent)
                block(st.finalbody, absent)
                continue
            if isinstance(st, (ast.FunctionDef, ast.For, ast.While, ast.With)):
                for f_ in ("iter", "test"):
                    if hasattr(st, f_):
                        expr(getattr(st, f_), absent)
                block(getattr(st, "body", []), absent)
                block(getattr(st, "orelse", []), absent)
                continue
            for ch in ast.iter_child_nodes(st):
                if isinstance(ch, ast.expr):
                    expr(ch, absent)
    fn = tree.body[0]
    block(fn.body, False)
    return out
