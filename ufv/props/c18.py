"""C18 — estimated polynomial degree never underestimates the true degree.

Functions under contract: every handler of SumDegreeEstimator that the property's scope reaches
(polynomial integrands on affine simplex cells), _add_degrees/_max_degrees/_reduce_degree,
estimate_total_polynomial_degree.

Contract (abstract-interpretation soundness, transfer function per node type T):
    (forall i. ops_i >= deg(e_i) >= 0)  ==>  h_T(ops) >= deg(T(e))
with the degree algebra as spec: deg(a+b) <= max, deg(ab) <= sum, deg(a^n) <= n deg a (n literal >= 0),
deg(da) <= max(deg a - 1, 0) on affine simplices, structural nodes preserve degree, a fixed component of a
mixed/symmetric function has the degree of the sub-element that owns that PHYSICAL component.
The real handlers are executed path-exhaustively on z3-backed symbolic integers (all degrees, unbounded).
"""
from __future__ import annotations

import itertools

import z3

import ufl
import ufl.algorithms.estimate_degrees as ED
import ufl.classes as C
from ufl.algorithms.estimate_degrees import SumDegreeEstimator, estimate_total_polynomial_degree
from ufl.core.multiindex import FixedIndex, Index, MultiIndex
from ufl.pullback import contravariant_piola, covariant_piola, identity_pullback
from ufl.sobolevspace import H1, HCurl, HDiv, L2

from ufv import elements as E
from ufv.core import bounded_ok, proved, undecided, violated
from ufv.opq import Opq, mesh
from ufv.symx import SymInt, explore, prove, shadow_int, term

LEVEL = "proof"
TECHNIQUE = ("abstract-interpretation soundness contracts on the real degree-estimation handlers, executed path-exhaustively on "
             "z3-backed symbolic integers (all degrees); VCs in linear/non-linear integer arithmetic discharged by z3")
LEVEL_TEXT = ("Every transfer function in the property's scope is proved sound for all (unbounded) operand degrees on every "
              "execution path; the scope restriction (polynomial operators, affine simplex cells) is the property's own. Composition to "
              "arbitrary expressions is the structural-induction lemma (lemmas/Induction.lean). Element layouts for the component "
              "attribution rule are enumerated over a finite family of real mixed/symmetric/Piola elements (all degrees symbolic).")
LEVEL_NOTE = ("Trusted: the degree algebra used as spec (this file), z3, CPython running the real handlers on SymInt proxies, the "
              "shadowing of the name `int` in ufl.algorithms.estimate_degrees so that isinstance(x, int) accepts proxies. "
              "Number of operands of variadic handlers <= 3; exponents of Power enumerated over literals; element layouts enumerated.")
TRUSTED = ["degree algebra (spec) in ufv/props/c18.py", "z3 integer arithmetic", "SymInt proxy fidelity (ufv/symx.py)",
           "lemmas/Induction.lean (structural induction), checked by lean in the thorough tier of C19"]
ASSUMPTIONS = ["scope per the property: polynomial integrands on affine simplex cells (non-polynomial operators are heuristics by design)",
               "`int` is shadowed in ufl.algorithms.estimate_degrees while handlers run, so isinstance(f, int) accepts symbolic ints",
               "variadic handlers checked for 1..3 operands; Power exponents over literals {0,1,2,3,5,-1,-2,0.5,2.0} and an opaque exponent",
               "mixed-element layouts: finite family of real elements on triangle, triangle-in-3D, interval-in-2D meshes; degrees symbolic"]
EXPLANATION = ("Per-handler soundness obligations for the degree abstract interpreter, decided for all integer degrees by "
               "path-exhaustive symbolic execution of the real handler code with z3 proxies.")


def nn(*xs):
    return [term(x) >= 0 for x in xs]


def build(run):
    thorough = run.tier == "thorough"
    tri = mesh("triangle")

    def est():
        return SumDegreeEstimator(1, {})

    # ------------------------------------------------------------------ generic transfer obligation
    def transfer(name, make, pre, post, handler=None, kind="proof"):
        """make() -> (callable, args) ; pre(args)-> list of z3 ; post(args, result) -> z3 bool (spec: result large enough)."""
        if handler is not None:
            run.function(handler, f"SumDegreeEstimator.{handler.__name__}" if not hasattr(handler, "__self__") else None)

        def thunk():
            holder = {}

            def fn(*a):
                with shadow_int(ED):
                    return holder["f"](*a)

            def mk():
                f, args = make()
                holder["f"] = f
                holder["args"] = args
                return args
            paths, complete = explore(fn, mk)
            if not complete:
                return undecided(f"{name}: path cap hit")
            n = 0
            for p in paths:
                args = holder["args"]
                # re-create args terms: symbolic names are stable, so args from the last run describe the same terms
                if p.kind == "exc":
                    if isinstance(p.value, (ValueError,)):
                        continue   # refusal
                    return violated(f"{name}: handler raised {type(p.value).__name__}: {p.value} on path {p.decisions}",
                                    replay={"path_condition": [str(c) for c in p.pc]}, reproduced=True, backend="exec")
                claim = post(args, p.value)
                st, model = prove(p.pc + pre(args), claim)
                n += 1
                if st == "refuted":
                    return violated(f"{name}: estimate too small: result {p.value!r} on path {[str(c) for c in p.pc]} with {model}",
                                    replay={"model": model, "result": repr(p.value), "path_condition": [str(c) for c in p.pc],
                                            "claim": str(claim)}, reproduced=True, backend="z3")
                if st == "unknown":
                    return undecided(f"{name}: z3 unknown on path {p.decisions}")
            if n == 0:
                return undecided(f"{name}: no path returned a value")
            return proved("z3(path-exhaustive)", vcs=n, sample=f"{name}: {n} paths; e.g. pc={[str(c) for c in paths[0].pc]} "
                          f"result={paths[0].value!r} claim={post(holder['args'], paths[0].value)}")
        run.add(name, thunk, kind=kind)

    def ge(r, t):
        return term(r) >= t

    S = lambda nm: SymInt(nm)  # noqa: E731
    a_op, b_op = Opq("a", dom=tri), Opq("b", dom=tri)

    # ---- max-type handlers
    for hname, mknode in [("sum", lambda k: C.Sum(a_op, b_op)), ("list_tensor", lambda k: C.ListTensor(*([a_op, b_op, Opq("c", dom=tri)][:k]))),
                          ("conditional", None), ("expr_list", None)]:
        for k in (1, 2, 3):
            if hname in ("sum",) and k != 2:
                continue
            if hname == "conditional" and k != 2:
                continue

            def make(hname=hname, k=k, mknode=mknode):
                ops = [S(f"d{i}") for i in range(k)]
                e = est()
                node = mknode(k) if mknode else a_op
                if hname == "conditional":
                    return (lambda *o: e.conditional(node, None, *o)), ops
                return (lambda *o: getattr(e, hname)(node, *o)), ops
            transfer(f"transfer/{hname}/k={k}", make, lambda args: nn(*args),
                     lambda args, r: z3.And(*[ge(r, term(x)) for x in args], ge(r, 0)),
                     handler=getattr(SumDegreeEstimator, hname))
    # ---- add-type handlers
    for hname in ("product", "inner", "dot", "outer", "cross", "division"):
        def make(hname=hname):
            ops = [S("d0"), S("d1")]
            e = est()
            return (lambda *o: getattr(e, hname)(a_op, *o)), ops
        spec = (lambda args, r: ge(r, term(args[0]) + term(args[1]))) if hname != "division" else (lambda args, r: ge(r, term(args[0])))
        transfer(f"transfer/{hname}", make, lambda args: nn(*args), spec, handler=getattr(SumDegreeEstimator, hname))
    # ---- structural handlers preserve the degree
    mi = MultiIndex((Index(),))
    for hname, nargs in [("indexed", 2), ("index_sum", 2), ("component_tensor", 2), ("transposed", 1), ("variable", 2),
                         ("positive_restricted", 1), ("negative_restricted", 1), ("conj", 1), ("real", 1), ("imag", 1),
                         ("reference_value", 1)]:
        def make(hname=hname, nargs=nargs):
            ops = [S("d0")] + [None] * (nargs - 1)
            e = est()
            node = C.Indexed(Opq("A", (3,), dom=tri), mi) if hname == "indexed" else a_op
            return (lambda *o: getattr(e, hname)(node, *o)), ops
        transfer(f"transfer/{hname}", make, lambda args: nn(args[0]), lambda args, r: ge(r, term(args[0])),
                 handler=getattr(SumDegreeEstimator, hname))
    # ---- derivatives on affine simplex cells: deg(da) <= max(deg a - 1, 0)
    for cellname in ("interval", "triangle", "tetrahedron"):
        dom = mesh(cellname)
        f = Opq("f", dom=dom)
        for hname, node in [("grad", C.Grad(f)), ("reference_grad", C.ReferenceGrad(f)), ("nabla_grad", C.NablaGrad(f)),
                            ("div", C.Div(Opq("g", (dom.geometric_dimension,), dom=dom))),
                            ("nabla_div", C.NablaDiv(Opq("g", (dom.geometric_dimension,), dom=dom))),
                            ("curl", C.Curl(Opq("g", (3,), dom=dom)) if cellname == "tetrahedron" else None)]:
            if node is None:
                continue

            def make(hname=hname, node=node):
                e = est()
                return (lambda o: getattr(e, hname)(node, o)), [S("d0")]
            transfer(f"transfer/{hname}/{cellname}", make, lambda args: nn(*args),
                     lambda args, r: z3.And(ge(r, term(args[0]) - 1), ge(r, 0)), handler=getattr(SumDegreeEstimator, hname))
    # ---- remaining handlers: piecewise / non-polynomial operators never estimate below their operands; a shape derivative in a direction of
    # degree q of an integrand of degree p has terms grad(f).V and f div(V): degree p + q - 1 on affine cells
    for hname, nargs, post in [("abs", 1, lambda a, r: ge(r, term(a[0]))), ("math_function", 1, lambda a, r: ge(r, term(a[0]))),
                               ("min_value", 2, lambda a, r: z3.And(ge(r, term(a[0])), ge(r, term(a[1])))),
                               ("max_value", 2, lambda a, r: z3.And(ge(r, term(a[0])), ge(r, term(a[1])))),
                               ("atan2", 2, lambda a, r: z3.And(ge(r, term(a[0])), ge(r, term(a[1])))),
                               ("expr_mapping", 2, lambda a, r: z3.And(ge(r, term(a[0])), ge(r, term(a[1])))),
                               ("bessel_function", 2, lambda a, r: ge(r, term(a[1]))),
                               ("coordinate_derivative", 4, lambda a, r: z3.And(ge(r, term(a[0]) + term(a[2]) - 1), ge(r, 0)))]:
        def make(hname=hname, nargs=nargs):
            ops = [S(f"d{i}") for i in range(nargs)]
            e = est()
            return (lambda *o: getattr(e, hname)(a_op, *o)), ops
        transfer(f"transfer/{hname}", make, lambda args: nn(*args), post, handler=getattr(SumDegreeEstimator, hname))
    for hname in ("cell_avg", "facet_avg"):          # averages are cellwise constant: any non-negative estimate is an upper bound
        def make(hname=hname):
            e = est()
            return (lambda o: getattr(e, hname)(a_op, o)), [S("d0")]
        transfer(f"transfer/{hname}", make, lambda args: nn(*args), lambda a, r: ge(r, 0), handler=getattr(SumDegreeEstimator, hname))
    # ---- power
    exps = [C.IntValue(0), C.IntValue(1), C.IntValue(2), C.IntValue(3), C.IntValue(5)]
    for g in exps:
        def make(g=g):
            e = est()
            node = C.Power.__new__(C.Power, a_op, C.IntValue(7))  # build a Power node, then set the exponent we want
            node._init(a_op, g)
            C.Power.__init__(node, a_op, g)
            return (lambda o: e.power(node, o, 0)), [S("d0")]
        n = int(g)
        transfer(f"transfer/power/exponent={n}", make, lambda args: nn(*args), lambda args, r, n=n: ge(r, term(args[0]) * n),
                 handler=SumDegreeEstimator.power)

    # ---- terminals: degree of the element (symbolic), constants, coordinates
    def elem(deg, shape=(), cell=ufl.triangle, pb=identity_pullback, sob=H1, fam="P"):
        return E.FiniteElement(fam, cell, deg, shape, pb, sob)

    def term_make(kind):
        def make():
            d, sdeg = S("d0"), S("s0")
            e = est()
            # the element's span may exceed the largest full P_k it contains: sub-degree s0 <= super-degree d0 (bubbles, Nedelec, RT); the true polynomial
            # degree of the function is the SUPER-degree d0
            V = ufl.FunctionSpace(tri, E.FiniteElement("P", ufl.triangle, d, (), identity_pullback, H1, subdegree=sdeg))
            if kind == "coefficient":
                return (lambda _d, _s: e.coefficient(ufl.Coefficient(V))), [d, sdeg]
            return (lambda _d, _s: e.argument(ufl.TestFunction(V))), [d, sdeg]
            V = ufl.FunctionSpace(tri, elem(d))
            if kind == "coefficient":
                return (lambda _d: e.coefficient(ufl.Coefficient(V))), [d]
            return (lambda _d: e.argument(ufl.TestFunction(V))), [d]
        return make
    for kind in ("coefficient", "argument"):
        transfer(f"transfer/{kind}", term_make(kind), lambda args: nn(*args) + [term(args[1]) <= term(args[0])], lambda args, r: ge(r, term(args[0])),
                 handler=getattr(SumDegreeEstimator, kind))

    def consts():
        e = est()
        n = 0
        for dom in (mesh("interval"), tri, mesh("tetrahedron"), mesh("triangle", 3), mesh("interval", 2)):
            x = ufl.SpatialCoordinate(dom)
            if e.spatial_coordinate(x) < 1:
                return violated("spatial coordinate on an affine mesh estimated below 1", reproduced=True)
            if e.cell_coordinate(C.CellCoordinate(dom)) < 1:
                return violated("cell coordinate estimated below 1", reproduced=True)
            for q in (C.Jacobian(dom), C.JacobianInverse(dom), C.JacobianDeterminant(dom), C.CellVolume(dom), C.FacetNormal(dom),
                      C.Circumradius(dom)):
                if e.geometric_quantity(q) < 0:
                    return violated(f"negative degree for {q}", reproduced=True)
                n += 1
            # every geometric quantity class of the language: the position quantities (affine functions of the point inside the cell, facet or ridge:
            # true degree 1) must not be estimated below 1, also as a factor of a product / power; nothing may be negative
            import inspect
            from ufl.corealg.map_dag import map_expr_dag
            POSITION = ("SpatialCoordinate", "CellCoordinate", "FacetCoordinate", "RidgeCoordinate")
            for cname_, cls_ in sorted(vars(C).items()):
                if not (inspect.isclass(cls_) and issubclass(cls_, C.GeometricQuantity)) or cls_._ufl_is_abstract_:
                    continue
                try:
                    q = cls_(dom)
                    q.ufl_shape
                except Exception:  # noqa: BLE001
                    continue        # not defined on this cell
                d_ = map_expr_dag(est(), q)
                n += 1
                if d_ < 0 or (cname_ in POSITION and d_ < 1):
                    return violated(f"{cname_} on {dom.ufl_cell()} (gdim {dom.geometric_dimension}) is estimated as degree {d_}" + (", it is affine in the position (degree 1)" if cname_ in POSITION else ""),
                                    replay={"quantity": cname_, "cell": str(dom.ufl_cell())}, reproduced=True)
                if cname_ in POSITION and q.ufl_shape and all(q.ufl_shape):
                    c_ = q[(0,) * len(q.ufl_shape)]
                    d2 = estimate_total_polynomial_degree(c_ ** 2 * x[0])
                    n += 1
                    if d2 < 3:
                        return violated(f"{cname_}[0]**2 * x[0] on {dom.ufl_cell()} is estimated as degree {d2}, its true degree is 3",
                                        replay={"quantity": cname_, "cell": str(dom.ufl_cell())}, reproduced=True)
        for v in (C.IntValue(3), C.FloatValue(0.5), C.Zero((2,)), C.Identity(2), ufl.Constant(tri)):
            r = e(v) if not isinstance(v, ufl.Constant) else e.constant(v)
            if r != 0:
                return violated(f"constant {v!r} has degree {r}", reproduced=True)
            n += 1
        return proved("exec(finite)", vcs=n, sample="coordinates >= 1 on affine meshes; constants 0; cellwise constant geometry >= 0")
    run.function(SumDegreeEstimator.spatial_coordinate)
    run.function(SumDegreeEstimator.geometric_quantity)
    run.function(SumDegreeEstimator.constant_value)
    run.add("transfer/terminals-geometry-and-constants", consts, kind="proof")

    # ---- component attribution (the `indexed` rule): physical owner's degree, all degrees symbolic, layouts enumerated
    man3 = mesh("triangle", 3)
    int2 = mesh("interval", 2)

    def layouts():
        """(name, mesh, builder(degs)-> (element, owners) ) ; owners[c] = index of the degree symbol owning physical component c"""
        L = []

        def sub(kind, d, msh):
            cell = msh.ufl_cell()
            g, t = msh.geometric_dimension, cell.topological_dimension
            if kind == "P":
                return E.FiniteElement("P", cell, d, (), identity_pullback, H1), 1
            if kind == "Pv":
                return E.FiniteElement("P", cell, d, (g,), identity_pullback, H1), g
            if kind == "RT":
                return E.FiniteElement("RT", cell, d, (t,), contravariant_piola, HDiv), g
            if kind == "N1":
                return E.FiniteElement("N1curl", cell, d, (t,), covariant_piola, HCurl), g
            if kind == "DG":
                return E.FiniteElement("DG", cell, d, (), identity_pullback, L2), 1
            raise KeyError(kind)
        combos = [("P", "P"), ("Pv", "P"), ("RT", "DG"), ("DG", "RT"), ("N1", "P"), ("RT", "Pv", "DG"), ("P", "RT", "P")]
        for msh, mname in ((tri, "tri2d"), (man3, "tri3d"), (int2, "int2d")):
            for combo in combos:
                def builder(degs, combo=combo, msh=msh):
                    subs, owners = [], []
                    for i, (k, d) in enumerate(zip(combo, degs)):
                        s, psize = sub(k, d, msh)
                        subs.append(s)
                        owners += [i] * psize
                    return E.MixedElement(subs), owners
                L.append((f"mixed[{'+'.join(combo)}]@{mname}", msh, len(combo), builder))
        # symmetric tensor element, 2x2 with 3 independent components of different degree
        def sym_builder(degs):
            subs = [E.FiniteElement("P", ufl.triangle, d, (), identity_pullback, H1) for d in degs]
            symmetry = {(0, 0): 0, (0, 1): 1, (1, 0): 1, (1, 1): 2}
            return E.SymmetricElement(symmetry, subs), [symmetry[c] for c in itertools.product(range(2), range(2))]
        L.append(("symmetric[2x2]@tri2d", tri, 3, sym_builder))
        return L

    for lname, msh, nsub, builder in layouts():
        def thunk(lname=lname, msh=msh, nsub=nsub, builder=builder):
            from ufl.utils.indexflattening import shape_to_strides, unflatten_index
            # concrete probe to learn the physical shape
            el0, owners = builder([1] * nsub)
            V0 = ufl.FunctionSpace(msh, el0)
            shape = ufl.Coefficient(V0).ufl_shape
            ncomp = 1
            for s in shape:
                ncomp *= s
            if ncomp != len(owners):
                return undecided(f"{lname}: physical size {ncomp} != spec layout {len(owners)}")
            nv = 0
            for c in range(ncomp):
                comp = unflatten_index(c, shape_to_strides(shape))
                holder = {}

                def mk():
                    degs = [SymInt(f"d{i}") for i in range(nsub)]
                    holder["degs"] = degs
                    return degs

                def fn(*degs):
                    with shadow_int(ED):
                        el, _ = builder(list(degs))
                        f = ufl.Coefficient(ufl.FunctionSpace(msh, el))
                        node = C.Indexed(f, MultiIndex(tuple(FixedIndex(i) for i in comp)))
                        e = est()
                        A = e.coefficient(f)
                        return e.indexed(node, A, None)
                paths, complete = explore(fn, mk)
                if not complete:
                    return undecided(f"{lname}: path cap")
                for p in paths:
                    if p.kind == "exc":
                        return undecided(f"{lname}: exception on a path: {type(p.value).__name__}: {p.value}")
                    degs = holder["degs"]
                    want = term(degs[owners[c]])
                    st, model = prove(p.pc + nn(*degs), term(p.value) >= want)
                    nv += 1
                    if st == "refuted":
                        conc = {k: int(v) for k, v in model.items() if k.startswith("d")}
                        dl = [conc.get(f"d{i}", 0) for i in range(nsub)]
                        el, _ = builder(dl)
                        f = ufl.Coefficient(ufl.FunctionSpace(msh, el))
                        node = C.Indexed(f, MultiIndex(tuple(FixedIndex(i) for i in comp)))
                        native = estimate_total_polynomial_degree(node)
                        return violated(
                            f"{lname}: physical component {comp} belongs to sub-element {owners[c]} of degree {dl[owners[c]]}, "
                            f"but estimate_total_polynomial_degree returns {native} (sub-element degrees {dl})",
                            replay={"layout": lname, "component": list(comp), "degrees": dl, "owner": owners[c],
                                    "native_estimate": native, "true_degree": dl[owners[c]], "element": repr(el)},
                            reproduced=native < dl[owners[c]], backend="z3")
                    if st == "unknown":
                        return undecided(f"{lname}: z3 unknown")
            return proved("z3(path-exhaustive)", vcs=nv, sample=f"{lname}: every fixed component >= degree of its physical owner, {nv} path VCs")
        run.add(f"indexed-component/{lname}", thunk, kind="values")
    run.function(SumDegreeEstimator.indexed)

    # ---- whole estimator on expressions with symbolic element degrees (composition check, bounded in expression shape)
    def whole():
        n = 0
        holder = {}

        def build_exprs(d0, d1):
            V0 = ufl.FunctionSpace(tri, elem(d0))
            V1 = ufl.FunctionSpace(tri, elem(d1, (2,)))
            f, g = ufl.Coefficient(V0), ufl.Coefficient(V1)
            x = ufl.SpatialCoordinate(tri)
            t0, t1 = term(d0), term(d1)
            dm = lambda t: z3.If(t - 1 >= 0, t - 1, 0)  # noqa: E731
            mx = lambda a, b: z3.If(a >= b, a, b)  # noqa: E731
            # true total degree for generic fields (a derivative of a constant is the zero polynomial, whose product
            # with anything is zero: degree 0 is then enough)
            return [
                (f * g[0] + f, mx(t0 + t1, t0)),
                (ufl.inner(ufl.grad(f), g), z3.If(t0 >= 1, t0 - 1 + t1, 0)),
                (f ** 3 * ufl.div(g), z3.If(t1 >= 1, 3 * t0 + t1 - 1, 0)),
                (ufl.dot(g, g) * x[0], 2 * t1 + 1),
                (ufl.grad(ufl.grad(f))[0, 1] * f, z3.If(t0 >= 2, 2 * t0 - 2, 0)),
                (ufl.as_vector([f, f * f])[1] + g[1].dx(0), mx(2 * t0, dm(t1))),
            ]
        k_exprs = 6
        for k in range(k_exprs):
            def mk():
                d = [SymInt("d0"), SymInt("d1")]
                holder["d"] = d
                return d

            def fn(d0, d1, k=k):
                from ufv import symx
                with shadow_int(ED):
                    ex, spec = build_exprs(d0, d1)[k]
                    holder["spec"] = spec
                    symx.ALLOW_TERM_HASH[0] = True   # map_expr_dags memoises results in a dict (compression only)
                    try:
                        return estimate_total_polynomial_degree(ex)
                    finally:
                        symx.ALLOW_TERM_HASH[0] = False
            paths, complete = explore(fn, mk)
            if not complete:
                return undecided("whole: path cap")
            for p in paths:
                if p.kind == "exc" and isinstance(p.value, ValueError):
                    continue    # refusal (e.g. grad(grad(f)) with a piecewise constant f cannot determine gdim)
                if p.kind == "exc":
                    return undecided(f"whole[{k}]: exception {type(p.value).__name__}: {p.value}")
                st, model = prove(p.pc + nn(*holder["d"]), term(p.value) >= holder["spec"])
                n += 1
                if st == "refuted":
                    return violated(f"whole-expression #{k}: estimate {p.value!r} below the true degree {holder['spec']} at {model}",
                                    replay={"model": model, "expr_index": k}, reproduced=True, backend="z3")
                if st == "unknown":
                    return undecided("whole: z3 unknown")
        return bounded_ok(n, f"{k_exprs} expression templates, all element degrees symbolic",
                          sample="estimate(f*g[0]+f) >= max(d0+d1, d0) for all d0,d1 >= 0, path-exhaustive")
    run.function(estimate_total_polynomial_degree)
    run.add("estimate_total_polynomial_degree/templates", whole, kind="bounded")

    # ---- the three entry points: an expression, an Integral, a whole Form (the estimate of a Form covers every one of its integrals)
    def entry_points():
        from ufv import symx
        n = 0
        holder = {}
        mx = lambda a, b: z3.If(a >= b, a, b)  # noqa: E731

        def build(d0, d1):
            V0 = ufl.FunctionSpace(tri, elem(d0))
            V1 = ufl.FunctionSpace(tri, elem(d1, (2,)))
            f, g = ufl.Coefficient(V0), ufl.Coefficient(V1)
            t0, t1 = term(d0), term(d1)
            F = f * ufl.Measure("dx", domain=tri) + g[0] * g[1] * ufl.Measure("ds", domain=tri) + f * f * f * ufl.Measure("dx", domain=tri, subdomain_id=1)
            return F, [t0, 2 * t1, 3 * t0]
        for what in ("form", "integral 0", "integral 1", "integral 2", "form with one integral", "reversed form"):
            def mk():
                d = [SymInt("d0"), SymInt("d1")]
                holder["d"] = d
                return d

            def fn(d0, d1, what=what):
                with shadow_int(ED):
                    F, degs = build(d0, d1)
                    if what == "form":
                        x, spec = F, mx(mx(degs[0], degs[1]), degs[2])
                    elif what == "reversed form":
                        x, spec = ufl.Form(list(reversed(F.integrals()))), mx(mx(degs[0], degs[1]), degs[2])
                    elif what == "form with one integral":
                        x, spec = ufl.Form([it_ for it_ in F.integrals() if it_.subdomain_id() == 1]), degs[2]
                    else:
                        k_ = int(what.split()[1])
                        x = F.integrals()[k_]         # Form sorts its integrals: identify the integrand by its measure
                        spec = degs[1] if x.integral_type() == "exterior_facet" else (degs[2] if x.subdomain_id() == 1 else degs[0])
                    holder["spec"] = spec
                    symx.ALLOW_TERM_HASH[0] = True
                    try:
                        return estimate_total_polynomial_degree(x)
                    finally:
                        symx.ALLOW_TERM_HASH[0] = False
            paths, complete = explore(fn, mk)
            if not complete:
                return undecided("entry points: path cap")
            for p in paths:
                if p.kind == "exc":
                    return undecided(f"entry points[{what}]: exception {type(p.value).__name__}: {p.value}")
                st, model = prove(p.pc + nn(*holder["d"]), term(p.value) >= holder["spec"])
                n += 1
                if st == "refuted":
                    return violated(f"estimate_total_polynomial_degree({what}) = {p.value!r} is below the true degree {holder['spec']} at {model}",
                                    replay={"model": model, "entry": what}, reproduced=True, backend="z3")
                if st == "unknown":
                    return undecided("entry points: z3 unknown")
        return proved("z3(path-exhaustive)", vcs=n, sample="estimate(Form) >= degree of every integrand, estimate(Integral) >= its integrand, for all element degrees")
    run.add("estimate_total_polynomial_degree/entry-points(Form, Integral)", entry_points, kind="values")

    # ---- the argument that derivative() creates for a TUPLE of coefficients lives on an internal mixed element: its degree bounds every block, in
    # whichever order the coefficients (low degree first / last) are listed; estimates of the expanded derivative and of compute_form_data hold
    def derivative_mixed_argument():
        from ufl import derivative, grad, inner
        from ufl.algorithms import compute_form_data, expand_derivatives
        dxm = ufl.Measure("dx", domain=tri)
        n = 0
        degs = (1, 2, 3, 4)
        combos = [c_ for c_ in itertools.product(degs, repeat=2)] + [(1, 3, 2), (3, 1, 2), (1, 1, 4), (4, 1, 1), (2, 4, 1), (1, 2, 3)]
        for ds_ in combos:
            cs = [ufl.Coefficient(ufl.FunctionSpace(tri, elem(d_, (2,) if k_ % 2 else ()))) for k_, d_ in enumerate(ds_)]
            # the first coefficient enters through its value, the others through their gradients only
            F = cs[0] * cs[0] * dxm
            true = 2 * ds_[0]
            for c_, d_ in zip(cs[1:], ds_[1:]):
                F = F + inner(grad(c_), grad(c_)) * dxm
                true = max(true, 2 * (d_ - 1))
            J = derivative(F, tuple(cs))
            arg = [a_ for a_ in J.arguments()] or [a_ for a_ in expand_derivatives(J).arguments()]
            el = arg[0].ufl_element()
            n += 1
            if el.embedded_superdegree < max(ds_):
                return violated(f"derivative(F, coefficients of degrees {ds_}): the created argument's element reports degree {el.embedded_superdegree}, below its block of degree {max(ds_)}",
                                replay={"degrees": list(ds_)}, reproduced=True, backend="exec")
            Je = expand_derivatives(J)
            ests = {"estimate_total_polynomial_degree(expand_derivatives(J))": estimate_total_polynomial_degree(Je)}
            fd = compute_form_data(J)
            ests["compute_form_data(J)"] = max(it_.metadata()["estimated_polynomial_degree"] for idt in fd.integral_data for it_ in idt.integrals)
            for nm_, e_ in ests.items():
                n += 1
                if e_ < true:
                    return violated(f"J = derivative(c0*c0*dx + sum_k |grad c_k|^2 dx, (c0, c1, ...)) with element degrees {ds_}: {nm_} = {e_}, the true polynomial degree is {true}",
                                    replay={"degrees": list(ds_), "route": nm_, "estimate": e_, "true": true}, reproduced=True, backend="exec")
        return proved("exec(finite)", vcs=n, sample=f"{len(combos)} degree tuples (every order): the created mixed argument bounds each block; both estimation routes >= the true degree")
    run.add("derivative-created-mixed-argument/degree-bounds-every-block", derivative_mixed_argument, kind="values")

    # ---- a non-negative integer power is a polynomial of degree d*e however the exponent is written (2, 2.0, 2+0j, IntValue, FloatValue)
    def integer_powers_spelled_as_floats():
        n = 0
        for d in (1, 2, 3, 4):
            f_ = ufl.Coefficient(ufl.FunctionSpace(tri, elem(d)))
            for e_ in (0, 1, 2, 3, 2.0, 3.0, 1.0, 0.0, 2 + 0j, C.IntValue(2), C.FloatValue(2.0), C.FloatValue(4.0)):
                ev = int(complex(e_._value if isinstance(e_, C.ScalarValue) else e_).real)
                est_ = estimate_total_polynomial_degree(f_ ** e_)
                n += 1
                if est_ < d * ev:
                    return violated(f"f**({e_!r}) with f of degree {d} is the polynomial f**{ev} of degree {d * ev}; estimated degree {est_}",
                                    replay={"degree": d, "exponent": repr(e_), "estimate": est_}, reproduced=True, backend="exec")
        return proved("exec(finite)", vcs=n, sample=f"{n} (degree, exponent spelling) cases: integer powers written as int / float / complex literals are estimated at least d*e")
    run.add("transfer/integer-powers-written-as-float-or-complex-literals", integer_powers_spelled_as_floats, kind="values")

    # ---- attach_estimated_degrees: what compute_form_data attaches to each integral is an estimate of THAT integrand, whatever
    # metadata the integral already carries (forms are re-processed after replace()/reconstruct(), so an annotation may be stale)
    # every integral gets ITS OWN estimate and keeps ITS OWN metadata, whatever the order of the integrals (highest degree first / last / in the middle)
    def attach_each_integral():
        from ufl.algorithms import compute_form_data
        from ufl.algorithms.compute_form_data import attach_estimated_degrees
        n = 0
        for d in (1, 2, 3):
            f_ = ufl.Coefficient(ufl.FunctionSpace(tri, elem(d)))
            v_ = ufl.TestFunction(ufl.FunctionSpace(tri, elem(1)))
            dxm, dsm = ufl.Measure("dx", domain=tri), ufl.Measure("ds", domain=tri)
            # (integrand, measure, true degree, metadata)
            parts = [(f_ ** 3 * v_, dxm(1, metadata={"quadrature_rule": "a"}), 3 * d + 1, {"quadrature_rule": "a"}), (f_ * v_, dxm((2, 5)), d + 1, {}), (v_, dsm(3, metadata={"k": 7}), 1, {"k": 7}),
                     (f_ * f_ * v_, dsm(4), 2 * d + 1, {})]
            for perm in itertools.permutations(range(4)):
                form = None
                for k_ in perm:
                    it_ = parts[k_][0] * parts[k_][1]
                    form = it_ if form is None else form + it_
                for route, out in (("attach_estimated_degrees", attach_estimated_degrees(form).integrals()),
                                   ("compute_form_data", [i_ for idt in compute_form_data(form).integral_data for i_ in idt.integrals])):
                    for itg in out:
                        sid = itg.subdomain_id()
                        sid = sid if not isinstance(sid, tuple) else sid[0]
                        which = {1: 0, 2: 1, 5: 1, 3: 2, 4: 3}[sid]
                        true_deg, md_ = parts[which][2], parts[which][3]
                        got = itg.metadata().get("estimated_polynomial_degree")
                        n += 1
                        if got is None or got < true_deg:
                            return violated(f"{route}: the integral over subdomain {itg.subdomain_id()} ({itg.integral_type()}) of a form with four integrals has true degree {true_deg} "
                                            f"but carries estimated_polynomial_degree = {got}", replay={"route": route, "subdomain": str(itg.subdomain_id()), "true": true_deg, "got": got, "degree": d},
                                            reproduced=True, backend="exec")
                        extra = {k2: v2 for k2, v2 in itg.metadata().items() if k2 != "estimated_polynomial_degree"}
                        if route == "attach_estimated_degrees" and extra != md_:
                            return violated(f"{route}: the integral over subdomain {itg.subdomain_id()} has metadata {extra}, it was given {md_} (entries of another integral leaked in)",
                                            replay={"route": route, "subdomain": str(itg.subdomain_id())}, reproduced=True, backend="exec")
        return proved("exec(finite)", vcs=n, sample=f"{n} (degree, integral order, route, integral) cases: each integral has its own estimate >= its true degree and its own metadata")
    run.add("attach_estimated_degrees/each-integral-its-own-estimate-and-metadata", attach_each_integral, kind="values")

    def attach():
        from ufl.algorithms.compute_form_data import attach_estimated_degrees
        n = 0
        holder = {}
        for mdkind in ("none", "quadrature_degree", "stale estimated_polynomial_degree", "other key"):
            def mk():
                d = [SymInt("d0"), SymInt("d1"), SymInt("m")]
                holder["d"] = d
                return d

            def fn(d0, d1, m, mdkind=mdkind):
                from ufv import symx
                with shadow_int(ED):
                    V0 = ufl.FunctionSpace(tri, elem(d0))
                    V1 = ufl.FunctionSpace(tri, elem(d1, (2,)))
                    f, g = ufl.Coefficient(V0), ufl.Coefficient(V1)
                    md = {"none": {}, "quadrature_degree": {"quadrature_degree": m}, "stale estimated_polynomial_degree": {"estimated_polynomial_degree": m},
                          "other key": {"quadrature_rule": "default", "estimated_polynomial_degree": m, "quadrature_degree": m}}[mdkind]
                    form = f * g[0] * ufl.dx(tri, metadata=md) + f * f * g[1] * ufl.ds(tri, metadata=md)
                    symx.ALLOW_TERM_HASH[0] = True
                    try:
                        out = attach_estimated_degrees(form)
                    finally:
                        symx.ALLOW_TERM_HASH[0] = False
                    res = {}
                    for itg in out.integrals():
                        res[itg.integral_type()] = itg.metadata()["estimated_polynomial_degree"]
                        for k_, v_ in md.items():
                            if k_ != "estimated_polynomial_degree" and itg.metadata().get(k_) is not v_:
                                raise AssertionError(f"metadata entry {k_} was not kept")
                    return (res["cell"], res["exterior_facet"])
            paths, complete = explore(fn, mk)
            if not complete:
                return undecided("attach: path cap")
            t0, t1 = z3.Int("d0"), z3.Int("d1")
            for p in paths:
                if p.kind == "exc":
                    return violated(f"attach_estimated_degrees[{mdkind}] raised {type(p.value).__name__}: {p.value}", reproduced=True,
                                    replay={"metadata": mdkind})
                for val, true_deg, what in ((p.value[0], t0 + t1, "f*g[0]*dx"), (p.value[1], 2 * t0 + t1, "f*f*g[1]*ds")):
                    st, model = prove(p.pc + nn(*holder["d"]), term(val) >= true_deg)
                    n += 1
                    if st == "refuted":
                        return violated(f"attach_estimated_degrees, integral {what} carrying metadata [{mdkind}]: attached degree {val!r} is below the "
                                        f"true degree {true_deg} at {model}", replay={"model": model, "metadata": mdkind, "integral": what},
                                        reproduced=True, backend="z3")
                    if st == "unknown":
                        return undecided("attach: z3 unknown")
        return proved("z3(path-exhaustive)", vcs=n, sample="attached estimated_polynomial_degree >= d0+d1 (cell) and 2*d0+d1 (facet) for all degrees and "
                      "every pre-existing metadata value m, other metadata entries kept")
    from ufl.algorithms.compute_form_data import attach_estimated_degrees as _aed
    run.function(_aed)
    run.add("attach_estimated_degrees/pre-existing-metadata", attach, kind="values")

    # ---- element_replace_map: a coefficient / argument whose element is mapped to another element is estimated with the degree of the
    # replacement (whole coefficient, contracted with a free index, fixed component)
    def replace_map():
        n = 0
        holder = {}
        k_exprs = 4
        for k in range(k_exprs):
            def mk():
                d = [SymInt("d0"), SymInt("dr"), SymInt("d1")]
                holder["d"] = d
                return d

            def fn(d0, dr, d1, k=k):
                from ufv import symx
                with shadow_int(ED):
                    e0, er = elem(d0), elem(dr)
                    ev0, evr = elem(d0, (2,)), elem(dr, (2,))
                    f = ufl.Coefficient(ufl.FunctionSpace(tri, e0))
                    w = ufl.Coefficient(ufl.FunctionSpace(tri, ev0))
                    v = ufl.TestFunction(ufl.FunctionSpace(tri, elem(d1)))
                    i_ = Index()
                    ex = [f * v, f * f * v, w[i_] * w[i_] * v, w[1] * f * v][k]
                    symx.ALLOW_TERM_HASH[0] = True
                    try:
                        return estimate_total_polynomial_degree(ex, element_replace_map={e0: er, ev0: evr})
                    finally:
                        symx.ALLOW_TERM_HASH[0] = False
            paths, complete = explore(fn, mk)
            if not complete:
                return undecided("replace_map: path cap")
            tr, t1 = z3.Int("dr"), z3.Int("d1")
            spec = [tr + t1, 2 * tr + t1, 2 * tr + t1, 2 * tr + t1][k]
            for p in paths:
                if p.kind == "exc":
                    return undecided(f"replace_map[{k}]: exception {type(p.value).__name__}: {p.value}")
                st, model = prove(p.pc + nn(*holder["d"]), term(p.value) >= spec)
                n += 1
                if st == "refuted":
                    return violated(f"estimate_total_polynomial_degree with element_replace_map, expression #{k} "
                                    f"({['f*v', 'f*f*v', 'w_i w_i v', 'w[1] f v'][k]}): estimate {p.value!r} is below the degree {spec} of the expression on "
                                    f"the replacement elements at {model} (d0: original degree, dr: replacement degree, d1: test function)",
                                    replay={"model": model, "expr_index": k}, reproduced=True, backend="z3")
                if st == "unknown":
                    return undecided("replace_map: z3 unknown")
        return proved("z3(path-exhaustive)", vcs=n, sample="estimate >= degree on the replacement elements for all (d0, dr, d1), whole / contracted / fixed components")
    run.add("estimate_total_polynomial_degree/element_replace_map", replace_map, kind="values")

    # ---- canary
    def canary_make():
        e = est()
        return (lambda *o: e.product(a_op, *o)), [S("d0"), S("d1")]

    def canary():
        paths, _ = explore(lambda *a: canary_make()[0](*a), lambda: canary_make()[1])
        for p in paths:
            st, _m = prove(p.pc + nn(SymInt("d0"), SymInt("d1")), term(p.value) >= z3.Int("d0") + z3.Int("d1") + 1)
            if st == "refuted":
                return violated("canary refuted", reproduced=True)
        return proved("canary")
    run.add("canary/product-plus-one", canary, kind="canary")
